"""C16  Exposition does not depend on the protobuf feature.

Flow of one run (verdict / evidence conventions of props.SeqProp.run):
 1. proofs: make Props/C16.vo + Spec/SpecC16.vo (+ Spec/SpecC04.vo for the number tables), Print Assumptions
    allowlist, forbidden-word scan;
 2. the harness is built TWICE from the repository's current working tree: default features (protobuf data model)
    and --no-default-features (plain data model);
 3. the SAME scenarios run on both binaries:
      S  API histories: C07's GatherGen (collectors, children, updates, 2-3 registries, gathers) plus custom
         collectors handing out literal families (unset payloads, timestamps) through gather and collect;
      E  TextEncoder (encode into a Vec, encode_to_string) on C04's generated family lists;
      G  TextEncoder on what gather() returned in the S scenarios (gather -> encode, on both builds);
 4. inside Coq (build/cases/C16*/, <= 16 coqc processes), per scenario:
      model_seq_both / model_enc_pb / model_enc_plain   both builds agree with the world model
                     (protobuf build as printed, plain build through the all-getters normal form);
      spec_c16_seq / spec_c16_enc    the two builds agree WITH EACH OTHER (structure through the getters;
                     every other observation and the text bytes literally);
    and in Python the E/G answers of the two builds are compared as byte strings;
 5. verdict: a difference between the two builds is a failing input by itself."""
from props import *
import collections, shutil, subprocess
import p_C07, p_C04

COQ_HDR_C16 = """Require Import PV.Base.Prelude PV.Base.F64 PV.Base.Utf8 PV.Model.Proto PV.Model.Desc PV.Model.Value PV.Model.Hist PV.Model.Vec PV.Model.Registry PV.Model.World PV.Model.Text PV.Model.DataModel PV.Spec.SpecC04 PV.Spec.SpecC16.
Open Scope N_scope.
Set Printing Width 1000000.
Set Printing Depth 1000000.
"""


# ------------------------------------------------------------------------------------ scenarios

def sprinkle_unset(r, f, p=0.25, allow_name=True):
    """returns a copy of family literal f in which some setters are skipped (pvlib.UNSET): the field then reads as the data
    model's default in both builds - exactly the reads `c16_defaults` is about"""
    import copy
    g = copy.deepcopy(f)
    def u(x): return UNSET if r.random() < p else x
    g["help"] = u(g["help"]); g["type"] = u(g["type"])
    if allow_name and r.random() < p * 0.4: g["name"] = UNSET
    for m in g["metrics"]:
        for k in ("gauge", "counter", "untyped"):
            if m[k] is not None: m[k] = u(m[k])
        if m["hist"] is not None:
            h = m["hist"]; h["count"] = u(h["count"]); h["sum"] = u(h["sum"]); h["b"] = [(u(c), u(b)) for c, b in h["b"]]
        if m["summary"] is not None:
            q = m["summary"]; q["count"] = u(q["count"]); q["sum"] = u(q["sum"]); q["q"] = [(u(a), u(b)) for a, b in q["q"]]
    return g


def defaulted(f):
    """the same family with every UNSET replaced by the default value (what both builds must read)"""
    import copy
    g = copy.deepcopy(f)
    z = f64(0.0)
    def d(x, dv): return dv if x == UNSET else x
    g["name"] = d(g["name"], ""); g["help"] = d(g["help"], ""); g["type"] = d(g["type"], "COUNTER")
    for m in g["metrics"]:
        for k in ("gauge", "counter", "untyped"):
            if m[k] is not None: m[k] = d(m[k], z)
        if m["hist"] is not None:
            h = m["hist"]; h["count"] = d(h["count"], 0); h["sum"] = d(h["sum"], z); h["b"] = [(d(c, 0), d(b, z)) for c, b in h["b"]]
        if m["summary"] is not None:
            q = m["summary"]; q["count"] = d(q["count"], 0); q["sum"] = d(q["sum"], z); q["q"] = [(d(a, z), d(b, z)) for a, b in q["q"]]
    return g

def custom_scenario(r):
    """one or two custom collectors handing out literal families (names made distinct per collector so that the
    HashMap order of the collectors cannot matter), registered on 1-2 registries, collected and gathered"""
    s = Slots()
    cols = []
    for ci in range(r.choice([1, 1, 2])):
        taken = []
        fams = []
        for _ in range(r.choice([1, 2, 2, 3])):
            f = p_C04.gen_family(r, taken, True, 0.05)
            if f["name"]:
                f["name"] = "c%d_%s" % (ci, f["name"])
            elif ci > 0:
                f["name"] = "c%d_noname" % ci        # an empty family name in the first collector only (see sprinkle below)
            fams.append(f)
        if r.random() < 0.3 and fams and fams[0]["name"]:
            # the same family name twice inside one collector: merged in collect order
            g = p_C04.gen_family(r, [], True, 0.0)
            g["name"] = fams[0]["name"]; g["type"] = fams[0]["type"]
            fams.append(g)
        if r.random() < 0.5:
            # an unset (= empty) family name only in the first collector and at most once: two families of one name in DIFFERENT
            # collectors are merged in the registry's HashMap order, which neither build controls
            named = [False]
            def sp(f):
                g = sprinkle_unset(r, f, allow_name=(ci == 0 and not named[0]))
                if g["name"] == UNSET: named[0] = True
                return g
            fams = [sp(f) if r.random() < 0.7 else f for f in fams]
        cols.append(s.emit("OpCustom", [("cust%d" % ci, "h", [], [])], fams))
    prefix = r.choice([None, None, "p", "ns_1"])
    labels = r.choice([None, None, [("zone", "eu"), ("c1", "1")], [("env", "é")]])
    regs = [s.emit("OpRegistry", prefix, None if labels is None else list(labels)) for _ in range(r.choice([1, 2]))]
    for reg in regs:
        order = list(cols); r.shuffle(order)
        for c in order: s.emit("OpRegister", reg, c)
    for c in cols:
        if r.random() < 0.5: s.emit("OpCollect", c)
    for reg in regs: s.emit("OpGather", reg)
    return s.ops


def defaults_scenario():
    """the fields the library reads without ever setting them, in one history"""
    s = Slots()
    c = s.emit("OpCounter", "NF", mkopts("a", "h"))
    g = s.emit("OpPulling", "g", "h", f64(2.5))
    h = s.emit("OpHistogram", dict(opts=mkopts("hh", "h"), buckets=[f64(1.0)]))
    fams = [mk_family("u", "", "COUNTER", [mk_metric(labels=[("l", "")])]),
            mk_family("v", "", "HISTOGRAM", [mk_metric(), mk_metric(ts=0), mk_metric(ts=-7)]),
            mk_family("w", "x", "SUMMARY", [mk_metric(gauge=f64(1.0))]),
            mk_family("y", "", "GAUGE", [mk_metric(counter=f64(3.0))]),
            # setters never called: name / help / type / payload fields read as defaults in both builds
            mk_family("t0", UNSET, UNSET, [mk_metric(counter=UNSET), mk_metric(labels=[("a", "b")], counter=f64(2.0))]),
            mk_family("t1", "h", UNSET, [mk_metric(gauge=f64(4.0))]),
            mk_family("t2", UNSET, "HISTOGRAM", [mk_metric(hist=dict(count=UNSET, sum=UNSET, b=[(UNSET, f64(1.0)), (3, UNSET)]))]),
            mk_family("t3", "h", "SUMMARY", [mk_metric(summary=dict(count=UNSET, sum=f64(1.5), q=[(UNSET, f64(2.0)), (f64(0.5), UNSET)]))]),
            mk_family(UNSET, "h", "GAUGE", [mk_metric(gauge=UNSET)])]
    cu = s.emit("OpCustom", [("cust", "h", [], [])], fams)
    reg = s.emit("OpRegistry", None, None)
    for x in (c, g, h, cu): s.emit("OpRegister", reg, x)
    s.emit("OpCollect", cu); s.emit("OpGather", reg)
    return s.ops


def gen_seq(r, tier):
    n = 200 if tier == "quick" else 2400
    ncust = 30 if tier == "quick" else 500
    out = [defaults_scenario()]
    out += [p_C07.many_labels_scenario(r) for _ in range(3 if tier == "quick" else 12)]
    while len(out) < n:
        g = p_C07.GatherGen(r)
        ops = g.run()
        if g.is_mixed: continue          # C14's known finding: the result depends on the HashMap order of the collectors
        out.append(ops)
    out += [custom_scenario(r) for _ in range(ncust)]
    return out


def gen_enc(r, tier):
    n = 200 if tier == "quick" else 3000
    out = []
    for i in range(n):
        sc = p_C04.gen_scenario(r)
        if i % 5 == 1:
            # hand-built histograms whose explicit +Inf bucket is NOT the last element (a custom collector listing buckets
            # widest-first): both builds must still agree on whether the implicit +Inf line is needed
            for f in sc["fams"]:
                for m in f["metrics"]:
                    h = m["hist"]
                    if h is not None and len(h["b"]) >= 1:
                        pos = r.randrange(len(h["b"]))
                        h["b"].insert(pos, (h["b"][pos][0], PINF))
        if i % 4 == 0:
            # same families with some setters skipped on the wire; the model / number tables see the defaults
            wire = [sprinkle_unset(r, f) for f in sc["fams"]]
            sc["wire_fams"] = wire
            sc["fams"] = [defaulted(f) for f in wire]
        out.append(sc)
    return out


# ------------------------------------------------------------------------------------ reading gathered families back
def parse_term(s):
    """harness output (Gallina list / constructor applications) -> nested Python lists / tuples / words"""
    s = re.sub(r"\((-?\d+)\)%Z", r"\1%Z", s)
    toks = re.findall(r"[()\[\];]|[^\s()\[\];]+", s)
    pos = [0]

    def item():
        t = toks[pos[0]]
        if t == "[":
            pos[0] += 1
            out = []
            if toks[pos[0]] == "]":
                pos[0] += 1
                return out
            while True:
                out.append(seq())
                t2 = toks[pos[0]]; pos[0] += 1
                if t2 == "]": return out
                assert t2 == ";", t2
        if t == "(":
            pos[0] += 1
            v = seq()
            assert toks[pos[0]] == ")"; pos[0] += 1
            return v
        pos[0] += 1
        return t

    def seq():
        parts = []
        while pos[0] < len(toks) and toks[pos[0]] not in (")", "]", ";"):
            parts.append(item())
        return parts[0] if len(parts) == 1 else tuple(parts)

    v = seq()
    assert pos[0] == len(toks)
    return v


def _str(l): return "".join(chr(int(c)) for c in l)
def _f(t): return F(int(t[1], 16))                 # ('bits2f', '0x..')
def _opt(t, f): return None if t == "None" else f(t[1])
def _z(w): return int(w.replace("%Z", ""))


def family_of_term(t):
    assert t[0] == "mkMF", t[0]
    ms = []
    for m in t[4]:
        assert m[0] == "mkMetric"
        ms.append(mk_metric(
            labels=[(_str(lp[1]), _str(lp[2])) for lp in m[1]],
            gauge=_opt(m[2], _f), counter=_opt(m[3], _f),
            summary=_opt(m[4], lambda s: dict(count=int(s[1]), sum=_f(s[2]), q=[(_f(q[1]), _f(q[2])) for q in s[3]])),
            untyped=_opt(m[5], _f),
            hist=_opt(m[6], lambda h: dict(count=int(h[1]), sum=_f(h[2]), b=[(int(b[1]), _f(b[2])) for b in h[3]])),
            ts=_opt(m[7], _z)))
    return mk_family(_str(t[1]), _str(t[2]), t[3], ms)


def gathered_of(obs_line):
    """the families of the last OFams observation of a protobuf-build answer, or None"""
    if not obs_line or "OFams [" not in obs_line: return None
    try:
        top = parse_term(obs_line)
    except Exception:
        return None
    last = None
    for o in top:
        if isinstance(o, tuple) and o and o[0] == "OFams":
            last = o[1]
    if not last: return None
    try:
        return [family_of_term(f) for f in last]
    except Exception:
        return None


# ------------------------------------------------------------------------------------ helpers
def e2_lines(sc):
    fams = " ".join(w_list(w_family)(sc.get("wire_fams", sc["fams"])))
    return ["E text -1 - " + fams, "E string -1 - " + fams]


ERES = re.compile(r"^(EOk \[[\d;]*\]|EErr \w+ \[[\d;]*\]|EPanic)$")


def shards(n):
    nsh = min(NPROC, max(1, (n + 23) // 24))
    per = (n + nsh - 1) // nsh if n else 1
    return [(k, k * per, min(n, (k + 1) * per)) for k in range(nsh) if k * per < min(n, (k + 1) * per)]


def run_coq(files, nanswers):
    procs = [subprocess.Popen(["timeout", "900", "coqc", "-noglob", "-Q", COQ, "PV", p], stdout=subprocess.PIPE, stderr=subprocess.STDOUT, text=True)
             for p in files]
    res = [[] for _ in range(nanswers)]
    errors = []
    for p, path in zip(procs, files):
        out = p.communicate()[0]
        if p.returncode != 0:
            errors.append((path, out[-3000:])); continue
        ls = parse_nlist(out)
        if len(ls) != nanswers:
            errors.append((path, "expected %d answers\n%s" % (nanswers, out[-2000:]))); continue
        for i in range(nanswers): res[i] += ls[i]
    return [sorted(x) for x in res], errors


class C16:
    pid = "C16"
    rule = ("S: each scenario builds 1-8 collectors (counters, gauges, histograms, pulling gauges, vectors with 0-4 children) in 1-3 "
            "same-name families, updates them, registers them in different orders on 2-3 fresh registries with the same prefix and 0-4 "
            "common labels and gathers 1-3 rounds (C07's generator), or registers 1-2 custom collectors that hand out literal families "
            "(unset payloads, timestamps absent/0/+/-, repeated family names) and collects + gathers; E: lists of 0-3 literal families of "
            "all five types with adversarial label values / help texts / floats / counts / timestamps and Err shapes (C04's generator) "
            "through TextEncoder::encode and encode_to_string; G: the families gather() returned in the S scenarios through the same two "
            "entry points. Every scenario runs on BOTH builds. non-trivial = S: at least two gathers and two samples, E/G: at least one "
            "sample line; distinct = distinct scenario text")
    assumptions = [
        "rust-protobuf's runtime (MessageField deref to the default instance, EnumOrUnknown) and the checked-in generated proto_model.rs "
        "are modelled through their accessor behaviour (Model/DataModel.v instance pb, transcribed from the source), not verified",
        "the structure returned by gather() is compared through the accessors that exist in both configurations (all getters, recursively); "
        "field presence (has_*, the public Option fields) exists only in the protobuf build and is outside the property",
        "f64::to_string / i64::to_string (Rust std) are oracles shared by both builds; their tables come from the protobuf build's binary",
        "collectors of different kinds under one name (C14's known finding) make gather depend on the HashMap order of the collectors "
        "in EITHER build; the generator does not produce them",
        "HashMap iteration orders are exercised through fresh maps per registry / vector and per process, not controlled",
    ]

    # -------------------------------------------------------------------------------- running + comparing
    def eval_seq(self, bins, scs, tag):
        lines = [scen_wire(s) for s in scs]
        o_pb = run_harness(bins[0], lines)
        o_pl = run_harness(bins[1], lines)
        missing = [i for i in range(len(scs)) if o_pb[i] is None or o_pl[i] is None]
        d = os.path.join(BUILD, "cases", tag)
        shutil.rmtree(d, ignore_errors=True); os.makedirs(d)
        files = []
        for k, lo, hi in shards(len(scs)):
            path = os.path.join(d, "seq_%d.v" % k)
            with open(path, "w") as f:
                f.write(COQ_HDR_C16)
                f.write("Definition cases : list c16_seq_case := [\n")
                f.write(";\n".join("(%s,\n  (%s,\n   %s))" % (scen_coq(scs[i]), o_pb[i] or "[OHung]", o_pl[i] or "[OHung]") for i in range(lo, hi)))
                f.write("].\n")
                f.write("Eval vm_compute in failing model_seq_both %d cases.\n" % lo)
                f.write("Eval vm_compute in failing spec_c16_seq %d cases.\n" % lo)
            files.append(path)
        (corr, spec), errors = run_coq(files, 2)
        return dict(lines=lines, pb=o_pb, pl=o_pl, missing=missing, corr=corr, spec=spec, errors=errors)

    def eval_enc(self, bins, scs, tag):
        lines = []
        for sc in scs: lines += e2_lines(sc)
        fl, zs, per = set(), set(), []
        for sc in scs:
            a, b = p_C04.scenario_numbers(sc)
            per.append((a, b)); fl |= a; zs |= b
        fl = sorted(fl); zs = sorted(zs)
        nl = []
        for i in range(0, len(fl), 200):
            ch = fl[i:i + 200]; nl.append("F %d %s" % (len(ch), " ".join("%016x" % b for b in ch)))
        nfl = len(nl)
        for i in range(0, len(zs), 200):
            ch = zs[i:i + 200]; nl.append("I %d %s" % (len(ch), " ".join(str(z) for z in ch)))
        o_pb = run_harness(bins[0], lines + nl)
        o_pl = run_harness(bins[1], lines)
        ftab, ztab = {}, {}
        for o in o_pb[len(lines):len(lines) + nfl]:
            for k, v in p_C04.parse_table(o): ftab[int(k)] = v
        for o in o_pb[len(lines) + nfl:]:
            for k, v in p_C04.parse_table(o): ztab[p_C04.key_int(k)] = v
        e_pb, e_pl = o_pb[:len(lines)], o_pl
        missing, pydiff = [], []
        for i in range(len(scs)):
            for j in range(2):
                for e in (e_pb, e_pl):
                    if e[2 * i + j] is None or not ERES.match(e[2 * i + j]):
                        e[2 * i + j] = "EPanic"
                        if i not in missing: missing.append(i)
            if e_pb[2 * i:2 * i + 2] != e_pl[2 * i:2 * i + 2]: pydiff.append(i)      # the byte-for-byte comparison
        d = os.path.join(BUILD, "cases", tag)
        shutil.rmtree(d, ignore_errors=True); os.makedirs(d)
        files = []
        canon = p_C04.canon
        for k, lo, hi in shards(len(scs)):
            sf, sz = set(), set()
            for i in range(lo, hi):
                sf |= per[i][0]; sz |= per[i][1]
            path = os.path.join(d, "enc_%d.v" % k)
            with open(path, "w") as f:
                f.write(COQ_HDR_C16)
                f.write("Definition ftab : list (N * str) := [%s].\n" % ";\n".join(
                    "(%d,%s)" % (b, ftab[b]) for b in sorted(set(canon(x) for x in sf)) if b in ftab))
                f.write("Definition ztab : list (Z * str) := [%s].\n" % ";\n".join("(%s,%s)" % (c_z(z), ztab[z]) for z in sorted(sz) if z in ztab))
                f.write("Definition show := tab_show ftab.\nDefinition showz := tab_showz ztab.\n")
                f.write("Definition cases : list c16_enc_case := [\n")
                f.write(";\n".join("mkEnc %s\n  (%s) (%s)\n  (%s) (%s)" % (
                    c_list(c_family)(scs[i]["fams"]), e_pb[2 * i], e_pb[2 * i + 1], e_pl[2 * i], e_pl[2 * i + 1]) for i in range(lo, hi)))
                f.write("].\n")
                f.write("Eval vm_compute in failing (model_enc_pb show showz) %d cases.\n" % lo)
                f.write("Eval vm_compute in failing (model_enc_plain show showz) %d cases.\n" % lo)
                f.write("Eval vm_compute in failing spec_c16_enc %d cases.\n" % lo)
            files.append(path)
        (c_pb, c_pl, spec), errors = run_coq(files, 3)
        spec = sorted(set(spec) | set(pydiff))
        return dict(pb=e_pb, pl=e_pl, missing=sorted(missing), corr=sorted(set(c_pb) | set(c_pl)), corr_pb=c_pb, corr_pl=c_pl,
                    spec=spec, errors=errors, ntok=len(ftab) + len(ztab))

    def explain_seq(self, ops, o_pb, o_pl):
        d = os.path.join(BUILD, "cases", "C16"); os.makedirs(d, exist_ok=True)
        path = os.path.join(d, "explain.v")
        with open(path, "w") as f:
            f.write(COQ_HDR_C16)
            f.write("Definition sc : list op := %s.\nDefinition pb_o : list obs := %s.\nDefinition pl_o : list obs := %s.\n" % (
                scen_coq(ops), o_pb or "[OHung]", o_pl or "[OHung]"))
            f.write("Eval vm_compute in (first_diff 0 (map getters_obs pb_o) (map getters_obs pl_o), first_diff 0 (run world0 sc) pb_o, "
                    "first_diff 0 (map getters_obs (run world0 sc)) (map getters_obs pl_o)).\n")
            f.write("Eval vm_compute in match first_diff 0 (map getters_obs pb_o) (map getters_obs pl_o) with "
                    "Some i => (nth_error (map getters_obs pb_o) (N.to_nat i), nth_error pl_o (N.to_nat i)) | None => (None, None) end.\n")
        rc, out = coqc_file(path)
        ans = re.split(r"\n\s*=\s", "\n" + out)
        where = ans[1][:300] if len(ans) > 1 else out[:300]
        what = ans[2][:3000] if len(ans) > 2 else ""
        return ("first differing observation (two builds, model vs protobuf build, model vs plain build): %s\n"
                "the two builds' observations there (protobuf build through the getters normal form, plain build): %s" % (where, what))

    # -------------------------------------------------------------------------------- one round
    def round(self, bins, seq_scs, enc_scs, tag, ngather):
        rs = self.eval_seq(bins, seq_scs, tag + "_seq")
        g_scs, g_src = [], []
        for i, o in enumerate(rs["pb"]):
            if len(g_scs) >= ngather: break
            fams = gathered_of(o)
            if fams: g_scs.append(dict(fams=fams, pt="", pu="")); g_src.append(i)
        re_ = self.eval_enc(bins, enc_scs + g_scs, tag + "_enc")
        return rs, re_, g_scs, g_src

    def nontrivial_seq(self, o): return bool(o) and o.count("OFams") >= 2 and o.count("(mkMetric") >= 2
    def nontrivial_enc(self, o):
        k, b = p_C04.decode_eres(o)
        return any(l and not l.startswith(b"#") for l in b.split(b"\n"))

    # -------------------------------------------------------------------------------- the check
    def run(self, tier, seed, replay=None):
        t0 = time.time()
        pid = self.pid
        print("[%s] tier=%s seed=%d" % (pid, tier, seed))
        proof = check_props(pid, ["Spec/SpecC04.vo", "Spec/SpecC16.vo"])
        print("[%s] proofs: make_ok=%s theorems=%d axioms=%s bad=%s forbidden=%d" % (
            pid, proof["make_ok"], proof["obligations"], proof["axioms"], proof["bad_axioms"], len(proof["forbidden"])))
        if not proof["make_ok"]:
            print(proof["log"][-2500:])
        bins = []
        for dflt, what in ((True, "default features (protobuf data model)"), (False, "--no-default-features (plain data model)")):
            ok_h, out_h, binp = harness_build(features_default=dflt)
            if not ok_h:
                print(out_h[-3000:])
                print("[%s] ERROR: the harness does not build against the repository's working tree with %s" % (pid, what))
                write_evidence(pid, tier, seed, dict(obligations=proof["obligations"], discharged=0, checker_cmd="make Props/%s.vo" % pid,
                                                     trusted_base=TRUSTED, evaluations=0, distinct_nontrivial=0, rule=self.rule, samples=[],
                                                     explanation="harness build failed: " + what), self.assumptions, time.time() - t0, 1)
                return harness_broken(pid, tier, seed, out_h)
            bins.append(binp)
        if not os.path.exists(os.path.join(COQ, "Spec", "SpecC16.vo")):
            print("[%s] ERROR: Spec/SpecC16.vo was not built" % pid)
            print(proof["log"][-2500:])
            return 2
        r = random.Random(seed)
        if replay:
            rp = json.load(open(replay))
            seq_scs = [de_json(rp["scenario_ops"])] if rp.get("scenario_ops") else []
            enc_scs = [de_json([rp["scenario"]])[0]] if rp.get("scenario") else []
            ngather = 1
        else:
            seq_scs = gen_seq(r, tier)
            enc_scs = gen_enc(r, tier)
            ngather = 80 if tier == "quick" else 1500
        rs, re_, g_scs, g_src = self.round(bins, seq_scs, enc_scs, "C16", ngather)
        all_enc = enc_scs + g_scs
        for ev in (rs, re_):
            for p, e in ev["errors"][:2]: print("COQ ERROR in", p, e[-1500:])
        errors = rs["errors"] + re_["errors"]

        nontriv = set()
        for s, o in zip(rs["lines"], rs["pb"]):
            if self.nontrivial_seq(o): nontriv.add(hashlib.sha1(s.encode()).hexdigest())
        for i, sc in enumerate(all_enc):
            if self.nontrivial_enc(re_["pb"][2 * i]):
                nontriv.add(hashlib.sha1(json.dumps(to_json([sc]), sort_keys=True).encode()).hexdigest())

        def dump_seq(i, kind, broken):
            payload = dict(property=pid, tier=tier, seed=seed, kind=kind, family="S", scenario_index=i, scenario_ops=to_json(seq_scs[i]),
                           scenario_wire=rs["lines"][i], impl_obs_protobuf_build=rs["pb"][i], impl_obs_plain_build=rs["pl"][i],
                           model_vs_impl=self.explain_seq(seq_scs[i], rs["pb"][i], rs["pl"][i]), broken=broken,
                           explanation="replay with: python3 tools/check.py %s --replay <this file>" % pid)
            return write_replay(pid, seed, i, payload)

        def dump_enc(i, kind, broken):
            txt = lambda o: [p_C04.decode_eres(o)[0], p_C04.decode_eres(o)[1].decode("utf-8", "backslashreplace")]
            payload = dict(property=pid, tier=tier, seed=seed, kind=kind, family="E" if i < len(enc_scs) else "G", scenario_index=i,
                           scenario=to_json([all_enc[i]])[0], scenario_wire=e2_lines(all_enc[i]),
                           gathered_in_seq_scenario=None if i < len(enc_scs) else g_src[i - len(enc_scs)],
                           impl_obs_protobuf_build=[txt(o) for o in re_["pb"][2 * i:2 * i + 2]],
                           impl_obs_plain_build=[txt(o) for o in re_["pl"][2 * i:2 * i + 2]], broken=broken,
                           explanation="replay with: python3 tools/check.py %s --replay <this file>" % pid)
            return write_replay(pid, seed, 100000 + i, payload)

        rc = 0
        proof_broken = not proof["ok"]
        missing = bool(rs["missing"] or re_["missing"])
        if rs["spec"]:
            p = dump_seq(rs["spec"][0], "failing-input", "the two builds return different structures / observations for the same API calls (spec_c16_seq false)")
            print("VIOLATION property=%s replay=%s" % (pid, p)); rc = 1
        elif re_["spec"]:
            p = dump_enc(re_["spec"][0], "failing-input", "TextEncoder produces different bytes / results in the two builds for the same families (spec_c16_enc false)")
            print("VIOLATION property=%s replay=%s" % (pid, p)); rc = 1
        elif rs["corr"] or re_["corr"] or proof_broken or missing:
            found = None if replay else self.search(bins, seed, tier)
            if found:
                p = write_replay(pid, seed, 0, found)
                print("VIOLATION property=%s replay=%s" % (pid, p)); rc = 1
            else:
                if rs["corr"]:
                    p = dump_seq(rs["corr"][0], "no-failing-input-found", "correspondence: the world model (World.run) differs from one of the builds on this scenario")
                elif re_["corr"]:
                    p = dump_enc(re_["corr"][0], "no-failing-input-found", "correspondence: Model/Text.v encode differs from one of the builds (pb: %s, plain: %s)" % (
                        re_["corr"][0] in re_["corr_pb"], re_["corr"][0] in re_["corr_pl"]))
                elif rs["missing"]:
                    p = dump_seq(rs["missing"][0], "no-failing-input-found", "one of the builds produced no observation for this scenario (crash / hang)")
                elif re_["missing"]:
                    p = dump_enc(re_["missing"][0], "no-failing-input-found", "one of the builds produced no answer for this scenario (crash / hang / panic)")
                else:
                    p = write_replay(pid, seed, 0, dict(property=pid, tier=tier, seed=seed, kind="no-failing-input-found",
                                                        broken="proof obligation no longer checks: %s; bad axioms %s; forbidden %s" % (
                                                            proof.get("failed_at"), proof["bad_axioms"], proof["forbidden"][:3])))
                print("VIOLATION property=%s replay=%s no-failing-input-found" % (pid, p)); rc = 1
        if errors and rc == 0:
            print("[%s] ERROR: Coq could not evaluate some case files" % pid)
            rc = 2
        nscen = len(seq_scs) + len(all_enc)
        dist = collections.Counter()
        for s in seq_scs:
            for o in s: dist[o[0]] += 1
        for sc in all_enc:
            for f in sc["fams"]:
                dist["family type " + f["type"]] += 1
                for m in f["metrics"]:
                    dist["metrics"] += 1
                    dist["ts absent" if m["ts"] is None else "ts zero" if m["ts"] == 0 else "ts non-zero"] += 1
                    if all(m[k] is None for k in ("gauge", "counter", "summary", "untyped", "hist")): dist["metric without payload"] += 1
        cov = dict(obligations=proof["obligations"], discharged=proof["discharged"],
                   checker_cmd="make -C coq Props/%s.vo Spec/SpecC16.vo (coqc 8.16.1, full .vo) + Print Assumptions allowlist + forbidden-word scan" % pid,
                   trusted_base=TRUSTED + ["axioms used: %s" % (", ".join(proof["axioms"]) or "none (closed under the global context)")],
                   theorems=proof["theorems"], evaluations=2 * len(seq_scs) + 4 * len(all_enc), scenarios=nscen,
                   scenarios_by_family=dict(S=len(seq_scs), E=len(enc_scs), G=len(g_scs)), builds=["default features", "--no-default-features"],
                   distinct_nontrivial=len(nontriv), rule=self.rule,
                   samples=[rs["lines"][i][:400] + " => pb " + (rs["pb"][i] or "")[:300] + " || plain " + (rs["pl"][i] or "")[:300]
                            for i in range(min(2, len(seq_scs)))]
                           + [e2_lines(all_enc[i])[0][:400] + " => pb " + re_["pb"][2 * i][:300] + " || plain " + re_["pl"][2 * i][:300]
                              for i in range(min(1, len(all_enc)))],
                   traces_validated_against_impl=nscen - len(rs["corr"]) - len(re_["corr"]) - len(rs["missing"]) - len(re_["missing"]),
                   correspondence_mismatches=len(rs["corr"]) + len(re_["corr"]), spec_failures=len(rs["spec"]) + len(re_["spec"]),
                   build_vs_build_differences=len(rs["spec"]) + len(re_["spec"]), number_tokens_checked=re_["ntok"], known_finding_cases=0,
                   input_distribution=dict(dist), exhaustive=False)
        write_evidence(pid, tier, seed, cov, self.assumptions, time.time() - t0, 1 if rc == 1 else 0)
        print("[%s] scenarios=%d (S=%d E=%d G=%d, each on 2 builds) nontrivial=%d mismatches=%d build_differences=%d wall=%.1fs rc=%d" % (
            pid, nscen, len(seq_scs), len(enc_scs), len(g_scs), len(nontriv), len(rs["corr"]) + len(re_["corr"]),
            len(rs["spec"]) + len(re_["spec"]), time.time() - t0, rc))
        return rc

    def search(self, bins, seed, tier, budget_s=60):
        """looks for a scenario on which the two builds differ"""
        t0 = time.time()
        k = 0
        while time.time() - t0 < budget_s:
            k += 1
            r = random.Random(seed * 1000 + k)
            seq_scs = gen_seq(r, "quick"); enc_scs = gen_enc(r, "quick")
            rs, re_, g_scs, g_src = self.round(bins, seq_scs, enc_scs, "C16_search", 80)
            if rs["spec"]:
                i = rs["spec"][0]
                return dict(property=self.pid, tier=tier, seed=seed, kind="failing-input", family="S", scenario_ops=to_json(seq_scs[i]),
                            scenario_wire=rs["lines"][i], impl_obs_protobuf_build=rs["pb"][i], impl_obs_plain_build=rs["pl"][i],
                            broken="the two builds differ (spec_c16_seq false; found by widened search, round %d)" % k)
            if re_["spec"]:
                i = re_["spec"][0]
                sc = (enc_scs + g_scs)[i]
                return dict(property=self.pid, tier=tier, seed=seed, kind="failing-input", family="E", scenario=to_json([sc])[0],
                            scenario_wire=e2_lines(sc), impl_obs_protobuf_build=re_["pb"][2 * i:2 * i + 2],
                            impl_obs_plain_build=re_["pl"][2 * i:2 * i + 2],
                            broken="the two builds differ (spec_c16_enc false; found by widened search, round %d)" % k)
        return None
