"""C12  Local (unsync) metrics hand over exactly what they accumulated."""
from props import *


LABEL_VALUES = ["a", "b", "ab", "", "x y", "é"]
F_AMOUNTS = [1.0, 0.5, 0.1, 0.2, 3.25, 0.0, 1e300, 2.0 ** 53, 1e-310]


def f_amount(r):
    k = r.random()
    if k < 0.7: return ("VF", f64(r.choice(F_AMOUNTS)))
    if k < 0.85: return ("VF", f64(2.0 ** r.randint(-3, 20)))
    return ("VF", f64(r.random() * 10 ** r.randint(-3, 3)))


def u_amount(r, shared):
    if shared and r.random() < 0.15:
        return ("VU", r.choice([2 ** 63, 2 ** 64 - 1, 2 ** 64 - 2]))          # the shared counter wraps, a local one must not
    return ("VU", r.choice([0, 1, 2, 7, 2 ** r.randint(0, 40), r.randint(0, 1000)]))


def obs_value(r, bounds):
    k = r.random()
    if bounds and k < 0.3: return r.choice(bounds)
    if bounds and k < 0.45: return gens.nextafter_bits(r.choice(bounds), r.random() < 0.5)
    if k < 0.55: return r.choice([NAN, PINF, NINF, NZERO, f64(0.0), f64(5e-324)])
    return gens.some_float(r)


class Scen:
    """one history over ONE shared metric and/or ONE vector, several local handles, clones, drops; every slot's kind is tracked"""

    def __init__(self, r):
        self.r = r
        self.s = Slots()
        self.kind = {}           # slot -> kind string
        self.bounds = []
        self.flavour = None
        self.tuples = []
        self.vec = None
        self.metric = None

    def new(self, kind, *op):
        i = self.s.emit(*op)
        self.kind[i] = kind
        return i

    def of(self, *kinds):
        return [i for i, k in self.kind.items() if k in kinds]

    def pick(self, *kinds):
        c = self.of(*kinds)
        return self.r.choice(c) if c else None

    # ---- set-up
    def setup(self):
        r = self.r
        self.flavour = r.choice(["F", "U", "H", "F", "H"])
        name = r.choice(["m", "req_total", "lat", "a:b"])
        consts = [("c", "1")] if r.random() < 0.15 else []
        has_plain = r.random() < 0.75
        has_vec = (not has_plain) or r.random() < 0.6
        if self.flavour == "H":
            self.bounds = gens.good_buckets(r) if r.random() < 0.92 else [gens.PINF]      # [+Inf] alone: no finite bound at all
        if has_plain:
            o = mkopts(name, "help", consts=consts)
            if self.flavour == "H":
                self.metric = self.new("H", "OpHistogram", dict(opts=o, buckets=self.bounds))
            else:
                self.metric = self.new("C", "OpCounter", "N" + self.flavour, o)
        if has_vec:
            labels = r.choice([["l"], ["l"], ["a", "b"]])
            o = mkopts(name + "_v", "help", consts=consts)
            if self.flavour == "H":
                self.vec = self.new("V", "OpHistVec", dict(opts=o, buckets=self.bounds), labels)
            else:
                self.vec = self.new("V", "OpCounterVec", "N" + self.flavour, o, labels)
            n = r.randint(2, 3)
            seen = set()
            while len(self.tuples) < n:
                t = tuple(r.choice(LABEL_VALUES) for _ in labels)
                if t not in seen:
                    seen.add(t); self.tuples.append(list(t))
        # 1-3 locals
        for _ in range(r.randint(1, 3)):
            self.new_local()

    def new_local(self, want=None):
        r = self.r
        srcs = self.of(*want) if want else self.of("C", "H", "V")
        if not srcs: return
        src = r.choice(srcs)
        k = self.kind[src]
        self.new({"C": "LC", "H": "LH", "V": "LV"}[k], "OpLocal", src)

    def amount(self, shared):
        return f_amount(self.r) if self.flavour == "F" else u_amount(self.r, shared)

    def tuple(self):
        r = self.r
        t = list(r.choice(self.tuples))
        if r.random() < 0.03: t = t + ["z"]          # wrong cardinality (malformed stream)
        return t

    # ---- observing
    def observe_state(self, p=0.8):
        r = self.r; s = self.s
        if r.random() > p: return
        for _ in range(r.choice([1, 1, 2])):
            k = r.random()
            if k < 0.5:
                t = self.pick("C", "H")
                if t is None: continue
                if self.kind[t] == "C": s.emit("OpGet", t)
                else:
                    s.emit("OpSampleCount", t)
                    if r.random() < 0.7: s.emit("OpSampleSum", t)
            elif k < 0.75:
                t = self.pick("LC", "LH")
                if t is None: continue
                if self.kind[t] == "LC": s.emit("OpGet", t)
                else: s.emit(r.choice(["OpSampleCount", "OpSampleSum"]), t)
            else:
                t = self.pick("C", "H", "V")
                if t is not None: s.emit("OpCollect", t)

    # ---- one mutating step
    def step(self):
        r = self.r; s = self.s
        k = r.random()
        if k < 0.30 and self.metric is None: k = 0.4             # only a vector: update through the local vector instead
        if 0.30 <= k < 0.48 and self.vec is None: k = 0.1        # only a plain metric
        if k < 0.30:                                             # update through a plain local
            t = self.pick("LC", "LH")
            if t is None: return self.new_local(("C", "H"))
            if self.kind[t] == "LC":
                if r.random() < 0.4: s.emit("OpInc", t)
                else: s.emit("OpIncBy", t, self.amount(False))
            else:
                s.emit("OpObserve", t, obs_value(r, self.bounds))
        elif k < 0.48:                                           # update through a local vector
            t = self.pick("LV")
            if t is None: return self.new_local(("V",))
            if self.flavour == "H": s.emit("OpLvObserve", t, self.tuple(), obs_value(r, self.bounds))
            else: s.emit("OpLvInc", t, self.tuple(), self.amount(False))
        elif k < 0.60:
            t = self.pick("LC", "LH", "LV")
            if t is not None:
                s.emit("OpFlush", t)
                if r.random() < 0.25:
                    self.observe_state(0.6); s.emit("OpFlush", t)       # the second flush
        elif k < 0.66:
            t = self.pick("LC", "LH")
            if t is not None: s.emit("OpClear", t)
        elif k < 0.72:
            t = self.pick("LC", "LH", "LV")
            if t is not None: self.new(self.kind[t], "OpClone", t)
        elif k < 0.78:
            t = self.pick("LC", "LH", "LV")
            if t is not None:
                s.emit("OpDrop", t); self.kind[t] = "dead"
        elif k < 0.86:                                           # direct updates of the shared metric
            t = self.pick("C", "H")
            if t is None: return
            if self.kind[t] == "C":
                kk = r.random()
                if kk < 0.35: s.emit("OpInc", t)
                elif kk < 0.85: s.emit("OpIncBy", t, self.amount(True))
                else: s.emit("OpReset", t)
            else:
                s.emit("OpObserve", t, obs_value(r, self.bounds))
        elif k < 0.91:                                           # a handle on a child (so that it can be read)
            if self.vec is not None:
                self.new("H" if self.flavour == "H" else "C", "OpWith", self.vec, list(r.choice(self.tuples)))
        elif k < 0.95:
            t = self.pick("LV")
            if t is not None: s.emit("OpLvRemove", t, self.tuple())
        elif k < 0.965:
            if self.vec is not None: s.emit("OpRemove", self.vec, list(r.choice(self.tuples)))
        elif k < 0.975:
            if self.vec is not None: s.emit("OpReset", self.vec)
        elif k < 0.99:
            self.new_local()
        else:                                                    # an operation on a dropped handle: refused
            t = self.pick("dead")
            if t is not None: s.emit(r.choice(["OpFlush", "OpGet", "OpDrop", "OpClear", "OpSampleCount"]), t)

    def run(self, n):
        self.setup()
        self.observe_state(0.5)
        for _ in range(n):
            self.step()
            self.observe_state()
        # final reads of everything shared
        for t in self.of("C"): self.s.emit("OpGet", t)
        for t in self.of("H"):
            self.s.emit("OpSampleCount", t); self.s.emit("OpSampleSum", t)
        for t in self.of("V"): self.s.emit("OpCollect", t)
        if self.metric is not None and self.r.random() < 0.5: self.s.emit("OpCollect", self.metric)
        return self.s.ops


class C12(SeqProp):
    pid = "C12"
    spec_import = "Require Import PV.Spec.SpecC12.\nRequire PV.Proofs.C12Spec."
    dom_fn = "PV.Proofs.C12Spec.ops_in_domain"     # the domain of c12_spec_model / c18_spec_model
    spec_fn = "spec_c12"
    rule = ("each scenario is a history over one shared counter (f64 or u64) or histogram and/or one vector of it with 2-3 children, 1-3 local "
            "handles plus clones (local counters / histograms and local vectors), 5-40 mutating operations (local updates, flush, second flush, "
            "reset/clear, clone, drop at arbitrary points, direct updates and reset of the shared metric, remove_label_values through the local "
            "vector, removal / reset of the vector, operations on dropped handles) with reads of shared and local values interleaved after "
            "almost every operation (get, sample count / sum, collect); non-trivial = a local that had been updated was flushed, dropped or "
            "removed; distinct = distinct scenario text")
    assumptions = ["one thread (local metrics are !Sync); the shared side under concurrency is C01/C03",
                   "increments are non-negative numbers and a local u64 counter does not overflow (both are debug assertions / overflow panics in the code)",
                   "fewer than 2^63 observations per histogram",
                   "children of a vector are identified by their label-value tuple: the generated tuples do not collide under the 64-bit label hash (C05)",
                   "NaN payloads are canonicalised on both sides (Coq has one NaN)"]

    def gen(self, r, tier):
        n = 1000 if tier == "quick" else 9000
        out = []
        for _ in range(n):
            out.append(Scen(r).run(r.randint(5, 40)))
        return out

    def nontrivial(self, ops, o):
        upd = False
        for op in ops:
            if op[0] in ("OpLvInc", "OpLvObserve"): upd = True
            if op[0] in ("OpFlush", "OpDrop", "OpLvRemove") and upd: return True
            if op[0] in ("OpInc", "OpIncBy", "OpObserve"): upd = True
        return False
