#!/usr/bin/env python3
"""Entry point of every registered check:  tools/check.py Cxx [--tier quick|thorough] [--replay file]

1. regenerate source facts from /repo, re-check the property's theorems (full .vo build,
   Print Assumptions against the allowlist, forbidden-word scan);
2. rebuild the Rust harness against /repo's working tree (hooks on);
3. generate scenarios (seed = VERIF_SEED), run them on the implementation, evaluate the model
   on the same scenarios inside Coq and compare; evaluate the property's executable spec on
   the implementation's own observations;
4. verdict (DESIGN.md section 6), evidence file, exit code."""
import argparse, importlib, os, random, sys, time, json, traceback
sys.path.insert(0, os.path.dirname(os.path.abspath(__file__)))
from pvlib import *
import props


def main():
    ap = argparse.ArgumentParser()
    ap.add_argument("prop")
    ap.add_argument("--tier", default=os.environ.get("VERIF_TIER", "quick"))
    ap.add_argument("--replay")
    a = ap.parse_args()
    tier = a.tier if a.tier in ("quick", "thorough") else "quick"
    raw = os.environ.get("VERIF_SEED", "1") or "1"
    try:
        seed = int(raw)
    except ValueError:          # any string is a valid seed
        import zlib
        seed = zlib.crc32(raw.encode())
    prop = a.prop
    t0 = time.time()
    P = props.get(prop)
    rc = P.run(tier, seed, a.replay)
    sys.exit(rc)


if __name__ == "__main__":
    main()
