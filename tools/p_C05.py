"""C05  A metric vector keeps exactly one child per distinct label-value tuple.

One scenario = one vector (counter / gauge / histogram, 1-4 declared label names in any order, 0-2
constant labels), a sequence of requests (positional, map form in random key order, malformed) over
a pool of label-value tuples made of ALL ways to cut a few short strings into as many pieces as the
vector has labels (so tuples that differ only in where one value ends and the next begins abound),
where request number i is followed by an update of 2^i through the handle it returned, reads through
earlier handles, collects, a local vector working on the same tuples, removals followed by new
requests, and at the end a read through every handle and a collect."""
from props import *
import itertools

COL_A = "indbfqeysbnpsf"
COL_B = "ivltldgmoctybd"

# strings to cut: ASCII, empty, multi-byte (2, 3, 4 byte encodings), NUL, DEL, the largest scalar values,
# U+00FF (its UTF-8 encoding is the closest a value gets to the separator byte)
BASES = ["abc", "ab", "a", "", "aé", "éa", "a\u0000b", "\u0000", "\u007fa", "ÿÿ", "a😀", "\uffff\U0010ffff", "aab", "aaa",
         "1.0", "a,b", "a\"b", "a=b", " a", "\n", "\\n"]
NAME_POOL = ["a", "b", "c", "l", "m", "z", "A", "_x", "le2", "a1", "Z", "ab"]
CONST_POOL = ["k", "aa", "zz", "B", "_", "l0"]
ATOMS = ["", "a", "b", "ab", "1", "é", "\u0000", "x y", COL_A, COL_B]

KINDS = ["CF", "CU", "GF", "GI", "H"]
MAXPOW = {"CF": 50, "CU": 60, "GF": 50, "GI": 60, "H": 50}


def cuts(s, k):
    """all ways to cut s into k consecutive (possibly empty) pieces"""
    n = len(s)
    out = []
    for pos in itertools.combinations_with_replacement(range(n + 1), k - 1):
        b = (0,) + pos + (n,)
        out.append([s[b[i]:b[i + 1]] for i in range(k)])
    return out


def pw(kind, i):
    """the update that marks request number i"""
    if kind in ("CF", "GF"): return ("VF", f64(float(2 ** i)))
    if kind == "CU": return ("VU", 2 ** i)
    return ("VI", 2 ** i)


class Scen:
    def __init__(self, r, kind, names, consts=(), buckets=None):
        self.r = r; self.kind = kind; self.names = list(names)
        self.s = Slots()
        self.i = 0                      # number of updates handed out so far (exponent of the next one)
        self.handles = []               # slots of successful requests
        self.used = []                  # tuples requested successfully
        o = mkopts("m", "h", consts=list(consts))
        if kind in ("CF", "CU"): self.vec = self.s.emit("OpCounterVec", "N" + kind[1], o, self.names)
        elif kind in ("GF", "GI"): self.vec = self.s.emit("OpGaugeVec", "N" + kind[1], o, self.names)
        else:
            bs = buckets if buckets is not None else [f64(1.0), f64(4.0), f64(1024.0), f64(2.0 ** 40)]
            self.vec = self.s.emit("OpHistVec", dict(opts=o, buckets=bs), self.names)
        self.local = None

    def room(self):
        return self.i < MAXPOW[self.kind]

    def mark(self, slot):
        """update 2^i through a handle"""
        if self.kind == "H": self.s.emit("OpObserve", slot, f64(float(2 ** self.i)))
        elif self.kind in ("CF", "CU"): self.s.emit("OpIncBy", slot, pw(self.kind, self.i))
        else: self.s.emit("OpAdd", slot, pw(self.kind, self.i))
        self.i += 1

    def read(self, slot):
        if self.kind == "H":
            self.s.emit("OpSampleCount", slot); self.s.emit("OpSampleSum", slot)
        else:
            self.s.emit("OpGet", slot)

    def collect(self):
        self.s.emit("OpCollect", self.vec)

    def kvs(self, t):
        kv = list(zip(self.names, t)); self.r.shuffle(kv); return kv

    def request(self, t, form="pos", mark=True):
        """a well-formed request; returns the handle's slot"""
        if form == "pos": h = self.s.emit("OpWith", self.vec, list(t))
        else:
            kv = self.kvs(t)
            if form == "dup" and kv:
                # an overridden entry: HashMap::insert keeps the last value
                j = self.r.randrange(len(kv))
                kv.insert(self.r.randint(0, j), (kv[j][0], self.r.choice(ATOMS)))
            h = self.s.emit("OpWithMap", self.vec, kv)
        self.handles.append(h); self.used.append(list(t))
        self.read(h)                    # a fresh child starts from zero, an old one shows what was booked
        if mark and self.room(): self.mark(h)
        return h

    def bad_request(self, t):
        """a malformed request: must return Err and create nothing (the collect right after shows the children)"""
        r = self.r; k = r.random(); t = list(t); n = len(self.names)
        if k < 0.2: self.s.emit("OpWith", self.vec, t[:-1])
        elif k < 0.4: self.s.emit("OpWith", self.vec, t + [r.choice(ATOMS)])
        elif k < 0.45: self.s.emit("OpWith", self.vec, [])
        elif k < 0.6:                                        # a key that is not a declared name
            kv = self.kvs(t); j = r.randrange(n)
            other = r.choice([x for x in NAME_POOL + [kv[j][0] + "x", kv[j][0].upper() + "_"] if x not in self.names])
            kv[j] = (other, kv[j][1]); self.s.emit("OpWithMap", self.vec, kv)
        elif k < 0.75:                                       # a missing entry
            kv = self.kvs(t); kv.pop(r.randrange(n)); self.s.emit("OpWithMap", self.vec, kv)
        elif k < 0.9:                                        # an extra entry
            kv = self.kvs(t); kv.insert(r.randint(0, n), (r.choice([x for x in NAME_POOL if x not in self.names]), r.choice(ATOMS)))
            self.s.emit("OpWithMap", self.vec, kv)
        else:                                                # right length as a list, but a repeated key: too few entries
            kv = self.kvs(t)
            kv[0] = (kv[1][0], kv[0][1]) if n >= 2 else (kv[0][0] + "_", kv[0][1])
            self.s.emit("OpWithMap", self.vec, kv)
        if r.random() < 0.7: self.collect()

    def ensure_local(self):
        if self.local is None and self.kind in ("CF", "CU", "H"):
            self.local = self.s.emit("OpLocal", self.vec)
        return self.local

    def local_update(self, t):
        l = self.ensure_local()
        if l is None or not self.room(): return
        if self.kind == "H": self.s.emit("OpLvObserve", l, list(t), f64(float(2 ** self.i)))
        else: self.s.emit("OpLvInc", l, list(t), pw(self.kind, self.i))
        self.i += 1

    def finish(self):
        if self.local is not None: self.s.emit("OpFlush", self.local)
        for h in self.handles: self.read(h)
        self.collect()
        return self.s.ops


def pool_for(r, k, nbases=2):
    """tuples of k values: every cut of a few base strings, plus a few unrelated ones"""
    bases = r.sample(BASES, nbases)
    ts = []
    for b in bases:
        for c in cuts(b, k):
            if c not in ts: ts.append(c)
    for _ in range(2):
        t = [r.choice(ATOMS) for _ in range(k)]
        if t not in ts: ts.append(t)
    return ts


def some_names(r, k):
    names = r.sample(NAME_POOL, k)
    return names


def some_consts(r, names):
    cs = [(c, r.choice(ATOMS[:8])) for c in r.sample(CONST_POOL, r.choice([0, 0, 1, 2]))]
    if cs and r.random() < 0.2: cs.append((cs[0][0], r.choice(ATOMS[:8])))     # overridden constant label
    return cs


def g_random(r):
    kind = r.choice(KINDS)
    k = r.choice([1, 2, 2, 2, 3, 3, 4])
    names = some_names(r, k)
    sc = Scen(r, kind, names, some_consts(r, names))
    pool = pool_for(r, k, 1 if k >= 3 else 2)
    if len(pool) > 9: pool = r.sample(pool, 9)
    for _ in range(r.randint(5, 12)):
        t = r.choice(pool) if r.random() < 0.85 or not sc.used else r.choice(sc.used)
        x = r.random()
        if x < 0.10: sc.bad_request(t)
        elif x < 0.50: sc.request(t, "pos")
        elif x < 0.72: sc.request(t, "map")
        elif x < 0.77: sc.request(t, "dup")
        elif x < 0.89 and kind in ("CF", "CU", "H"):
            sc.local_update(t)
            if r.random() < 0.3: sc.collect()
            if r.random() < 0.3: sc.s.emit("OpFlush", sc.local)
            if r.random() < 0.03: sc.s.emit("OpLvInc" if kind != "H" else "OpLvObserve", sc.local, list(t) + ["x"],
                                            pw(kind, 0) if kind != "H" else f64(1.0))
        elif x < 0.95 and sc.used:
            # stop exporting a child, ask again: a new child from zero, old handles keep the old one
            u = r.choice(sc.used + [t])
            if sc.local is not None and r.random() < 0.6:
                if r.random() < 0.5: sc.s.emit("OpFlush", sc.local)
                sc.s.emit("OpLvRemove", sc.local, list(u))
                if r.random() < 0.7:
                    sc.local_update(u)          # the cache entry is gone too: this must reach a new child
                    if r.random() < 0.5: sc.s.emit("OpFlush", sc.local)
                    sc.collect()
            elif r.random() < 0.6: sc.s.emit("OpRemove", sc.vec, list(u))
            else: sc.s.emit("OpRemoveMap", sc.vec, sc.kvs(u))
            if r.random() < 0.8: sc.request(u, r.choice(["pos", "map"]))
            if r.random() < 0.5: sc.collect()
        elif x < 0.965:
            sc.s.emit("OpReset", sc.vec)
        elif sc.handles:
            sc.read(r.choice(sc.handles))
    return sc.finish()


def g_local(r):
    """a local vector and direct requests working on the same few tuples, with removals through the local vector"""
    kind = r.choice(["CF", "CU", "H"])
    k = r.choice([1, 2, 2, 3])
    names = some_names(r, k)
    sc = Scen(r, kind, names, some_consts(r, names))
    pool = pool_for(r, k, 1)
    if len(pool) > 5: pool = r.sample(pool, 5)
    sc.ensure_local()
    for _ in range(r.randint(5, 11)):
        t = r.choice(pool)
        x = r.random()
        if x < 0.45: sc.local_update(t)
        elif x < 0.65: sc.request(t, r.choice(["pos", "map"]))
        elif x < 0.75: sc.s.emit("OpFlush", sc.local)
        elif x < 0.93:
            if r.random() < 0.5: sc.s.emit("OpFlush", sc.local)
            sc.s.emit("OpLvRemove", sc.local, list(t))
            if r.random() < 0.8: sc.local_update(t)
            if r.random() < 0.5: sc.s.emit("OpFlush", sc.local)
        elif x < 0.97: sc.s.emit("OpRemove", sc.vec, list(t))
        else:
            sc.local = sc.s.emit("OpClone", sc.local)          # a clone starts with an empty cache
        if r.random() < 0.4: sc.collect()
    return sc.finish()


def g_stale(r, kind=None, variant=None, t=None, names=None):
    """a local vector whose cached child was taken out of the shared vector behind its back: the local removal then
    returns Err but must still forget the cached handle, so that the next local request reaches the vector's NEW child
    (variants: shared remove / shared reset / removal through a second local vector of the same shared vector)"""
    kind = kind or r.choice(["CF", "CU", "H"])
    variant = variant or r.choice(["remove", "removemap", "reset", "two_locals"])
    if names is None: names = some_names(r, r.choice([1, 2, 2, 3]))
    sc = Scen(r, kind, names, some_consts(r, names) if t is None else [])
    if t is None:
        pool = pool_for(r, len(names), 1)
        t = r.choice(pool)
        other = r.choice(pool)
    else:
        other = list(t[:-1]) + [t[-1] + "x"]
    l1 = sc.ensure_local()
    if r.random() < 0.5: sc.request(other)
    sc.local_update(t)                                  # 1. local request: the child is created and cached
    if r.random() < 0.5: sc.local_update(other)
    if r.random() < 0.7: sc.s.emit("OpFlush", l1)
    if variant == "two_locals":
        l2 = sc.s.emit("OpLocal", sc.vec)
        sc.local = l2; sc.local_update(t); sc.s.emit("OpFlush", l2)
        sc.s.emit("OpLvRemove", l2, list(t))            # 2. removed through the other local vector (Ok)
        sc.local = l1
    elif variant == "reset": sc.s.emit("OpReset", sc.vec)              # 2. ... or all children dropped
    elif variant == "removemap": sc.s.emit("OpRemoveMap", sc.vec, sc.kvs(t))
    else: sc.s.emit("OpRemove", sc.vec, list(t))        # 2. removed through the shared vector
    if r.random() < 0.3: sc.collect()
    sc.s.emit("OpLvRemove", l1, list(t))                # 3. local removal: Err, the cache entry must go all the same
    if r.random() < 0.4: sc.request(t)                  # (the vector may already have its new child)
    sc.local_update(t)                                  # 4. local request again: must reach the vector's current child
    sc.s.emit("OpFlush", l1)
    sc.collect()
    h = sc.request(t, r.choice(["pos", "map"]))         # a direct request shows the same child
    sc.local_update(t); sc.s.emit("OpFlush", l1); sc.read(h)
    return sc.finish()


def stale_scenarios():
    r = random.Random(11)
    out = []
    for kind in ("CU", "CF", "H"):
        for variant in ("remove", "reset", "two_locals"):
            out.append(g_stale(r, kind, variant, t=["ab", "c"], names=["x", "y"]))
    return out


def g_sweep(r, kind, k, bases, via_local=False):
    """every cut of the given strings requested in one vector: all pairs of them meet"""
    names = some_names(r, k)
    sc = Scen(r, kind, names, some_consts(r, names))
    ts = []
    for b in bases:
        for c in cuts(b, k):
            if c not in ts: ts.append(c)
    r.shuffle(ts)
    ts = ts[:MAXPOW[kind] - 2]
    for t in ts:
        if via_local and kind in ("CF", "CU", "H") and r.random() < 0.4: sc.local_update(t)
        else: sc.request(t, r.choice(["pos", "pos", "map"]))
    return sc.finish()


def collision_scenarios():
    """the recorded finding: two different one-value tuples with the same FNV-1a-64 of the hashed bytes"""
    r = random.Random(5)
    a = Scen(r, "CU", ["l"])
    a.request([COL_A]); a.request([COL_B]); a.request(["x"])
    s1 = a.finish()
    b = Scen(r, "H", ["l"], [("k", "1")])
    b.request([COL_A]); b.local_update([COL_B]); b.collect(); b.request([COL_B], "map")
    s2 = b.finish()
    c = Scen(r, "GI", ["l"])
    c.request([COL_B]); c.request([COL_A]); c.s.emit("OpRemove", c.vec, [COL_A]); c.request([COL_B]); c.collect()
    s3 = c.finish()
    return [s1, s2, s3]


def boundary_scenarios():
    """the repaired defect c29b14e: ["ab","c"] and ["a","bc"] (and every other cut) must get their own children"""
    r = random.Random(7)
    out = []
    for kind in KINDS:
        sc = Scen(r, kind, ["x", "y"])
        sc.request(["ab", "c"]); sc.request(["a", "bc"]); sc.request(["ab", "c"], "map"); sc.request(["a", "bc"], "map")
        sc.request(["abc", ""]); sc.request(["", "abc"])
        sc.local_update(["a", "bc"]); sc.local_update(["ab", "c"])
        out.append(sc.finish())
    return out


class C05(SeqProp):
    pid = "C05"
    spec_import = "Require Import PV.Spec.SpecC05.\nRequire PV.Proofs.C05Spec."
    dom_fn = "(fun ops => andb (PV.Proofs.C05Spec.in_domain ops) (PV.Proofs.C05Spec.no_collision ops))"     # the domain of the uniform spec-of-model theorem (counted in the evidence)
    spec_fn = "spec_c05"
    known_fn = "known_c05"
    rule = ("one scenario = one counter / gauge / histogram vector with 1-4 declared label names (any order) and 0-2 constant labels; "
            "5-12 requests over a pool holding every way to cut a few short strings (ASCII, empty, 2/3/4-byte code points, NUL, DEL, U+00FF, "
            "U+FFFF, U+10FFFF) into as many values as there are labels, positional or as a map in random key order (also with an overridden "
            "key), about 10% malformed (too few / too many values, unknown / missing / extra / repeated key); request i is followed by a "
            "read through its handle and an update of 2^i; local vectors (inc / observe / flush / remove), remove + new request, reset, "
            "collects in between, a read through every handle and a collect at the end; every 7th scenario: a local vector whose cached child "
            "is removed behind its back (shared remove / reset / another local vector), then local remove (Err) and a new local request; plus sweep scenarios requesting every cut of "
            "several strings in one 2-, 3- or 4-label vector (all pairs meet).  non-trivial = at least two requests succeeded and a "
            "collect showed at least one sample; distinct = distinct scenario text")
    assumptions = ["identity of children is decided by the 64-bit FNV-1a hash of the label values: the iff holds up to collisions of that hash "
                   "(theorems carry fnv_injective_on for the two tuples concerned; the unconditional statement is refuted by "
                   "c05_refuted_collision = known finding C05-fnv-collision, whose class is decided in Coq by known_c05)",
                   "c05_spec_model (the model satisfies the executable spec on every collision-free scenario) is proved for one-vector scenarios over "
                   "every operation this generator emits, all five vector kinds with local vectors; for histogram vectors its domain predicate also "
                   "evaluates along the run that no count reaches 2^63",
                   "histogram vectors are created with valid bucket lists (good_buckets); otherwise every request fails, which is C08's subject",
                   "same-child theorems cover histories without remove / reset between the two requests; after a removal a new request "
                   "creates a new child by design (documented in src/vec.rs), which the executable spec follows",
                   "local vectors panic instead of returning Err on a wrong number of values (their API returns no Result)",
                   "updates are distinct powers of two below 2^53 so that float sums are exact in any order",
                   "HashMap iteration order (children, label maps) is exercised through fresh maps per scenario, not controlled"]
    corpus = collision_scenarios() + boundary_scenarios() + stale_scenarios()

    def gen(self, r, tier):
        out = []
        short = ["abc", "ab", "a", "", "aé", "a\u0000b"]
        # sweeps: every cut of the strings in one vector
        for kind in KINDS:
            out.append(g_sweep(r, kind, 2, short + ["éa", "ÿÿ"]))
            out.append(g_sweep(r, kind, 3, ["abc", "ab", "a", "", "aé"], via_local=True))
        out.append(g_sweep(r, "CU", 4, ["abc", "ab", "a", ""]))
        out.append(g_sweep(r, "H", 4, ["abc", "ab", "é"], via_local=True))
        n = 780 if tier == "quick" else 3500
        if tier != "quick":
            for _ in range(40):
                kind = r.choice(KINDS); k = r.choice([2, 3])
                out.append(g_sweep(r, kind, k, r.sample(BASES, 4 if k == 2 else 3), via_local=r.random() < 0.5))
        for j in range(n):
            out.append(g_local(r) if j % 7 == 6 else g_stale(r) if j % 7 == 3 else g_random(r))
        return out

    def nontrivial(self, ops, o):
        return o.count("ORes (Ok tt)") >= 3 and "(mkMetric" in o

    # --replay: props.SeqProp.run turns each recorded op into tuple(<json dict>) before decoding it, which loses the op;
    # decode the recorded scenario here and run it as the only scenario of an otherwise standard run
    _replaying = False

    def run(self, tier, seed, replay=None):
        if replay:
            rp = json.load(open(replay))
            ops = de_json(rp.get("scenario_ops") or [])
            self.corpus = [ops] if ops else []
            self.gen = lambda r, t: []
            self._replaying = True
        return SeqProp.run(self, tier, seed, None)

    def search(self, binp, seed, tier, budget_s=60):
        if self._replaying: return None
        return SeqProp.search(self, binp, seed, tier, budget_s)
