"""C17  Fallible APIs report bad input as Err and do not panic.

Flow of one run (verdict / evidence conventions of props.SeqProp.run):
 0. source scan: the files of the panic-site inventory (coq/Model/PanicSites.v) are re-read from the repository's
    working tree; per function the panic-capable tokens are counted and every inventoried site is looked up;
    coq/gen/PanicInventory.v is rewritten (only if its content changes).  `source_inventory = model_inventory` and
    `source_site_presence = model_site_presence` are proof obligations (Proofs/C17Facts.v, by reflexivity);
 1. proofs: make Props/C17.vo + Spec/SpecC17.vo, Print Assumptions allowlist, forbidden-word scan;
 2. TWO harness builds against the repository's working tree: debug (overflow checks on) and release;
 3. argument sweeps (sequential `S` scenarios) on both builds; the world model is compared with the debug build's
    observations inside Coq, `spec_c17` is evaluated on the observations of both builds;
 4. encoder sweeps (`E` lines: text / utf8 / string / pb entry points, unlimited writer and a writer that fails after n
    bytes) on both builds; inside Coq the outcome models of Model/PanicSites.v are compared with the implementation and
    `spec_c17_enc` is evaluated on the implementation's answers;
 5. verdict."""
from props import *
import collections, shutil, subprocess

# ====================================================================================================================
# 0. the source scanner
# ====================================================================================================================
SCAN_FILES = ["desc.rs", "metrics.rs", "value.rs", "counter.rs", "gauge.rs", "pulling_gauge.rs", "histogram.rs", "vec.rs", "registry.rs",
              "errors.rs", "encoder/mod.rs", "encoder/text.rs", "encoder/pb.rs"]
TOKEN_RES = [r"\.unwrap\s*\(", r"\.expect\s*\(", r"(?<![\w])panic!", r"(?<![\w])unimplemented!", r"(?<![\w])unreachable!", r"(?<![\w])assert!",
             r"(?<![\w])assert_eq!", r"(?<![\w])assert_ne!", r"(?<![\w])todo!", r"(?<![\w])debug_assert"]
# id, file, function ("" = anywhere in the file outside test modules), snippet: the same table as Inventory.model_sites of
# coq/Model/PanicSites.v (the lemma source_sites_are_model_sites compares the two)
SITES = [
    (1, "desc.rs", "new", "const_labels.get(label_name).cloned().unwrap()"),
    (2, "desc.rs", "new", "Vec::with_capacity(const_labels.len() + 1)"),
    (3, "value.rs", "make_label_pairs", "label_values[i]"),
    (4, "value.rs", "make_label_pairs", "desc.variable_labels.len() + desc.const_label_pairs.len()"),
    (5, "histogram.rs", "check_and_adjust_buckets", "(buckets.len() - 1)"),
    (6, "histogram.rs", "check_and_adjust_buckets", "*upper_bound >= buckets[i + 1]"),
    (7, "histogram.rs", "check_and_adjust_buckets", "buckets.last().unwrap()"),
    (8, "histogram.rs", "linear_buckets", ".collect()"),
    (9, "histogram.rs", "exponential_buckets", "Vec::with_capacity(count)"),
    (10, "encoder/text.rs", "escape_string", "&v[0..first]"),
    (11, "encoder/text.rs", "escape_string", "v[first..]"),
    (12, "encoder/text.rs", "escape_string", "v.len() * 2"),
    (13, "encoder/text.rs", "encode_impl", "has unsupported type UNTYPED"),
    (14, "registry.rs", "", "register_default_process_collector(&reg).unwrap()"),
    (15, "vec.rs", "with_label_values", "self.get_metric_with_label_values(vals).unwrap()"),
    (16, "vec.rs", "with", "self.get_metric_with(labels).unwrap()"),
    (17, "counter.rs", "with_label_values", "self.vec.v.hash_label_values(vals).unwrap()"),
    (18, "histogram.rs", "with_label_values", "self.vec.v.hash_label_values(vals).unwrap()"),
    (19, "histogram.rs", "from", "Invalid shard index"),
    (20, "histogram.rs", "proto", "self.collect_lock.lock().expect("),
    (21, "histogram.rs", "sample_sum", "self.collect_lock.lock().expect("),
    (22, "histogram.rs", "get_time_coarse", "assert_eq!("),
    (23, "counter.rs", "inc_by", "debug_assert!(v >= P::T::from_i64(0))"),
]


def _blank(t):
    return "".join(ch if ch == "\n" else " " for ch in t)


def strip_src(src):
    """returns (code, nocomment): the source with comments blanked, and additionally with the contents of string / char
    literals blanked (code); both keep every offset and line break"""
    code, noc = [], []
    i, n = 0, len(src)
    while i < n:
        c = src[i]
        two = src[i:i + 2]
        if two == "//":
            j = src.find("\n", i); j = n if j < 0 else j
            code.append(" " * (j - i)); noc.append(" " * (j - i)); i = j
        elif two == "/*":
            depth, j = 1, i + 2
            while j < n and depth:
                if src[j:j + 2] == "/*": depth += 1; j += 2
                elif src[j:j + 2] == "*/": depth -= 1; j += 2
                else: j += 1
            code.append(_blank(src[i:j])); noc.append(_blank(src[i:j])); i = j
        elif c == '"' or (c in "rb" and re.match(r'b?r?#*"', src[i:i + 8]) and (i == 0 or not (src[i - 1].isalnum() or src[i - 1] == "_"))):
            m = re.match(r'b?r(#*)"', src[i:i + 8])
            if m:
                close = '"' + m.group(1)
                j = src.find(close, i + len(m.group(0))); j = n if j < 0 else j + len(close)
            else:
                j = i + (2 if c == "b" else 1)
                while j < n and src[j] != '"':
                    j += 2 if src[j] == "\\" else 1
                j += 1
            code.append('"' + _blank(src[i + 1:j - 1]) + '"'); noc.append(src[i:j]); i = j
        elif c == "'":
            m = re.match(r"'(\\.[^']*|[^'\\])'", src[i:i + 12])
            if m:
                code.append("'" + " " * (len(m.group(0)) - 2) + "'"); noc.append(m.group(0)); i += len(m.group(0))
            else:
                code.append(c); noc.append(c); i += 1        # a lifetime
        else:
            code.append(c); noc.append(c); i += 1
    return "".join(code), "".join(noc)


def match_brace(s, i):
    depth = 0
    while i < len(s):
        if s[i] == "{": depth += 1
        elif s[i] == "}":
            depth -= 1
            if depth == 0: return i + 1
        i += 1
    return len(s)


def test_regions(code):
    """[(start, end)] of `#[cfg(test)] mod x { ... }`"""
    out = []
    for m in re.finditer(r"#\[cfg\(test\)\]\s*mod\s+\w+\s*\{", code):
        out.append((m.start(), match_brace(code, m.end() - 1)))
    return out


def functions(code):
    """(name, start, end) of every fn that has a body"""
    res = []
    for m in re.finditer(r"\bfn\s+(\w+)", code):
        j, depth = m.end(), 0
        while j < len(code):
            ch = code[j]
            if ch in "(<[": depth += 1
            elif ch in ")]": depth -= 1
            elif ch == ">" and code[j - 1] != "-": depth -= 1
            elif ch == ";" and depth <= 0: j = -1; break
            elif ch == "{" and depth <= 0: break
            j += 1
        if j < 0 or j >= len(code): continue
        res.append((m.group(1), m.start(), match_brace(code, j)))
    return res


def scan_file(path):
    raw = open(path, encoding="utf-8").read()
    code, noc = strip_src(raw)
    for a, b in test_regions(code):
        code = code[:a] + _blank(code[a:b]) + code[b:]
        noc = noc[:a] + _blank(noc[a:b]) + noc[b:]
    fns = functions(code)
    outer = [(nm, a, b) for (nm, a, b) in fns if not any(a2 < a and b <= b2 for (_, a2, b2) in fns)]
    rows = []
    for nm, a, b in outer:
        cnt = [len(re.findall(t, code[a:b])) for t in TOKEN_RES]
        if any(cnt): rows.append((nm, cnt, raw.count("\n", 0, a) + 1))
    total = [len(re.findall(t, code)) for t in TOKEN_RES]
    return dict(raw=raw, code=code, noc=noc, fns=outer, rows=rows, total=total)


def nows(s): return re.sub(r"\s+", "", s)


def scan_repo(repo=None):
    """the token inventory and the presence of every listed site in the repository's working tree"""
    repo = repo or REPO
    files, inv = {}, []
    for f in SCAN_FILES:
        p = os.path.join(repo, "src", f)
        if not os.path.exists(p):
            files[f] = None; inv.append((f, None, [])); continue
        sc = scan_file(p); files[f] = sc
        inv.append((f, sc["total"], [(nm, cnt) for nm, cnt, _ in sc["rows"]]))
    pres, lines = [], []
    for sid, f, fn, snip in SITES:
        sc = files.get(f)
        n, where = 0, []
        if sc:
            regions = [(0, len(sc["noc"]))] if fn == "" else [(a, b) for nm, a, b in sc["fns"] if nm == fn]
            key = nows(snip)
            for a, b in regions:
                body = sc["noc"][a:b]
                k = nows(body).count(key)
                n += k
                if k:
                    # line of the first character of the first occurrence (informational)
                    m = re.search(r"\s*".join(re.escape(ch) for ch in key), body)
                    if m: where.append(sc["raw"].count("\n", 0, a + m.start()) + 1)
        pres.append((sid, f, fn, snip, n)); lines.append((sid, where))
    return inv, pres, lines


def coq_string(s): return '"' + s.replace('"', '""') + '"'


def render_inventory(inv, pres, lines, repo):
    nl = lambda l: "[" + ";".join(str(x) for x in l) + "]"
    out = ["(* GENERATED by tools/p_C17.py from the working tree of the repository (src/*.rs) on every run of the C17 check;",
           "   do not edit.  Compared with Inventory.model_inventory / model_site_presence of Model/PanicSites.v by",
           "   Proofs/C17Facts.source_inventory_is_model_inventory / source_sites_are_model_sites. *)",
           "Require Import PV.Base.Prelude.", "Require Coq.Strings.String.", "Open Scope N_scope.",
           "Module SourceInventory.", "  Import Coq.Strings.String.", "  Local Open Scope string_scope.",
           "  (* per file: totals per token, then the functions (source order, test modules excluded) with at least one token;",
           "     token order: .unwrap(  .expect(  panic!  unimplemented!  unreachable!  assert!  assert_eq!  assert_ne!  todo!  debug_assert *)",
           "  Definition source_inventory : list (string * list N * list (string * list N)) := ["]
    rows = []
    for f, total, fns in inv:
        if total is None:
            rows.append("    (%s, [], [])" % coq_string(f + " (missing)"))
        else:
            rows.append("    (%s, %s, [%s])" % (coq_string(f), nl(total), "; ".join("(%s, %s)" % (coq_string(nm), nl(c)) for nm, c in fns)))
    out.append(";\n".join(rows)); out.append("  ].")
    out.append("  (* site id, file, function, snippet, occurrences of the snippet in the functions of that name *)")
    out.append("  Definition source_site_presence : list (nat * string * string * string * N) := [")
    out.append(";\n".join("    (%d%%nat, %s, %s, %s, %d)" % (sid, coq_string(f), coq_string(fn), coq_string(sn), n) for sid, f, fn, sn, n in pres))
    out.append("  ].")
    out.append("  (* where the snippets are now (line numbers; information only, not compared) *)")
    out.append("  Definition source_site_lines : list (nat * list N) := [")
    out.append(";\n".join("    (%d%%nat, %s)" % (sid, nl(w)) for sid, w in lines))
    out.append("  ].")
    out.append("End SourceInventory.")
    return "\n".join(out) + "\n"


GEN_PATH = os.path.join(COQ, "gen", "PanicInventory.v")


def regenerate_inventory():
    inv, pres, lines = scan_repo()
    txt = render_inventory(inv, pres, lines, REPO)
    os.makedirs(os.path.dirname(GEN_PATH), exist_ok=True)
    old = open(GEN_PATH).read() if os.path.exists(GEN_PATH) else None
    if old != txt:
        open(GEN_PATH, "w").write(txt)
    return inv, pres, lines, old != txt


if __name__ == "__main__":
    inv, pres, lines, changed = regenerate_inventory()
    print("regenerated" if changed else "unchanged", GEN_PATH)
    for f, total, fns in inv: print(f, total, fns)
    for p, l in zip(pres, lines): print(p, l[1])
