"""C17  Fallible APIs report bad input as Err and do not panic.

Flow of one run (verdict / evidence conventions of props.SeqProp.run):
 0. source scan: the files of the panic-site inventory (coq/Model/PanicSites.v) are re-read from the repository's
    working tree; per function the panic-capable tokens are counted and every inventoried site is looked up;
    coq/gen/PanicInventory.v is rewritten (only if its content changes).  `source_inventory = model_inventory` and
    `source_site_presence = model_site_presence` are proof obligations (Proofs/C17Facts.v, by reflexivity);
 1. proofs: make Props/C17.vo + Spec/SpecC17.vo, Print Assumptions allowlist, forbidden-word scan;
 2. TWO harness builds against the repository's working tree: debug (overflow checks on) and release;
 3. argument sweeps (sequential `S` scenarios) on both builds; the world model is compared with the debug build's
    observations inside Coq, `spec_c17` is evaluated on the observations of both builds;
 4. encoder sweeps (`E` lines: text / utf8 / string / pb entry points, unlimited writer and a writer that fails after n
    bytes) on both builds; inside Coq the outcome models of Model/PanicSites.v are compared with the implementation and
    `spec_c17_enc` is evaluated on the implementation's answers;
 5. verdict."""
from props import *
import collections, shutil, subprocess

# ====================================================================================================================
# 0. the source scanner
# ====================================================================================================================
SCAN_FILES = ["desc.rs", "metrics.rs", "value.rs", "counter.rs", "gauge.rs", "pulling_gauge.rs", "histogram.rs", "vec.rs", "registry.rs",
              "errors.rs", "encoder/mod.rs", "encoder/text.rs", "encoder/pb.rs"]
TOKEN_RES = [r"\.unwrap\s*\(", r"\.expect\s*\(", r"(?<![\w])panic!", r"(?<![\w])unimplemented!", r"(?<![\w])unreachable!", r"(?<![\w])assert!",
             r"(?<![\w])assert_eq!", r"(?<![\w])assert_ne!", r"(?<![\w])todo!", r"(?<![\w])debug_assert"]
# id, file, function ("" = anywhere in the file outside test modules), snippet: the same table as Inventory.model_sites of
# coq/Model/PanicSites.v (the lemma source_sites_are_model_sites compares the two)
SITES = [
    (1, "desc.rs", "new", "const_labels.get(label_name).cloned().unwrap()"),
    (2, "desc.rs", "new", "Vec::with_capacity(const_labels.len() + 1)"),
    (3, "value.rs", "make_label_pairs", "label_values[i]"),
    (4, "value.rs", "make_label_pairs", "desc.variable_labels.len() + desc.const_label_pairs.len()"),
    (5, "histogram.rs", "check_and_adjust_buckets", "(buckets.len() - 1)"),
    (6, "histogram.rs", "check_and_adjust_buckets", "*upper_bound >= buckets[i + 1]"),
    (7, "histogram.rs", "check_and_adjust_buckets", "buckets.last().unwrap()"),
    (8, "histogram.rs", "linear_buckets", ".collect()"),
    (9, "histogram.rs", "exponential_buckets", "Vec::with_capacity(count)"),
    (10, "encoder/text.rs", "escape_string", "&v[0..first]"),
    (11, "encoder/text.rs", "escape_string", "v[first..]"),
    (12, "encoder/text.rs", "escape_string", "v.len() * 2"),
    (13, "encoder/text.rs", "encode_impl", "has unsupported type UNTYPED"),
    (14, "registry.rs", "", "register_default_process_collector(&reg).unwrap()"),
    (15, "vec.rs", "with_label_values", "self.get_metric_with_label_values(vals).unwrap()"),
    (16, "vec.rs", "with", "self.get_metric_with(labels).unwrap()"),
    (17, "counter.rs", "with_label_values", "self.vec.v.hash_label_values(vals).unwrap()"),
    (18, "histogram.rs", "with_label_values", "self.vec.v.hash_label_values(vals).unwrap()"),
    (19, "histogram.rs", "from", "Invalid shard index"),
    (20, "histogram.rs", "proto", "self.collect_lock.lock().expect("),
    (21, "histogram.rs", "sample_sum", "self.collect_lock.lock().expect("),
    (22, "histogram.rs", "get_time_coarse", "assert_eq!("),
    (23, "counter.rs", "inc_by", "debug_assert!(v >= P::T::from_i64(0))"),
]


def _blank(t):
    return "".join(ch if ch == "\n" else " " for ch in t)


def strip_src(src):
    """returns (code, nocomment): the source with comments blanked, and additionally with the contents of string / char
    literals blanked (code); both keep every offset and line break"""
    code, noc = [], []
    i, n = 0, len(src)
    while i < n:
        c = src[i]
        two = src[i:i + 2]
        if two == "//":
            j = src.find("\n", i); j = n if j < 0 else j
            code.append(" " * (j - i)); noc.append(" " * (j - i)); i = j
        elif two == "/*":
            depth, j = 1, i + 2
            while j < n and depth:
                if src[j:j + 2] == "/*": depth += 1; j += 2
                elif src[j:j + 2] == "*/": depth -= 1; j += 2
                else: j += 1
            code.append(_blank(src[i:j])); noc.append(_blank(src[i:j])); i = j
        elif c == '"' or (c in "rb" and re.match(r'b?r?#*"', src[i:i + 8]) and (i == 0 or not (src[i - 1].isalnum() or src[i - 1] == "_"))):
            m = re.match(r'b?r(#*)"', src[i:i + 8])
            if m:
                close = '"' + m.group(1)
                j = src.find(close, i + len(m.group(0))); j = n if j < 0 else j + len(close)
            else:
                j = i + (2 if c == "b" else 1)
                while j < n and src[j] != '"':
                    j += 2 if src[j] == "\\" else 1
                j += 1
            code.append('"' + _blank(src[i + 1:j - 1]) + '"'); noc.append(src[i:j]); i = j
        elif c == "'":
            m = re.match(r"'(\\.[^']*|[^'\\])'", src[i:i + 12])
            if m:
                code.append("'" + " " * (len(m.group(0)) - 2) + "'"); noc.append(m.group(0)); i += len(m.group(0))
            else:
                code.append(c); noc.append(c); i += 1        # a lifetime
        else:
            code.append(c); noc.append(c); i += 1
    return "".join(code), "".join(noc)


def match_brace(s, i):
    depth = 0
    while i < len(s):
        if s[i] == "{": depth += 1
        elif s[i] == "}":
            depth -= 1
            if depth == 0: return i + 1
        i += 1
    return len(s)


def test_regions(code):
    """[(start, end)] of `#[cfg(test)] mod x { ... }`"""
    out = []
    for m in re.finditer(r"#\[cfg\(test\)\]\s*mod\s+\w+\s*\{", code):
        out.append((m.start(), match_brace(code, m.end() - 1)))
    return out


def functions(code):
    """(name, start, end) of every fn that has a body"""
    res = []
    for m in re.finditer(r"\bfn\s+(\w+)", code):
        j, depth = m.end(), 0
        while j < len(code):
            ch = code[j]
            if ch in "(<[": depth += 1
            elif ch in ")]": depth -= 1
            elif ch == ">" and code[j - 1] != "-": depth -= 1
            elif ch == ";" and depth <= 0: j = -1; break
            elif ch == "{" and depth <= 0: break
            j += 1
        if j < 0 or j >= len(code): continue
        res.append((m.group(1), m.start(), match_brace(code, j)))
    return res


def scan_file(path):
    raw = open(path, encoding="utf-8").read()
    code, noc = strip_src(raw)
    for a, b in test_regions(code):
        code = code[:a] + _blank(code[a:b]) + code[b:]
        noc = noc[:a] + _blank(noc[a:b]) + noc[b:]
    fns = functions(code)
    outer = [(nm, a, b) for (nm, a, b) in fns if not any(a2 < a and b <= b2 for (_, a2, b2) in fns)]
    rows = []
    for nm, a, b in outer:
        cnt = [len(re.findall(t, code[a:b])) for t in TOKEN_RES]
        if any(cnt): rows.append((nm, cnt, raw.count("\n", 0, a) + 1))
    total = [len(re.findall(t, code)) for t in TOKEN_RES]
    return dict(raw=raw, code=code, noc=noc, fns=outer, rows=rows, total=total)


def nows(s): return re.sub(r"\s+", "", s)


def scan_repo(repo=None):
    """the token inventory and the presence of every listed site in the repository's working tree"""
    repo = repo or REPO
    files, inv = {}, []
    for f in SCAN_FILES:
        p = os.path.join(repo, "src", f)
        if not os.path.exists(p):
            files[f] = None; inv.append((f, None, [])); continue
        sc = scan_file(p); files[f] = sc
        inv.append((f, sc["total"], [(nm, cnt) for nm, cnt, _ in sc["rows"]]))
    pres, lines = [], []
    for sid, f, fn, snip in SITES:
        sc = files.get(f)
        n, where = 0, []
        if sc:
            regions = [(0, len(sc["noc"]))] if fn == "" else [(a, b) for nm, a, b in sc["fns"] if nm == fn]
            key = nows(snip)
            for a, b in regions:
                body = sc["noc"][a:b]
                k = nows(body).count(key)
                n += k
                if k:
                    # line of the first character of the first occurrence (informational)
                    m = re.search(r"\s*".join(re.escape(ch) for ch in key), body)
                    if m: where.append(sc["raw"].count("\n", 0, a + m.start()) + 1)
        pres.append((sid, f, fn, snip, n)); lines.append((sid, where))
    return inv, pres, lines


def coq_string(s): return '"' + s.replace('"', '""') + '"'


def render_inventory(inv, pres, lines, repo):
    nl = lambda l: "[" + ";".join(str(x) for x in l) + "]"
    out = ["(* GENERATED by tools/p_C17.py from the working tree of the repository (src/*.rs) on every run of the C17 check;",
           "   do not edit.  Compared with Inventory.model_inventory / model_site_presence of Model/PanicSites.v by",
           "   Proofs/C17Facts.source_inventory_is_model_inventory / source_sites_are_model_sites. *)",
           "Require Import PV.Base.Prelude.", "Require Coq.Strings.String.", "Open Scope N_scope.",
           "Module SourceInventory.", "  Import Coq.Strings.String.", "  Local Open Scope string_scope.",
           "  (* per file: totals per token, then the functions (source order, test modules excluded) with at least one token;",
           "     token order: .unwrap(  .expect(  panic!  unimplemented!  unreachable!  assert!  assert_eq!  assert_ne!  todo!  debug_assert *)",
           "  Definition source_inventory : list (string * list N * list (string * list N)) := ["]
    rows = []
    for f, total, fns in inv:
        if total is None:
            rows.append("    (%s, [], [])" % coq_string(f + " (missing)"))
        else:
            rows.append("    (%s, %s, [%s])" % (coq_string(f), nl(total), "; ".join("(%s, %s)" % (coq_string(nm), nl(c)) for nm, c in fns)))
    out.append(";\n".join(rows)); out.append("  ].")
    out.append("  (* site id, file, function, snippet, occurrences of the snippet in the functions of that name *)")
    out.append("  Definition source_site_presence : list (nat * string * string * string * N) := [")
    out.append(";\n".join("    (%d%%nat, %s, %s, %s, %d)" % (sid, coq_string(f), coq_string(fn), coq_string(sn), n) for sid, f, fn, sn, n in pres))
    out.append("  ].")
    out.append("  (* where the snippets are now (line numbers; information only, not compared) *)")
    out.append("  Definition source_site_lines : list (nat * list N) := [")
    out.append(";\n".join("    (%d%%nat, %s)" % (sid, nl(w)) for sid, w in lines))
    out.append("  ].")
    out.append("End SourceInventory.")
    return "\n".join(out) + "\n"


GEN_PATH = os.path.join(COQ, "gen", "PanicInventory.v")


def regenerate_inventory(repo=None):
    inv, pres, lines = scan_repo(repo)
    txt = render_inventory(inv, pres, lines, repo or REPO)
    os.makedirs(os.path.dirname(GEN_PATH), exist_ok=True)
    old = open(GEN_PATH).read() if os.path.exists(GEN_PATH) else None
    if old != txt:
        open(GEN_PATH, "w").write(txt)
    return inv, pres, lines, old != txt



# ====================================================================================================================
# 1. pools
# ====================================================================================================================
LONG = 4096
NASTY = ["", "a", "9x", "a b", "é", "a\nb", "😀", "_", ":", "a:b", "le", "__name__", "\u0000", "a\u0000b", " ", "-", "$a", "Ａ", "٣", "a-b", "a.b",
         "\u0301", "\ud7ff", "\U0010ffff", "\\", "\"", "a" * LONG, "é" * (LONG // 2), "a" * (LONG - 1) + "-", "x" * 255, "\n", "quantile", "a\\\né",
         "😀" * 64, "\u00e9\\", "\\\u00e9", "\u00e9\n\u00e9", "\"\u00e9\"", "A_1", "le_", "_le"]
GOOD_NAMES = ["a", "b", "c", "job", "_x", "A_1", "zone", "code", "m", "x" * 255, "a" * LONG]
VALUES = ["", "v", "x y", "é", "😀", "\\", "\"", "\n", "a\\\né", "\u00e9\\", "\\\u00e9", "v" * LONG, "é" * (LONG // 2), "\u0000", "1", "2", "ab", "c", "a", "bc"]
FLOATS = [f64(0.0), NZERO, f64(1.0), f64(-1.0), f64(0.5), f64(2.0), f64(1.0000000000000002), F(0x3fefffffffffffff), f64(10.0), f64(1e300), f64(-1e300),
          f64(1e308), f64(1.7976931348623157e308), f64(5e-324), F(0x000fffffffffffff), F(0x8000000000000001), f64(2.2250738585072014e-308), PINF, NINF, NAN,
          f64(0.1), f64(3.0), f64(1e-310), f64(1e16), f64(0.999), f64(1e-300), f64(-0.5), f64(4096.0)]
COUNTS = [0, 0, 1, 1, 2, 3, 5, 10, 17, 100, 200]
LONG_P = [0.03]          # probability of a 4096-element float list where one is possible (quick 0.03, thorough 0.15)


def nasty(r, good=0.0):
    if r.random() < good: return r.choice(GOOD_NAMES)
    return r.choice(NASTY)


def value(r):
    return r.choice(VALUES)


def fl(r):
    k = r.random()
    if k < 0.8: return r.choice(FLOATS)
    return gens.nextafter_bits(r.choice(FLOATS), r.random() < 0.5)


def increasing(n, start=-5.0, step=0.25):
    return [f64(start + step * i) for i in range(n)]


def bucket_list(r):
    k = r.random()
    if k < 0.08: return []
    if k < 0.16: return [NAN]
    if k < 0.22: return [f64(1.0), NAN]
    if k < 0.28: return [f64(1.0), NAN, f64(0.5)]
    if k < 0.34: return [PINF]
    if k < 0.38: return [NINF, f64(0.0), PINF]
    if k < 0.42: return [PINF, PINF]
    if k < 0.46: return [f64(1.0), f64(1.0)]
    if k < 0.50: return [f64(2.0), f64(1.0)]
    if k < 0.54: return [f64(0.0), NZERO]
    if k < 0.58: return [NZERO, f64(0.0)]
    if k < 0.66:
        # 4096 bounds: rare in the quick tier (every such list is 100 kB of case text), see LONG_P
        n = LONG if r.random() < LONG_P[0] else r.choice([17, 64, 200])
        j = r.random()
        if j < 0.4: return increasing(n)
        if j < 0.6: return increasing(n - 1) + [PINF]
        if j < 0.8: b = increasing(n); b[-1] = b[-2]; return b
        b = increasing(n); b[r.randrange(n)] = NAN; return b
    if k < 0.71: return increasing(r.choice([2, 3, 17]))
    if k < 0.74: return [F(1), F(2), F(3)]                       # subnormals, increasing
    if k < 0.77: return [F(0x8000000000000002), F(0x8000000000000001), NZERO]
    if k < 0.88: return gens.good_buckets(r)
    return [fl(r) for _ in range(r.randint(1, 5))]


def opts_nasty(r, good=0.6, nconst=(0, 2)):
    name = nasty(r, good)
    ns = nasty(r, 0.5) if r.random() < 0.15 else ""
    sub = nasty(r, 0.5) if r.random() < 0.15 else ""
    help_ = r.choice(["h", "h", "h", "", "help é", "h" * LONG, "\n", "\\"])
    consts = [(nasty(r, 0.7), value(r)) for _ in range(r.randint(*nconst))]
    if consts and r.random() < 0.15: consts.append((consts[0][0], value(r)))
    if r.random() < 0.04: consts = [("c%d" % i, "v") for i in range(40)]
    return mkopts(name, help_, ns, sub, consts)


def opts_good(name="m", consts=()):
    return mkopts(name, "h", "", "", list(consts))


LONG_STRINGS = sorted(set(x for x in NASTY + GOOD_NAMES + VALUES + ["h" * LONG, "n" * LONG] if len(x) >= 255), key=len, reverse=True)


def compact(term):
    """replaces the literal code-point lists of the long pool strings by `repeat c n` expressions (same value, 1000x less text)"""
    for x in LONG_STRINGS:
        lit = c_str(x)
        if lit not in term: continue
        c0 = x[0]
        k = len(x) - len(x.lstrip(c0))
        rest = x[k:]
        expr = "(repeat %d %d%%nat%s)" % (ord(c0), k, (" ++ " + c_str(rest)) if rest else "")
        term = term.replace(lit, expr)
    return term


# ====================================================================================================================
# 2. sequential sweeps
# ====================================================================================================================
def g_ctor(r):
    """constructors of every kind with names / help / labels from the nasty pool"""
    s = Slots()
    good = r.choice([0.0, 0.3, 0.6, 0.9])
    for _ in range(r.randint(4, 9)):
        kind = r.choice(["C", "G", "H", "CV", "GV", "HV", "P", "D", "D", "X"])
        o = opts_nasty(r, good)
        if kind == "D":
            nv = r.choice([0, 0, 1, 2, 5, 40])
            vars_ = [nasty(r, good) for _ in range(nv)] if nv < 40 else ["l%d" % i for i in range(40)]
            s.emit("OpDesc", nasty(r, good), o["help"], vars_, o["consts"]); continue
        if kind == "P":
            s.emit("OpPulling", nasty(r, good), o["help"], fl(r)); continue
        if kind == "X":
            ds = [(nasty(r, 0.7), r.choice(["h", "h", ""]), [nasty(r, 0.8) for _ in range(r.randint(0, 2))], [(nasty(r, 0.8), value(r)) for _ in range(r.randint(0, 2))])
                  for _ in range(r.randint(0, 3))]
            s.emit("OpCustom", ds, []); continue
        if kind in ("C", "G", "H") and r.random() < 0.15:
            o["vars"] = [nasty(r, 0.8) for _ in range(r.randint(1, 3))]
        if kind == "C": s.emit("OpCounter", r.choice(["NF", "NU"]), o)
        elif kind == "G": s.emit("OpGauge", r.choice(["NF", "NI"]), o)
        elif kind == "H": s.emit("OpHistogram", dict(opts=o, buckets=bucket_list(r) if r.random() < 0.5 else []))
        else:
            nv = r.choice([0, 1, 1, 2, 3, 5, 40])
            vars_ = [nasty(r, max(good, 0.5)) for _ in range(nv)] if nv < 40 else ["l%d" % i for i in range(40)]
            if kind == "CV": s.emit("OpCounterVec", r.choice(["NF", "NU"]), o, vars_)
            elif kind == "GV": s.emit("OpGaugeVec", r.choice(["NF", "NI"]), o, vars_)
            else: s.emit("OpHistVec", dict(opts=o, buckets=bucket_list(r) if r.random() < 0.4 else []), vars_)
    return s.ops


def label_request(r, declared):
    """a positional request: the declared cardinality half of the time, else anything in 0..40"""
    n = len(declared) if r.random() < 0.5 else r.choice([0, 1, 2, 3, 4, 5, 6, 7, 16, 39, 40])
    return [value(r) for _ in range(n)]


def map_request(r, declared):
    k = r.random()
    if k < 0.4:
        kvs = [(n, value(r)) for n in declared]
        r.shuffle(kvs)
    elif k < 0.55:                       # a name missing / replaced by a wrong one
        kvs = [(n, value(r)) for n in declared]
        if kvs: kvs[r.randrange(len(kvs))] = (r.choice(["zz", "", "é", declared[0] + "_", "le"]), value(r))
    elif k < 0.65:                       # too few
        kvs = [(n, value(r)) for n in declared[:max(0, len(declared) - r.randint(1, 2))]]
    elif k < 0.8:                        # too many
        kvs = [(n, value(r)) for n in declared] + [("x%d" % i, value(r)) for i in range(r.choice([1, 2, 35]))]
    elif k < 0.9:                        # a repeated key (HashMap insert overrides): one name short
        kvs = [(n, value(r)) for n in declared]
        if kvs: kvs.append((kvs[0][0], value(r)))
    else:
        kvs = [(nasty(r, 0.3), value(r)) for _ in range(r.choice([0, 1, 2, 5, 40]))]
    return kvs


def g_vec(r):
    """vectors declaring 0..5 labels; positional and map requests / removals of cardinality 0..40; local vectors"""
    s = Slots()
    nd = r.choice([0, 1, 1, 2, 2, 3, 4, 5])
    declared = r.sample(["a", "b", "c", "job", "zone", "_x", "A_1", "x" * 255], nd)
    consts = [("k", "v")] if r.random() < 0.3 else []
    kind = r.choice(["CV", "CV", "GV", "HV", "HV"])
    o = opts_good("v", consts)
    if kind == "CV": v = s.emit("OpCounterVec", r.choice(["NF", "NU"]), o, declared)
    elif kind == "GV": v = s.emit("OpGaugeVec", r.choice(["NF", "NI"]), o, declared)
    else:
        b = r.random()
        v = s.emit("OpHistVec", dict(opts=o, buckets=[] if b < 0.5 else gens.good_buckets(r) if b < 0.7 else bucket_list(r)), declared)
    lv = None
    if kind != "GV" and r.random() < 0.4: lv = s.emit("OpLocal", v)
    for _ in range(r.randint(4, 10)):
        k = r.random()
        if k < 0.3: s.emit("OpWith", v, label_request(r, declared))
        elif k < 0.55: s.emit("OpWithMap", v, map_request(r, declared))
        elif k < 0.7: s.emit("OpRemove", v, label_request(r, declared))
        elif k < 0.85: s.emit("OpRemoveMap", v, map_request(r, declared))
        elif k < 0.95 and lv is not None: s.emit("OpLvRemove", lv, label_request(r, declared))
        else: s.emit("OpReset", v)
    return s.ops


def g_hist(r):
    """bucket lists of every shape on Histogram::with_opts and on the children of a HistogramVec"""
    s = Slots()
    for _ in range(r.randint(2, 4)):
        s.emit("OpHistogram", dict(opts=opts_good("h"), buckets=bucket_list(r)))
    v = s.emit("OpHistVec", dict(opts=opts_good("hv"), buckets=bucket_list(r)), ["a"])
    s.emit("OpWith", v, ["x"]); s.emit("OpWithMap", v, [("a", "y")]); s.emit("OpWith", v, []); s.emit("OpRemove", v, ["x"])
    return s.ops


def g_helpers(r):
    ops = []
    for _ in range(r.randint(6, 12)):
        count = LONG if r.random() < LONG_P[0] / 2 else r.choice(COUNTS)
        if r.random() < 0.5: ops.append(("OpLinearBuckets", fl(r), fl(r), count))
        else: ops.append(("OpExpBuckets", fl(r), fl(r), count))
    return ops


def g_registry(r):
    """new_custom with (in)valid prefix / labels, register twice, unregister absent, clones, custom collectors"""
    s = Slots()
    regs = []
    for _ in range(r.randint(1, 3)):
        k = r.random()
        prefix = None if k < 0.3 else nasty(r, 0.5)
        k = r.random()
        labels = None if k < 0.3 else [(nasty(r, 0.6), value(r)) for _ in range(r.choice([0, 1, 2, 3, 40]))]
        if labels and len(labels) == 40: labels = [("l%d" % i, "v") for i in range(40)]
        regs.append(s.emit("OpRegistry", prefix, labels))
    regs.append(s.emit("OpRegistry", None, None))
    if r.random() < 0.3: regs.append(s.emit("OpClone", regs[-1]))
    ms = []
    for _ in range(r.randint(1, 4)):
        kind = r.choice(["C", "G", "H", "CV", "X", "P", "bad"])
        nm = r.choice(["m", "n", "m", "q"])
        if kind == "C": ms.append(s.emit("OpCounter", "NF", opts_good(nm)))
        elif kind == "G": ms.append(s.emit("OpGauge", "NI", opts_good(nm, [("k", value(r))] if r.random() < 0.5 else [])))
        elif kind == "H": ms.append(s.emit("OpHistogram", dict(opts=opts_good(nm), buckets=[])))
        elif kind == "CV": ms.append(s.emit("OpCounterVec", "NU", opts_good(nm), ["a"]))
        elif kind == "P": ms.append(s.emit("OpPulling", nm, "h", f64(1.0)))
        elif kind == "bad": ms.append(s.emit("OpCounter", "NF", opts_good("9bad")))
        else:
            ds = [(r.choice(["m", "n", "x", "y"]), r.choice(["h", "h2"]), r.choice([[], ["a"]]), r.choice([[], [("k", "1")]])) for _ in range(r.randint(0, 3))]
            ms.append(s.emit("OpCustom", ds, []))
    if ms and r.random() < 0.3: ms.append(s.emit("OpClone", r.choice(ms)))
    for _ in range(r.randint(3, 9)):
        reg, m = r.choice(regs), r.choice(ms)
        k = r.random()
        if k < 0.55: s.emit("OpRegister", reg, m)
        elif k < 0.9: s.emit("OpUnregister", reg, m)
        else: s.emit("OpRegister", reg, reg)                 # not a collector: an ill-typed step on both sides
    if r.random() < 0.25:
        # a name stays bound to its help / label names for the life of the registry: after one of two collectors of a name has been
        # unregistered (and even after both have), a collector of that name with other dimensions is an Err, not an Ok
        reg = r.choice(regs); nm = r.choice(["w", "m"])
        a = s.emit("OpGauge", "NI", opts_good(nm, [("k", "1")]))
        b = s.emit("OpGauge", "NI", opts_good(nm, [("k", "2")]))
        c = s.emit("OpCounterVec", "NU", opts_good(nm), ["a"]) if r.random() < 0.5 else s.emit("OpGauge", "NI", dict(opts_good(nm, [("k", "3")]), help="other help"))
        for step in (("OpRegister", a), ("OpRegister", b), ("OpUnregister", a), ("OpRegister", c), ("OpUnregister", b), ("OpRegister", c), ("OpRegister", a)):
            s.emit(step[0], reg, step[1])
    return s.ops


SEQ_CORPUS = [
    # one hand-written scenario per clause of the statement
    [("OpDesc", "", "h", [], []), ("OpDesc", "a", "", [], []), ("OpDesc", "a" * LONG, "h", ["l%d" % i for i in range(40)], [("c%d" % i, "v") for i in range(40)]),
     ("OpDesc", "é", "h", [], []), ("OpDesc", "a", "h", ["b", "b"], []), ("OpDesc", "a", "h", ["b"], [("b", "1")])],
    [("OpCounterVec", "NF", opts_good("v"), ["a", "b"]), ("OpWith", 0, []), ("OpWith", 0, ["x"] * 40), ("OpWith", 0, ["x", "y"]),
     ("OpWithMap", 0, [("a", "1")]), ("OpWithMap", 0, [("a", "1"), ("c", "2")]), ("OpWithMap", 0, [("x%d" % i, "v") for i in range(40)]),
     ("OpRemove", 0, ["x"]), ("OpRemove", 0, ["x", "y"]), ("OpRemove", 0, ["x", "y"]), ("OpRemoveMap", 0, [("b", "y")]), ("OpRemoveMap", 0, [("b", "y"), ("a", "x")])],
    [("OpHistogram", dict(opts=opts_good("h"), buckets=[NAN])), ("OpHistogram", dict(opts=opts_good("h"), buckets=[f64(1.0), f64(1.0)])),
     ("OpHistogram", dict(opts=opts_good("h"), buckets=increasing(LONG))), ("OpHistogram", dict(opts=opts_good("h", [("le", "1")]), buckets=[])),
     ("OpHistVec", dict(opts=opts_good("hv"), buckets=[f64(2.0), f64(1.0)]), ["a"]), ("OpWith", 4, ["x"]), ("OpWith", 4, [])],
    [("OpLinearBuckets", f64(0.0), f64(1.0), 0), ("OpLinearBuckets", f64(0.0), f64(0.0), 3), ("OpLinearBuckets", f64(0.0), f64(-1.0), 3),
     ("OpLinearBuckets", f64(0.0), NAN, 3), ("OpLinearBuckets", NAN, f64(1.0), 2), ("OpLinearBuckets", f64(1e308), f64(1e308), LONG),
     ("OpExpBuckets", f64(1.0), f64(2.0), 0), ("OpExpBuckets", f64(0.0), f64(2.0), 3), ("OpExpBuckets", f64(1.0), f64(1.0), 3),
     ("OpExpBuckets", f64(1.0), f64(0.5), 3), ("OpExpBuckets", f64(1.0), NAN, 3), ("OpExpBuckets", F(1), f64(2.0), LONG), ("OpExpBuckets", PINF, f64(2.0), 2)],
    [("OpRegistry", "", None), ("OpRegistry", "9p", None), ("OpRegistry", None, [("bad-label", "x")]), ("OpRegistry", "p", [("z", "1")]),
     ("OpCounter", "NF", opts_good("m")), ("OpRegister", 3, 4), ("OpRegister", 3, 4), ("OpUnregister", 3, 4), ("OpUnregister", 3, 4),
     ("OpRegistry", None, None), ("OpUnregister", 5, 4), ("OpCounter", "NF", opts_good("m", [("z", "2")])), ("OpRegister", 3, 6)],
]


def gen_seq(r, tier):
    n = 70 if tier == "quick" else 500
    LONG_P[0] = 0.03 if tier == "quick" else 0.06
    out = []
    for _ in range(n):
        out.append(g_ctor(r)); out.append(g_vec(r)); out.append(g_vec(r)); out.append(g_registry(r))
    for _ in range(n // 2):
        out.append(g_hist(r)); out.append(g_helpers(r))
    return out


# ====================================================================================================================
# 3. encoder sweeps
# ====================================================================================================================
TYPES = ["COUNTER", "GAUGE", "SUMMARY", "UNTYPED", "HISTOGRAM"]
ENTRIES = ["text", "utf8", "string", "pb"]
PREFILLS = ["", "", "78", "c3a9", "23204845"]


def short_value(r):
    """label values for the encoder sweeps: the 4096-character ones only rarely (their escaped form is written out byte by byte in the case files)"""
    v = value(r)
    return v if (len(v) < 255 or r.random() < 0.03) else r.choice(["é\\", "\\é", "\n", "\"", "a\\\né", ""])


def gen_metric(r, typ):
    labels = [(r.choice(["a", "b", "le", "quantile", "", "é", "x" * 255 if r.random() < 0.1 else "x"]), short_value(r)) for _ in range(r.choice([0, 0, 1, 2, 3, 3, 12]))]
    m = mk_metric(labels=labels, ts=r.choice([None, None, 0, 1, -1, 2 ** 63 - 1, -2 ** 63]))
    k = r.random()
    present = k < 0.6          # the payload of the family's type is present
    other = k > 0.85           # a payload of another type instead / in addition
    def payload(t):
        if t == "COUNTER": m["counter"] = fl(r)
        elif t == "GAUGE": m["gauge"] = fl(r)
        elif t == "UNTYPED": m["untyped"] = fl(r)
        elif t == "HISTOGRAM":
            nb = r.choice([0, 1, 2, 3, 3, 16])
            m["hist"] = dict(count=r.choice([0, 1, 2 ** 64 - 1, 2 ** 53 + 1]), sum=fl(r), b=[(r.choice([0, 1, 2 ** 64 - 1]), fl(r)) for _ in range(nb)])
        else:
            m["summary"] = dict(count=r.choice([0, 1, 2 ** 64 - 1]), sum=fl(r), q=[(fl(r), fl(r)) for _ in range(r.choice([0, 1, 3]))])
    if present: payload(typ)
    if other: payload(r.choice(TYPES))
    return m


def gen_family(r):
    typ = r.choice(TYPES)
    name = r.choice(["m", "m", "m", "", "9 bad", "é", "a_b:c", "m"]) if r.random() > 0.02 else "n" * LONG
    help_ = r.choice(["h", "", "h\\n\n\"é", "é\\", "\\é", "\né"]) if r.random() > 0.02 else "h" * LONG
    nm = r.choice([0, 1, 1, 1, 2, 3])
    return mk_family(name, help_, typ, [gen_metric(r, typ) for _ in range(nm)])


ENC_CORPUS = [
    [mk_family("m", "h", "UNTYPED", [mk_metric(untyped=f64(1.0))])],                       # the repaired defect (3d1bf37)
    [mk_family("a", "h", "COUNTER", [mk_metric(counter=f64(1.0))]), mk_family("m", "h", "UNTYPED", [mk_metric()])],
    [mk_family("m", "h", "COUNTER", [])], [mk_family("", "h", "GAUGE", [mk_metric(gauge=f64(1.0))])],
    [mk_family("m", "h", "SUMMARY", [mk_metric()])], [mk_family("m", "h", "HISTOGRAM", [mk_metric()])],
    [mk_family("m", "é\\\né", "COUNTER", [mk_metric(labels=[("a", "é\\"), ("b", "\\é\"\n")], counter=NAN)])],
    [],
]


def gen_enc(r, tier):
    n = 220 if tier == "quick" else 2400
    out = [dict(fams=f, entry=e, prefill="") for f in ENC_CORPUS for e in ENTRIES]
    for _ in range(n):
        k = r.random()
        nf = r.choice([0, 1, 1, 1, 2, 3])
        fams = [gen_family(r) for _ in range(nf)]
        entry = r.choice(ENTRIES)
        pre = r.choice(PREFILLS) if entry in ("text", "pb", "utf8") else ""
        if entry == "utf8" and pre == "c3a9": pre = "c3a9"
        out.append(dict(fams=fams, entry=entry, prefill=pre))
    return out


def e_line(sc, fail_after):
    return "E %s %d %s %s" % (sc["entry"], fail_after, sc["prefill"] or "-", " ".join(w_list(w_family)(sc["fams"])))


RE_ERES = re.compile(r"^(EOk \[[\d;]*\]|EErr \(?\w+(?: \d+ \d+\))? \[[\d;]*\]|EPanic)$")


def eres_len(o, prefill_hex):
    m = re.match(r"^(?:EOk|EErr \(?\w+(?: \d+ \d+\))?) \[([\d;]*)\]$", o or "")
    if not m: return 0
    n = len([x for x in m.group(1).split(";") if x])
    return max(0, n - len(bytes.fromhex(prefill_hex)))


def c_bytes_hex(h): return "[" + ";".join(str(b) for b in bytes.fromhex(h)) + "]"
ENTRY_COQ = dict(text="EText", utf8="EUtf8", string="EString", pb="EPb")

COQ_HDR_ENC = """Require Import PV.Base.Prelude PV.Base.F64 PV.Base.Utf8 PV.Model.Proto PV.Model.Desc PV.Model.Value PV.Model.Text PV.Model.Pb PV.Model.PanicSites.
Require Import PV.Spec.SpecC17.
Open Scope N_scope.
Set Printing Width 1000000.
Set Printing Depth 1000000.
(* the outcome the models of Model/PanicSites.v give (text: the decision function the three-outcome model is proved equal
   to, C17Facts.text_encode_decision), and the failing-writer model applied to the implementation's own unlimited output.
   Nothing here depends on Proofs/ or gen/: the comparison still runs when a proof obligation is broken. *)
Definition model_kind (c : enc_case) : outcome :=
  match c_entry c with EPb => pb_encode_o (map pb_of_family (c_fams c)) | _ => text_decision (c_fams c) end.
Definition impl_kind (r : eres) : outcome := match r with EOk _ => OutOk | EErr e _ => OutErr e | EPanic => OutPanic O end.
Definition enc_agrees (c : enc_case) : bool :=
  outcome_eqb (model_kind c) (impl_kind (c_full c))
  && match c_limited c with None => true | Some lim => eres_eqb lim (limit_eres (c_budget c) (c_prefill c) (c_full c)) end.
"""


def enc_case_coq(sc, full, budget, lim):
    return "mkEnc %s %s %s %d (%s) %s" % (ENTRY_COQ[sc["entry"]], compact(c_list(c_family)(sc["fams"])), c_bytes_hex(sc["prefill"]), max(budget, 0),
                                          full, "None" if lim is None else "(Some (%s))" % lim)


def run_enc(binp, scs, r):
    """two harness rounds: unlimited writer, then (entries that take a writer) a budget chosen around the produced length"""
    full = run_harness(binp, [e_line(sc, -1) for sc in scs])
    budgets, lim_lines, idx = [], [], []
    for i, sc in enumerate(scs):
        if sc["entry"] in ("text", "pb"):
            n = eres_len(full[i], sc["prefill"])
            b = sc.get("budget")
            if b is None:
                b = r.choice([0, 0, 1, max(0, n // 2), max(0, n - 1), n, n + 1, r.randint(0, n + 2)])
                sc["budget"] = b
            budgets.append(b); lim_lines.append(e_line(sc, b)); idx.append(i)
        else:
            budgets.append(-1)
    lim_out = run_harness(binp, lim_lines)
    lim = [None] * len(scs)
    for j, i in enumerate(idx): lim[i] = lim_out[j] or "EPanic"
    full = [o if (o and RE_ERES.match(o)) else "EPanic" for o in full]
    lim = [None if scs[i]["entry"] not in ("text", "pb") else (l if (l and RE_ERES.match(l)) else "EPanic") for i, l in enumerate(lim)]
    return full, budgets, lim


def big_stack():
    """long byte lists are deeply nested terms: give coqc a large stack"""
    import resource
    try:
        soft, hard = resource.getrlimit(resource.RLIMIT_STACK)
        want = 4 << 30
        resource.setrlimit(resource.RLIMIT_STACK, (want if hard == resource.RLIM_INFINITY else min(want, hard), hard))
    except (ValueError, OSError):
        pass


def eval_enc(tag, scs, full, budgets, lim):
    """evaluates enc_agrees and spec_c17_enc in Coq; returns (corr_failing, spec_failing, errors)"""
    d = os.path.join(BUILD, "cases", tag)
    shutil.rmtree(d, ignore_errors=True); os.makedirs(d)
    n = len(scs)
    if not n: return [], [], []
    nsh = min(NPROC, max(1, (n + 39) // 40))
    per = (n + nsh - 1) // nsh
    files = []
    for k in range(nsh):
        lo, hi = k * per, min(n, (k + 1) * per)
        if lo >= hi: continue
        path = os.path.join(d, "enc_%d.v" % k)
        with open(path, "w") as f:
            f.write(COQ_HDR_ENC)
            f.write("Definition cases : list enc_case := [\n")
            f.write(";\n".join(enc_case_coq(scs[i], full[i], budgets[i], lim[i]) for i in range(lo, hi)))
            f.write("].\nEval vm_compute in failing enc_agrees %d cases.\nEval vm_compute in failing spec_c17_enc %d cases.\n" % (lo, lo))
        files.append(path)
    procs = [subprocess.Popen(["timeout", "900", "coqc", "-noglob", "-Q", COQ, "PV", p], stdout=subprocess.PIPE, stderr=subprocess.STDOUT, text=True,
                              preexec_fn=big_stack) for p in files]
    a, b, errors = [], [], []
    for p, path in zip(procs, files):
        out = p.communicate()[0]
        if p.returncode != 0:
            errors.append((path, out[-3000:])); continue
        ls = parse_nlist(out)
        if len(ls) != 2:
            errors.append((path, "expected two answers\n" + out[-2000:])); continue
        a += ls[0]; b += ls[1]
    return sorted(a), sorted(b), errors


# ====================================================================================================================
# 4. the check
# ====================================================================================================================
CHK = "Definition chk (c : list op * list obs) : bool := match first_diff 0 (run world0 (fst c)) (snd c) with None => true | Some _ => false end."
SPEC_EXTRA = "\nDefinition chk_spec (c : list op * list obs) : bool := spec_c17 (fst c) (snd c).\nEval vm_compute in failing chk_spec LO cases."


class C17(SeqProp):
    pid = "C17"
    spec_import = "Require Import PV.Spec.SpecC17."
    spec_fn = "spec_c17"
    known_fn = None
    rule = ("argument sweeps of every Result-returning API on a debug AND a release build of the harness: (1) Desc::new / Counter / Gauge / Histogram / "
            "*Vec / PullingGauge / custom-collector descriptors with names, help and label names from a pool of nasty strings (empty, non-ASCII, "
            "NUL, 4096 code points, valid-but-for-the-last-character, 40 labels); (2) vectors declaring 0-5 labels with positional requests and "
            "removals of 0-40 values and label maps of 0-40 entries (right names, wrong names, missing names, repeated keys), also through local "
            "vectors; (3) bucket lists with NaN, +-inf, equal / decreasing neighbours, +-0, subnormals, 4096 bounds, on histograms and on the children "
            "of histogram vectors; (4) linear_buckets / exponential_buckets over a float pool (0, negative, NaN, +-inf, subnormal, huge) x counts "
            "0..4096; (5) Registry::new_custom with (in)valid prefix / labels, register twice, unregister absent, clones, a collector with other dimensions under a name whose collectors were unregistered; (6) MetricFamily lists of "
            "every MetricType incl. UNTYPED and SUMMARY, without name, without metrics, with metrics lacking / mismatching the payload of their type, "
            "through TextEncoder::encode / encode_utf8 / encode_to_string and ProtobufEncoder::encode with a writer that never fails and one that "
            "fails after n bytes.  non-trivial = the scenario contains an Err answer (or, for encoders, an Err or a failing writer); distinct = "
            "distinct scenario text")
    assumptions = [
        "the theorems cover the inventoried panic sites (coq/Model/PanicSites.v; the token inventory is re-read from the source on every run); panics that "
        "live in the runtime (allocation failure, a poisoned std Mutex after a foreign panic, user callbacks such as Collector::desc or Write::write) are "
        "covered by the sweep only",
        "sizes are bounded: label maps below usize::MAX entries, strings below isize::MAX bytes, bucket-helper count * 8 <= isize::MAX (explicit hypotheses of "
        "the theorems; the sweep uses at most 4096)",
        "for linear_buckets / exponential_buckets 'invalid' means the documented error conditions (count = 0, width <= 0, start <= 0, factor <= 1 as IEEE "
        "comparisons); NaN / infinite parameters are not refused by the helpers (proved as c17_ex_helpers_let_nan_through; the returned list is refused "
        "by the histogram constructor)",
        "the free functions register / unregister (default registry) are covered by the theorem on Registry::register / unregister and site 14 only; the "
        "harness uses Registry values",
        "the failing writer accepts n bytes through partial writes and then returns an io error; a Write implementation that panics is outside the property",
    ]

    # ---------------------------------------------------------------- generation
    def gen(self, r, tier):
        return [list(s) for s in SEQ_CORPUS] + gen_seq(r, tier)

    def nontrivial(self, ops, o):
        return ("Err" in o) or ("ODesc None" in o) or ("OBuckets None" in o)

    # ---------------------------------------------------------------- one evaluation round of sequential scenarios
    def eval_seq(self, tag, scs, bin_dbg, bin_rel):
        lines = [scen_wire(s) for s in scs]
        outs_d = run_harness(bin_dbg, lines)
        outs_r = run_harness(bin_rel, lines)
        terms = [compact(scen_coq(s)) for s in scs]
        cases = [(t, o if o else "[OHung]") for t, o in zip(terms, outs_d)]
        failing, spec_f, _, errors = compare_cases3(tag, cases, self.spec_import, CHK, SPEC_EXTRA)
        # the release build: only the scenarios whose observations differ from the debug build's need another evaluation
        diff = [i for i in range(len(scs)) if outs_r[i] != outs_d[i]]
        failing_r, spec_r = [], []
        if diff:
            cases_r = [(terms[i], outs_r[i] if outs_r[i] else "[OHung]") for i in diff]
            fr, sr, _, er = compare_cases3(tag + "_release", cases_r, self.spec_import, CHK, SPEC_EXTRA)
            failing_r = [diff[j] for j in fr]; spec_r = [diff[j] for j in sr]; errors += er
        return dict(lines=lines, outs_d=outs_d, outs_r=outs_r, terms=terms, corr=failing, spec=spec_f, corr_r=failing_r, spec_r=spec_r,
                    diff=diff, errors=errors, missing=[i for i, o in enumerate(outs_d) if o is None] + [i for i, o in enumerate(outs_r) if o is None])

    def eval_encoders(self, tag, scs, bin_dbg, bin_rel, r):
        full_d, budgets, lim_d = run_enc(bin_dbg, scs, r)
        full_r, _, lim_r = run_enc(bin_rel, scs, r)            # the budgets chosen in the first round are kept in the scenarios
        corr, spec, errors = eval_enc(tag, scs, full_d, budgets, lim_d)
        diff = [i for i in range(len(scs)) if (full_r[i], lim_r[i]) != (full_d[i], lim_d[i])]
        corr_r, spec_r = [], []
        if diff:
            cr, sr, er = eval_enc(tag + "_release", [scs[i] for i in diff], [full_r[i] for i in diff], [budgets[i] for i in diff], [lim_r[i] for i in diff])
            corr_r = [diff[j] for j in cr]; spec_r = [diff[j] for j in sr]; errors += er
        return dict(full_d=full_d, lim_d=lim_d, full_r=full_r, lim_r=lim_r, budgets=budgets, corr=corr, spec=spec, corr_r=corr_r, spec_r=spec_r,
                    diff=diff, errors=errors)

    # ---------------------------------------------------------------- the check
    def run(self, tier, seed, replay=None):
        try:
            return self.run17(tier, seed, replay)
        finally:
            # a run against a scratch copy (PV_REPO) must not leave its inventory behind as the committed default copy
            if REPO != "/repo" and os.path.isdir("/repo/src"):
                regenerate_inventory("/repo")

    def run17(self, tier, seed, replay=None):
        t0 = time.time()
        pid = self.pid
        print("[%s] tier=%s seed=%d" % (pid, tier, seed))
        big_stack()          # inherited by every coqc this run starts
        # 0. source scan -> coq/gen/PanicInventory.v
        inv, pres, site_lines, changed = regenerate_inventory()
        tokens = sum(sum(t) for _, t, _ in inv if t)
        print("[%s] source scan: %d files, %d panic-capable tokens, %d/%d inventoried sites found%s" % (
            pid, len(inv), tokens, sum(1 for p in pres if p[4] > 0), len(pres), " (gen/PanicInventory.v rewritten)" if changed else ""))
        # 1. proofs
        proof = check_props(pid, ["Spec/SpecC17.vo"])
        print("[%s] proofs: make_ok=%s theorems=%d axioms=%s bad=%s forbidden=%d" % (
            pid, proof["make_ok"], proof["obligations"], proof["axioms"], proof["bad_axioms"], len(proof["forbidden"])))
        if not proof["make_ok"]:
            print(proof["log"][-2500:])
        # 2. harnesses
        ok_d, out_d, bin_dbg = harness_build()
        ok_r, out_r, bin_rel = harness_build(release=True) if ok_d else (False, "", None)
        if not (ok_d and ok_r):
            print((out_d if not ok_d else out_r)[-3000:])
            print("[%s] ERROR: the harness does not build against the repository's working tree" % pid)
            write_evidence(pid, tier, seed, dict(obligations=proof["obligations"], discharged=0, checker_cmd="make Props/%s.vo" % pid,
                                                 trusted_base=TRUSTED, evaluations=0, distinct_nontrivial=0, rule=self.rule, samples=[],
                                                 explanation="harness build failed"), self.assumptions, time.time() - t0, 1)
            return harness_broken(pid, tier, seed, (out_d if not ok_d else out_r))
        spec_vo = os.path.exists(os.path.join(COQ, "Spec", "SpecC17.vo")) and os.path.exists(os.path.join(COQ, "Model", "PanicSites.vo"))
        r = random.Random(seed)
        # 3. scenarios
        if replay:
            rp = json.load(open(replay))
            scs = [de_json(rp["scenario_ops"])] if rp.get("scenario_ops") else []
            encs = [de_json([rp["enc_scenario"]])[0]] if rp.get("enc_scenario") else []
        else:
            scs = self.gen(r, tier)
            encs = gen_enc(r, tier)
        # if the proofs are broken the Coq side cannot be evaluated against the models; the spec still can (it does not depend on them)
        sq = self.eval_seq("C17", scs, bin_dbg, bin_rel) if spec_vo else None
        en = self.eval_encoders("C17_enc", encs, bin_dbg, bin_rel, r) if spec_vo else None
        if not spec_vo:
            print("[%s] ERROR: Spec/SpecC17.vo or Model/PanicSites.vo was not built" % pid)
            # fall back to a textual scan for panics so that a failing input is still reported
            sq, en = self.textual(scs, encs, bin_dbg, bin_rel, r)
        errors = sq["errors"] + en["errors"]
        for p, e in errors[:2]: print("COQ ERROR in", p, e[-1500:])

        nontriv = set()
        for s, o in zip(scs, sq["outs_d"]):
            if o and self.nontrivial(s, o): nontriv.add(hashlib.sha1(scen_wire(s).encode()).hexdigest())
        for i, sc in enumerate(encs):
            if en["full_d"][i].startswith("EErr") or (en["lim_d"][i] or "").startswith("EErr"):
                nontriv.add(hashlib.sha1(json.dumps(to_json([sc]), sort_keys=True).encode()).hexdigest())

        # 4. verdict
        def dump_seq(i, kind, build, broken):
            outs = sq["outs_r"] if build == "release" else sq["outs_d"]
            detail = explain_case(pid, sq["terms"][i], outs[i] or "[OHung]", self.spec_import) if (i is not None and spec_vo) else ""
            payload = dict(property=pid, tier=tier, seed=seed, kind=kind, build=build, scenario_index=i, scenario_ops=to_json(scs[i]),
                           scenario_wire=sq["lines"][i][:20000], impl_obs=(outs[i] or "")[:20000], impl_obs_other_build=((sq["outs_d"] if build == "release" else sq["outs_r"])[i] or "")[:20000],
                           model_vs_impl=detail[-4000:], broken=broken, explanation="replay with: python3 tools/check.py %s --replay <this file>" % pid)
            return write_replay(pid, seed, i, payload)

        def dump_enc(i, kind, build, broken):
            payload = dict(property=pid, tier=tier, seed=seed, kind=kind, build=build, scenario_index=i, enc_scenario=to_json([encs[i]])[0],
                           scenario_wire=[e_line(encs[i], -1)[:20000], e_line(encs[i], en["budgets"][i])[:20000]],
                           impl_obs=dict(debug=[en["full_d"][i][:5000], (en["lim_d"][i] or "")[:5000]], release=[en["full_r"][i][:5000], (en["lim_r"][i] or "")[:5000]]),
                           broken=broken, explanation="replay with: python3 tools/check.py %s --replay <this file>" % pid)
            return write_replay(pid, seed, 100000 + i, payload)

        rc = 0
        proof_broken = not proof["ok"]
        spec_hits = [("seq", i, "debug") for i in sq["spec"]] + [("seq", i, "release") for i in sq["spec_r"]] + \
                    [("enc", i, "debug") for i in en["spec"]] + [("enc", i, "release") for i in en["spec_r"]]
        corr_hits = [("seq", i, "debug") for i in sq["corr"]] + [("seq", i, "release") for i in sq["corr_r"]] + \
                    [("enc", i, "debug") for i in en["corr"]] + [("enc", i, "release") for i in en["corr_r"]]
        missing = sq.get("missing", [])
        if spec_hits:
            k, i, b = spec_hits[0]
            what = "spec_c17 is false on the implementation's observations (a panic / hang, or invalid arguments answered with Ok)" if k == "seq" else \
                   "spec_c17_enc is false on the implementation's answer (a panic, unsupported input not reported as Err, or the failing-writer law)"
            p = dump_seq(i, "failing-input", b, what) if k == "seq" else dump_enc(i, "failing-input", b, what)
            print("VIOLATION property=%s replay=%s" % (pid, p)); rc = 1
        elif corr_hits or proof_broken or missing:
            found = None
            if not replay and spec_vo:
                found = self.search17(bin_dbg, bin_rel, seed, tier)
            if found:
                p = write_replay(pid, seed, 0, found)
                print("VIOLATION property=%s replay=%s" % (pid, p)); rc = 1
            else:
                if corr_hits:
                    k, i, b = corr_hits[0]
                    what = "correspondence differs on this scenario (%s build): %s" % (b, "World.run vs the implementation's observations" if k == "seq" else
                                                                                     "outcome model of Model/PanicSites.v / failing-writer model vs the implementation's answer")
                    p = dump_seq(i, "no-failing-input-found", b, what) if k == "seq" else dump_enc(i, "no-failing-input-found", b, what)
                elif missing:
                    p = dump_seq(missing[0], "no-failing-input-found", "debug", "the implementation produced no observation for this scenario (crash / hang)")
                else:
                    inv_diff = self.inventory_diff(inv, pres)
                    payload = dict(property=pid, tier=tier, seed=seed, kind="no-failing-input-found", scenario_ops=None,
                                   broken="proof obligation no longer checks: %s; bad axioms %s; forbidden %s" % (proof.get("failed_at"), proof["bad_axioms"], proof["forbidden"][:3]),
                                   inventory_difference=inv_diff,
                                   explanation="the panic-token inventory of the source differs from coq/Model/PanicSites.v (or another obligation broke); "
                                               "the sweep found no input that panics or is answered wrongly")
                    p = write_replay(pid, seed, 0, payload)
                print("VIOLATION property=%s replay=%s no-failing-input-found" % (pid, p)); rc = 1
        if errors and rc == 0:
            print("[%s] ERROR: Coq could not evaluate some case files" % pid)
            rc = 2
        n_eval = 2 * len(scs) + sum(2 if l is None else 4 for l in en["lim_d"])
        dist = self.dist(scs, sq["outs_d"])
        dist["encoder"] = self.enc_dist(encs, en)
        dist["release_differs_from_debug"] = dict(seq=len(sq["diff"]), enc=len(en["diff"]))
        cov = dict(obligations=proof["obligations"], discharged=proof["discharged"],
                   checker_cmd="make -C coq Props/%s.vo Spec/SpecC17.vo (coqc 8.16.1, full .vo; gen/PanicInventory.v regenerated from the source first) + Print Assumptions allowlist + forbidden-word scan" % pid,
                   trusted_base=TRUSTED + ["tools/p_C17.py source scanner (token counting per function)",
                                           "axioms used: %s" % (", ".join(proof["axioms"]) or "none (closed under the global context)")],
                   theorems=proof["theorems"], evaluations=n_eval, scenarios=dict(seq=len(scs), enc=len(encs)), distinct_nontrivial=len(nontriv), rule=self.rule,
                   samples=[sq["lines"][i][:600] + " => " + (sq["outs_d"][i] or "")[:600] for i in range(min(3, len(scs)))] +
                           [e_line(encs[i], en["budgets"][i])[:400] + " => " + (en["lim_d"][i] or en["full_d"][i])[:300] for i in range(min(3, len(encs)))],
                   traces_validated_against_impl=len(scs) + len(encs) - len(set(i for k, i, b in corr_hits)) - len(missing),
                   correspondence_mismatches=len(corr_hits), spec_failures=len(spec_hits), known_finding_cases=0,
                   source_inventory=dict(files=len(inv), tokens=tokens, sites_listed=len(pres), sites_found=sum(1 for p in pres if p[4] > 0),
                                         site_lines={str(sid): w for sid, w in site_lines}),
                   builds=["debug (overflow checks on)", "release"], input_distribution=dist, exhaustive=False)
        write_evidence(pid, tier, seed, cov, self.assumptions, time.time() - t0, 1 if rc == 1 else 0)
        print("[%s] scenarios=%d+%d runs=%d nontrivial=%d mismatches=%d spec_failures=%d release_differs=%d+%d wall=%.1fs rc=%d" % (
            pid, len(scs), len(encs), n_eval, len(nontriv), len(corr_hits), len(spec_hits), len(sq["diff"]), len(en["diff"]), time.time() - t0, rc))
        return rc

    # ---------------------------------------------------------------- helpers of the verdict
    def enc_dist(self, encs, en):
        c = collections.Counter()
        for i, sc in enumerate(encs):
            c["entry " + sc["entry"]] += 1
            c["full " + en["full_d"][i].split(" [")[0]] += 1
            if en["lim_d"][i] is not None: c["limited " + en["lim_d"][i].split(" [")[0]] += 1
            for f in sc["fams"]:
                c["type " + f["type"]] += 1
                if not f["name"]: c["no name"] += 1
                if not f["metrics"]: c["no metrics"] += 1
                for m in f["metrics"]:
                    key = dict(COUNTER="counter", GAUGE="gauge", UNTYPED="untyped", HISTOGRAM="hist", SUMMARY="summary")[f["type"]]
                    if m[key] is None: c["metric lacks the payload of its type"] += 1
        return dict(c)

    def inventory_diff(self, inv, pres):
        """what the scanner saw that the committed model inventory does not expect (best effort: compares with the text of PanicSites.v)"""
        try:
            txt = open(os.path.join(COQ, "Model", "PanicSites.v")).read()
        except OSError:
            return None
        out = []
        for f, total, fns in inv:
            m = re.search(r'\("%s",\s*\[([\d;]*)\],\s*\[(.*?)\]\);?\n' % re.escape(f), txt, re.S)
            exp_total = [int(x) for x in m.group(1).split(";")] if m else None
            if total != exp_total:
                out.append(dict(file=f, tokens_now=total, tokens_expected=exp_total, functions_now=fns))
        for sid, f, fn, sn, n in pres:
            m = re.search(r'mkSite %d "[^"]*" \d+ "[^"]*" \w+ \w+ "(?:[^"]|"")*" (\d+)' % sid, txt)
            if m and int(m.group(1)) != n:
                out.append(dict(site=sid, file=f, function=fn, snippet=sn, occurrences_now=n, expected=int(m.group(1))))
        return out

    def textual(self, scs, encs, bin_dbg, bin_rel, r):
        """without the compiled spec: run everything and flag panics / hangs by text (used only when the Coq side does not build)"""
        lines = [scen_wire(s) for s in scs]
        od, orr = run_harness(bin_dbg, lines), run_harness(bin_rel, lines)
        bad = lambda o: (o is None) or ("OPanic" in o) or ("OHung" in o)
        sq = dict(lines=lines, outs_d=od, outs_r=orr, terms=[""] * len(scs), corr=[], spec=[i for i, o in enumerate(od) if bad(o)],
                  corr_r=[], spec_r=[i for i, o in enumerate(orr) if bad(o)], diff=[], errors=[], missing=[])
        fd, budgets, ld = run_enc(bin_dbg, encs, r)
        fr, _, lr = run_enc(bin_rel, encs, r)
        en = dict(full_d=fd, lim_d=ld, full_r=fr, lim_r=lr, budgets=budgets, corr=[], corr_r=[], diff=[], errors=[],
                  spec=[i for i in range(len(encs)) if fd[i] == "EPanic" or ld[i] == "EPanic"],
                  spec_r=[i for i in range(len(encs)) if fr[i] == "EPanic" or lr[i] == "EPanic"])
        return sq, en

    def search17(self, bin_dbg, bin_rel, seed, tier, budget_s=60):
        """looks for an input on which the executable statements fail on the implementation (both builds, both scenario kinds)"""
        t0 = time.time()
        k = 0
        while time.time() - t0 < budget_s:
            k += 1
            r = random.Random(seed * 1000 + k)
            scs = gen_seq(r, "quick")
            sq = self.eval_seq("C17_search", scs, bin_dbg, bin_rel)
            hits = [(i, "debug") for i in sq["spec"]] + [(i, "release") for i in sq["spec_r"]]
            if hits:
                i, b = hits[0]
                return dict(property=self.pid, tier=tier, seed=seed, kind="failing-input", build=b, scenario_ops=to_json(scs[i]), scenario_wire=sq["lines"][i][:20000],
                            impl_obs=((sq["outs_r"] if b == "release" else sq["outs_d"])[i] or "")[:20000],
                            broken="spec_c17 false on the implementation (found by widened search, round %d)" % k)
            encs = gen_enc(r, "quick")
            en = self.eval_encoders("C17_enc_search", encs, bin_dbg, bin_rel, r)
            hits = [(i, "debug") for i in en["spec"]] + [(i, "release") for i in en["spec_r"]]
            if hits:
                i, b = hits[0]
                return dict(property=self.pid, tier=tier, seed=seed, kind="failing-input", build=b, enc_scenario=to_json([encs[i]])[0],
                            scenario_wire=[e_line(encs[i], -1)[:20000]], impl_obs=[en["full_d"][i][:5000], en["full_r"][i][:5000]],
                            broken="spec_c17_enc false on the implementation (found by widened search, round %d)" % k)
        return None


if __name__ == "__main__":
    inv, pres, lines, changed = regenerate_inventory()
    print("regenerated" if changed else "unchanged", GEN_PATH)
    for f, total, fns in inv: print(f, total, fns)
    for p, l in zip(pres, lines): print(p, l[1])
