#!/bin/bash
# "Check it as a stranger would": clean full .vo build of a pristine copy of coq/ (committed files only),
# forbidden-word scan, then coqchk -o over every compiled library (independent checker; lists all axioms).
# Usage: bash tools/audit.sh [outdir]   (takes several minutes; not part of any registered check)
set -e
V="$(cd "$(dirname "$0")/.." && pwd)"
OUT="${1:-$V/build/audit}"
rm -rf "$OUT"; mkdir -p "$OUT"
( cd "$V" && git archive HEAD coq ) | tar -x -C "$OUT"
cd "$OUT/coq"
echo "== forbidden words"; grep -rnE '\b(Admitted|admit|Axiom|Parameter|Conjecture|Unset Guard|bypass_check|Admit Obligations)\b' --include=*.v . || echo "none"
coq_makefile -f _CoqProject -o Makefile > /dev/null
echo "== clean build"; /usr/bin/time -f "build wall %e s" timeout 3000 make -j16 COQC="timeout 900 coqc" > build.log 2>&1 || { tail -30 build.log; echo BUILD FAILED; exit 1; }
grep -c "Closed under the global context" build.log | sed 's/^/closed-under-global-context count: /'
echo "== axioms printed by Print Assumptions (distinct)"; grep -E "^[A-Za-z_.0-9]+ *:" build.log | grep -vE "^(Fetching|File|Warning)" | awk '{print $1}' | sort | uniq -c | sort -rn | head -60
echo "== coqchk"; MODS=$(find . -name '*.vo' | sed 's|^\./||; s|\.vo$||; s|/|.|g; s|^|PV.|' | tr '\n' ' ')
/usr/bin/time -f "coqchk wall %e s" timeout 6000 coqchk -silent -o -Q . PV $MODS > coqchk.log 2>&1 || { tail -30 coqchk.log; echo COQCHK FAILED; exit 1; }
tail -60 coqchk.log
