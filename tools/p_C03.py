"""C03  Histograms conserve observations across any sequence of collects and flushes.

Same flow as C02 (p_C02.HistProp: regenerated source orderings, proofs, harness with the sync shim, trace validation
against the executable model inside Coq, executable spec on the call / return markers).  Scenarios differ:
 - at least three collections per scenario, usually spread over two collector threads (the two internal buffers are
   reused with residue carried forward: the third and later collections are what the two-collect tests cannot reach);
 - observers mostly flush multi-observation batches from local histograms, mixed with direct observations;
 - one collector thread ends with a final phase `collect, get_sample_count, get_sample_sum`; the schedule drives every
   other thread to completion first, so that in most scenarios this phase runs alone (the spec decides per call, from
   the trace, whether it did) and must describe exactly all observations;
 - every call runs under the harness watchdog: a collector that spins for ever (ELivelock / EStuck / EDeadlock in the
   trace) makes the spec false, i.e. is reported as a violation with the schedule so far."""
from p_C02 import *

BOUND_POOL_C03 = [1, 4, 64, 1024, 2 ** 20, 3, 100, 5000, 2 ** 33, 0, -1, -4, -64, -1000, -2 ** 20]


class C03(HistProp):
    pid = "C03"
    extra_targets = ["Spec/SpecC02.vo", "Spec/SpecC03.vo"]
    imports = "Require Import PV.Model.HistConc PV.Model.HistExec PV.Spec.SpecC02 PV.Spec.SpecC03."
    spec_def = "Definition chk_spec (c : list Z * list event) : bool := spec_c03 (fst c) (snd c)."
    min_collections = 3
    rule = ("scenario = real Histogram with 1-3 integer buckets, 1-3 observer threads (mostly LocalHistogram flushes of 2-4 observations, some direct "
            "observes; all values +-2^k with distinct exponents, bounds may be negative), >= 3 collections over 1-2 collector threads, one of which ends with collect, "
            "get_sample_count, get_sample_sum after the schedule has driven the other threads to completion; 30% of the scenarios are negative-sum histories (running sum negative, or crossing "
            "zero, at an early collection, then further observations, collections and quiescent reads, run mostly call after call); schedules as for C02 (targeted "
            "preemption at claim / publish / flip, uniform, bursty, priority; spurious compare-exchange failures); thorough adds every schedule "
            "with <= 3 context switches of a flush against three collections.  non-trivial = at least three collections returned, a collection "
            "overlapped an observation in flight (flip inside a claim..publish window, spinning wait loop, or claim between flip and end of drain), "
            "and no thread hung; distinct = distinct scenario line")
    assumptions = ["operational reordering model (intra-call reordering constrained by release / acquire), not the axiomatic C++20 / Rust memory model",
                   "observation values are integers (+-2^k, distinct exponents): binary64 sums are exact and equal the model's Z sums",
                   "liveness of the wait loop (a weak compare-exchange eventually stops failing spuriously, fair scheduler) is runtime behaviour: "
                   "proved is that the exit step is enabled iff the in-flight observations have published and stays enabled; the harness "
                   "watchdog reports a collector that does not return within 4000 scheduled steps",
                   "x86-64 host; sync shim, scheduler and harness are tested code, not verified"]

    def pick_bounds(self, r):
        nb = r.choice([1, 2, 2, 3])
        return sorted(r.sample(BOUND_POOL_C03, nb))

    def programs(self, r, nb):
        self._negsum = r.random() < 0.3
        if self._negsum:
            return self.programs_negsum(r, nb)
        nobs = r.choice([1, 2, 2, 3])
        exps = list(range(0, 36)); r.shuffle(exps)
        pneg = r.choice([0.0, 0.3, 0.5, 0.8])     # values are +-2^k with distinct exponents

        def val():
            return float(2 ** exps.pop()) * (-1.0 if r.random() < pneg else 1.0)
        progs, roles = [], []
        for _ in range(nobs):
            p = []
            for _ in range(r.randint(1, 3)):
                if r.random() < 0.65:
                    p.append(("batch", [val() for _ in range(r.randint(2, 4))]))
                else:
                    p.append(("obs", val()))
            progs.append(p); roles.append("o")
        two = r.random() < 0.75
        a = r.randint(1, 3) if two else r.randint(2, 4)
        fin = [("collect",)] + r.choice([[("scount",), ("ssum",)], [("ssum",), ("scount",)], [("scount",)], [("ssum",)]])
        progs.append([("collect",)] * a + fin); roles.append("c")
        if two:
            b = r.randint(max(1, 2 - a), 3)
            progs.append([("collect",)] * b); roles.append("c")
        self._final = nobs                     # index of the thread with the final phase
        self._concurrent_ops = a
        return progs, roles

    def programs_negsum(self, r, nb):
        """histories whose running sum is negative (or crosses zero) at an early collection, followed by later collections and
        quiescent reads: what was drained with a negative sum must still be there afterwards"""
        exps = sorted(r.sample(range(0, 30), 8))
        k = r.random()
        if k < 0.4:
            # negative at the first collection: -big (alone or in a batch with small positives), later positives
            first = ("obs", -float(2 ** exps[6])) if r.random() < 0.5 else ("batch", [float(2 ** exps[0]), -float(2 ** exps[6]), float(2 ** exps[1])])
            rest = [("obs", float(2 ** exps[2])), ("batch", [float(2 ** exps[3]), -float(2 ** exps[4])])][:r.randint(1, 2)]
        elif k < 0.8:
            # zero crossing: +a, collect, -b (b > a), collect, +c, collect
            first = ("obs", float(2 ** exps[3]))
            rest = [("obs", -float(2 ** exps[5])), ("obs", float(2 ** exps[0]))]
        else:
            # everything negative
            first = ("batch", [-float(2 ** exps[1]), -float(2 ** exps[4])])
            rest = [("obs", -float(2 ** exps[2])), ("obs", -float(2 ** exps[7]))][:r.randint(1, 2)]
        obs = [first] + rest
        ncol = len(obs) + r.randint(0, 1)
        fin = r.choice([[("scount",), ("ssum",)], [("ssum",), ("scount",)], [("ssum",)]])
        progs = [obs, [("collect",)] * max(3, ncol) + fin]
        roles = ["o", "c"]
        if r.random() < 0.3:
            progs.append([("collect",)]); roles.append("c")
        self._final = 1
        self._concurrent_ops = max(3, ncol)
        return progs, roles

    def schedule_negsum(self, r, progs, roles, nb):
        """observation i runs to completion, then collection i runs (mostly) to completion, ...; a few preemptions and spurious failures"""
        segs = []
        ncol = self._concurrent_ops
        for i in range(max(len(progs[0]), ncol)):
            if i < len(progs[0]):
                segs.append((0, step_estimate(progs[0][i], nb) + r.choice([0, 0, 0, -2, -3])))
            if i < ncol:
                segs.append((1, 11 + 2 * nb + r.choice([0, 0, 1, 3, -4])))
            if len(progs) > 2 and r.random() < 0.4:
                segs.append((2, r.randint(1, 14)))
        segs += [(0, 12), (1, 40)]
        return segs_text(r, segs, spurious=0.02), "negative-sum"

    def schedule(self, r, progs, roles, nb):
        if self._negsum:
            return self.schedule_negsum(r, progs, roles, nb)
        F = self._final
        total = sum(step_estimate(o, nb) for p in progs for o in p)
        k = r.random()
        if k < 0.55:
            toks = segs_text(r, targeted_segments(r, progs, nb, roles)).split(); kind = "targeted"
        else:
            kind = r.choice(["uniform", "bursty", "pct"])
            toks = gen_schedule(r, len(progs), r.randint(total // 3, total), kind).split()
        # the final-phase thread must still be inside its concurrent collections when the prefix ends
        budget = max(0, self._concurrent_ops * (11 + 2 * nb) - 16)
        out, g = [], collections.Counter()
        for tk in toks:
            t = int(tk.rstrip("s"))
            if t == F and g[F] >= budget: continue
            g[t] += 1; out.append(tk)
        # drive every other thread to completion, then the final phase
        others = [t for t in range(len(progs)) if t != F]; r.shuffle(others)
        for t in others:
            need = sum(step_estimate(o, nb) for o in progs[t])
            out += [str(t)] * (max(0, need - g[t]) + 3)
        out += [str(F)] * 12
        return " ".join(out), kind

    def exhaustive_configs(self):
        b = ("batch", [1.0, 2.0, 8.0])
        three = [("collect",)] * 3
        return self.exhaustive([([2], [[b], three]), ([4], [[("obs", 1.0), ("batch", [2.0, 4.0])], three])], 3, 9)

    def n_random(self, tier):
        return 500 if tier == "quick" else 6000

    def nontrivial(self, sc, out):
        self.nontrivial_and_stats(sc, out)
        return HistProp.nontrivial(self, sc, out)
