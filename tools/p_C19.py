"""C19  static-metric accessors address exactly the declared label values.

Declarations are generated from the property's grammar (1-4 labels x 1-4 values, inline value
lists / label_enum references / renamed values, the eight metric types accepted by
make_static_metric! and the three accepted by make_auto_flush_static_metric!), rendered into
one Rust file per batch of ~16 declarations in a generated crate under build/static-harness/
(dependencies by path on the repository under test), compiled with the REAL proc macros and run.
Every accessor path of every declaration (fields, get(enum), try_get(str), mixtures) is
exercised with its own power of two on a fresh backing vector whose label-name order is a
permutation of the declared order; local / auto-flush forms are flushed; the children of the
vector are printed as Gallina data.  Coq evaluates Model/Static.v on the same rounds and
compares (c19_match), and evaluates Spec/SpecC19.v (written from the property text) on the
implementation's output."""
import hashlib, itertools, json, os, random, re, shutil, subprocess, sys, time
from pvlib import *
import props

PID = "C19"
CHUNK = 48                      # updates per round: amounts 2^0 .. 2^47 stay exact in an f64
DECLS_PER_BATCH = 16

IDENTS = ["a", "b", "c", "d", "foo", "bar", "baz", "post", "get", "put", "delete", "flush", "from", "try_get", "http1", "http2",
          "x1", "y_2", "Abc", "_u", "ok", "err", "v0", "v1", "v2", "v3", "local", "with", "new", "collect", "Some9", "r2d2"]
KEYS = ["k0", "k1", "k2", "k3", "method", "product", "version", "status", "zone", "A1", "_u", "le_", "code"]
STRINGS = ["HTTP/1", "HTTP/2", "post_name", "", " ", "a b", "ü", "名前", "x\"y", "back\\slash", "new\nline", "{}", "a", "b",
           "foo", "FOO", "0", "get_name", "\U0001f600"]
STATIC_TYPES = ["Counter", "IntCounter", "Gauge", "IntGauge", "Histogram", "LocalCounter", "LocalIntCounter", "LocalHistogram"]
AUTO_TYPES = ["LocalCounter", "LocalIntCounter", "LocalHistogram"]
VEC_OF = {"Counter": "CounterVec", "IntCounter": "IntCounterVec", "Gauge": "GaugeVec", "IntGauge": "IntGaugeVec", "Histogram": "HistogramVec",
          "LocalCounter": "CounterVec", "LocalIntCounter": "IntCounterVec", "LocalHistogram": "HistogramVec"}


def is_local(t): return t.startswith("Local")
def is_hist(t): return t.endswith("Histogram")


# ------------------------------------------------------------------------------------ generation
def gen_values(r, nmax=4):
    n = r.randint(1, nmax)
    ids = r.sample(IDENTS, n)
    vals = []
    for i in ids:
        if r.random() < 0.4:
            k = r.random()
            if k < 0.4: s = r.choice(STRINGS)
            elif k < 0.7: s = r.choice(ids)                   # another value's identifier (swaps, duplicates)
            else: s = r.choice(IDENTS)
            vals.append((i, s))
        else:
            vals.append((i, i))
    return vals


def gen_group(r, gi, shape=None):
    """one macro invocation: label_enums followed by one or two structs of the same form"""
    form = "auto" if r.random() < 0.35 else "static"
    enums = [("E%d_%d" % (gi, j), gen_values(r)) for j in range(r.randint(0, 3))]
    decls = []
    for di in range(2 if r.random() < 0.25 else 1):
        nl = shape if shape else r.randint(1, 4)
        keys = r.sample(KEYS, nl)
        labels = []
        for k in keys:
            if enums and r.random() < 0.45:
                labels.append((k, ("enum", r.choice(enums)[0])))
            else:
                labels.append((k, ("inline", gen_values(r))))
        mtype = r.choice(AUTO_TYPES if form == "auto" else STATIC_TYPES)
        decls.append(dict(name="S%d_%dv" % (gi, di), form=form, mtype=mtype, labels=labels))
    return dict(gi=gi, form=form, enums=enums, decls=decls, pub=r.random() < 0.8)


def values_of(group, label):
    kind, x = label[1]
    if kind == "inline": return x
    return [e for e in group["enums"] if e[0] == x][-1][1]


def all_paths(r, group, d):
    """every leaf: the field path, the get path (get wherever the label is an enum), the try_get path (static) and a random mixture"""
    labs = d["labels"]
    vals = [values_of(group, l) for l in labs]
    en = [l[1][0] == "enum" for l in labs]
    static = d["form"] == "static"
    out, seen = [], set()
    def add(p):
        t = tuple(p)
        if t not in seen:
            seen.add(t); out.append(p)
    for tup in itertools.product(*vals):
        add([("f", v[0]) for v in tup])
        if any(en):
            add([("g", v[0]) if e else ("f", v[0]) for v, e in zip(tup, en)])
        if static:
            add([("t", v[1]) for v in tup])
        mix = []
        for v, e in zip(tup, en):
            kinds = ["f"] + (["g"] if e else []) + (["t"] if static else [])
            k = r.choice(kinds)
            mix.append((k, v[1] if k == "t" else v[0]))
        add(mix)
    return out


def gen_probes(r, group, d):
    if d["form"] != "static": return []
    labs = d["labels"]
    out = []
    for _ in range(r.randint(3, 6)):
        depth = r.randrange(len(labs))
        prefix = [("f", r.choice(values_of(group, labs[i]))[0]) for i in range(depth)]
        here = values_of(group, labs[depth])
        k = r.random()
        if k < 0.35: s = r.choice(here)[0]                                     # an identifier (undeclared as a string when renamed)
        elif k < 0.5: s = r.choice(here)[1]                                    # a declared string
        elif k < 0.65: s = r.choice(here)[1] + "x"
        elif k < 0.8: s = r.choice(values_of(group, r.choice(labs)))[1]        # a string of (maybe) another level
        else: s = r.choice(STRINGS)
        out.append((prefix, s))
    return out


def perms_for(r, n, tier):
    ident = list(range(n))
    if tier == "thorough" and n <= 3:
        return [list(p) for p in itertools.permutations(ident)]
    if n == 1: return [ident]
    ps = []
    for _ in range(2 if tier == "thorough" else 1):
        p = ident[:]
        r.shuffle(p)
        if p == ident and r.random() < 0.8:
            p = ident[1:] + ident[:1]
        ps.append(p)
    return ps


def gen_rounds(r, group, d, tier):
    paths = all_paths(r, group, d)
    chunks = [paths[i:i + CHUNK] for i in range(0, len(paths), CHUNK)]
    keys = [l[0] for l in d["labels"]]
    rounds = []
    for ch in chunks:
        for perm in perms_for(r, len(keys), tier):
            ops = []
            auto = d["form"] == "auto" and r.random() < 0.5
            for k, p in enumerate(ch):
                ops.append(("upd", p, k))
                if is_local(d["mtype"]):
                    if d["form"] == "static" and r.random() < 0.15:
                        ops.append(("flush", p[:r.randint(0, len(p))]))
                    elif d["form"] == "auto" and r.random() < 0.05:
                        ops.append(("flush", []))
            if is_local(d["mtype"]):
                ops.append(("flush", []))
            rounds.append(dict(names=[keys[i] for i in perm], auto=auto, ops=ops, probes=gen_probes(r, group, d)))
    return rounds


def gen_batch(r, bi, tier, n=DECLS_PER_BATCH):
    groups = []
    nd = 0
    gi = 0
    while nd < n:
        # make sure the corners of the grammar occur: the first groups of a batch get the label counts 1..4
        g = gen_group(r, gi, shape=(gi % 4) + 1 if gi < 4 else None)
        for d in g["decls"]:
            d["rounds"] = gen_rounds(r, g, d, tier)
        groups.append(g); nd += len(g["decls"]); gi += 1
    return groups


# ------------------------------------------------------------------------------------ rendering: Rust
def rust_str(s):
    out = ['"']
    for ch in s:
        if ch.isascii() and (ch.isalnum() or ch in " _-/.:{}"):
            out.append(ch)
        else:
            out.append("\\u{%x}" % ord(ch))
    out.append('"')
    return "".join(out)


def rust_vals(vals):
    return ", ".join(i if i == s else "%s: %s" % (i, rust_str(s)) for i, s in vals)


def rust_group(g):
    pub = "pub " if g["pub"] else ""
    mac = "make_auto_flush_static_metric" if g["form"] == "auto" else "make_static_metric"
    lines = ["%s! {" % mac]
    for name, vals in g["enums"]:
        lines.append("    %slabel_enum %s { %s }" % (pub, name, rust_vals(vals)))
    for d in g["decls"]:
        lines.append("    %sstruct %s: %s {" % (pub, d["name"], d["mtype"]))
        for key, (kind, x) in d["labels"]:
            lines.append("        %s => %s," % (rust_str(key), x if kind == "enum" else "{ %s }" % rust_vals(x)))
        lines.append("    }")
    lines.append("}")
    return "\n".join(lines)


def rust_path(group, d, p):
    out = []
    for (k, x), lab in zip(p, d["labels"]):
        if k == "f": out.append("." + x)
        elif k == "g": out.append(".get(%s::%s)" % (lab[1][1], x))
        else: out.append(".try_get(%s).unwrap()" % rust_str(x))
    return "".join(out)


def rust_update(mtype, k):
    if mtype in ("IntCounter", "LocalIntCounter"): return ".inc_by(1u64 << %d)" % k
    if mtype in ("Counter", "LocalCounter"): return ".inc_by((1u64 << %d) as f64)" % k
    if mtype == "Gauge": return ".add((1u64 << %d) as f64)" % k
    if mtype == "IntGauge": return ".add(1i64 << %d)" % k
    return ".observe((1u64 << %d) as f64)" % k


def rust_round(group, d, rd, cid):
    vt = VEC_OF[d["mtype"]]
    opts = "HistogramOpts::new(\"m\", \"h\")" if is_hist(d["mtype"]) else "Opts::new(\"m\", \"h\")"
    names = ", ".join(rust_str(n) for n in rd["names"])
    pre, body = [], []
    if d["form"] == "static":
        body.append("    let vec = %s::new(%s, &[%s]).unwrap();" % (vt, opts, names))
        body.append("    let s = %s::from(&vec);" % d["name"])
        vref = "&vec"
    else:
        pre.append("static V%d: LazyLock<%s> = LazyLock::new(|| %s::new(%s, &[%s]).unwrap());" % (cid, vt, vt, opts, names))
        dur = "std::time::Duration::from_millis(0)" if rd["auto"] else "std::time::Duration::from_secs(3600)"
        body.append("    let s: %s = auto_flush_from!(V%d, %s, %s);" % (d["name"], cid, d["name"], dur))
        vref = "&*V%d" % cid
    for op in rd["ops"]:
        if op[0] == "upd":
            body.append("    s%s%s;" % (rust_path(group, d, op[1]), rust_update(d["mtype"], op[2])))
        else:
            body.append("    s%s.flush();" % rust_path(group, d, op[1]))
    body.append("    let mut pr: Vec<bool> = Vec::new();")
    for prefix, s in rd["probes"]:
        body.append("    pr.push(s%s.try_get(%s).is_none());" % (rust_path(group, d, prefix), rust_str(s)))
    body.append("    dump(Collector::collect(%s), pr)" % vref)
    return "\n".join(pre + ["fn r%d() -> String {" % cid] + body + ["}"])


RUST_HDR = r'''// generated by tools/p_C19.py - do not edit
#![allow(warnings)]
use prometheus::core::Collector;
use prometheus::*;
use prometheus_static_metric::{auto_flush_from, make_auto_flush_static_metric, make_static_metric};
use std::sync::LazyLock;

fn gstr(s: &str) -> String {
    let v: Vec<String> = s.chars().map(|c| (c as u32).to_string()).collect();
    format!("[{}]", v.join(";"))
}
fn whole(v: f64) -> u64 {
    if v.is_finite() && v >= 0.0 && v < 9.0e15 && (v as u64) as f64 == v { v as u64 } else { u64::MAX }
}
fn dump(fams: Vec<prometheus::proto::MetricFamily>, pr: Vec<bool>) -> String {
    let mut out: Vec<String> = Vec::new();
    for f in fams.iter() {
        for m in f.get_metric() {
            let labels: Vec<String> = m.get_label().iter().map(|l| format!("({},{})", gstr(l.get_name()), gstr(l.get_value()))).collect();
            let (v, c) = match f.get_field_type() {
                prometheus::proto::MetricType::COUNTER => (m.get_counter().get_value(), 0),
                prometheus::proto::MetricType::GAUGE => (m.get_gauge().get_value(), 0),
                prometheus::proto::MetricType::HISTOGRAM => (m.get_histogram().get_sample_sum(), m.get_histogram().get_sample_count()),
                _ => (f64::NAN, 0),
            };
            out.push(format!("([{}],{},{})", labels.join(";"), whole(v), c));
        }
    }
    out.sort();
    let prs: Vec<&str> = pr.iter().map(|b| if *b { "true" } else { "false" }).collect();
    format!("Some ([{}],[{}])", out.join(";"), prs.join(";"))
}
'''


def rust_batch(groups, only=None):
    """returns (source, [(group, decl, round)] in case order)"""
    parts = [RUST_HDR]
    cases = []
    for g in groups:
        parts.append(rust_group(g))
    fns = []
    for g in groups:
        for d in g["decls"]:
            for rd in d["rounds"]:
                cid = len(cases)
                cases.append((g, d, rd))
                fns.append(rust_round(g, d, rd, cid))
    parts += fns
    main = ["fn main() {", "    std::panic::set_hook(Box::new(|_| {}));",
            "    let fs: Vec<fn() -> String> = vec![%s];" % ", ".join("r%d" % i for i in range(len(cases))),
            "    for (i, f) in fs.iter().enumerate() {",
            "        let o = std::panic::catch_unwind(*f).unwrap_or_else(|_| \"None\".to_string());",
            "        println!(\"R {} {}\", i, o);", "    }", "}"]
    parts.append("\n".join(main))
    return "\n\n".join(parts) + "\n", cases


# ------------------------------------------------------------------------------------ rendering: Gallina
def c_vdef(v): return "(mkV %s %s)" % (c_str(v[0]), c_str(v[1]))
def c_vdefs(vs): return "[" + ";".join(c_vdef(v) for v in vs) + "]"
TY_COQ = {"Counter": "TCounter", "IntCounter": "TIntCounter", "Gauge": "TGauge", "IntGauge": "TIntGauge", "Histogram": "THistogram",
          "LocalCounter": "TLocalCounter", "LocalIntCounter": "TLocalIntCounter", "LocalHistogram": "TLocalHistogram"}


def coq_decl(g, d):
    enums = "[" + ";".join("mkE %s %s" % (c_str(n), c_vdefs(vs)) for n, vs in g["enums"]) + "]"
    labels = "[" + ";".join("mkL %s (%s)" % (c_str(k), ("LEnum %s" % c_str(x)) if kind == "enum" else ("LInline %s" % c_vdefs(x)))
                            for k, (kind, x) in d["labels"]) + "]"
    return "(mkDecl %s %s %s %s)" % ("FAuto" if d["form"] == "auto" else "FStatic", enums, TY_COQ[d["mtype"]], labels)


def coq_path(p):
    return "[" + ";".join("%s %s" % ({"f": "SField", "g": "SGet", "t": "STry"}[k], c_str(x)) for k, x in p) + "]"


def coq_case(g, d, rd):
    ops = "[" + ";".join(("OUpd %s %d" % (coq_path(o[1]), 1 << o[2])) if o[0] == "upd" else ("OFlush %s" % coq_path(o[1])) for o in rd["ops"]) + "]"
    probes = "[" + ";".join("(%s,%s)" % (coq_path(p), c_str(s)) for p, s in rd["probes"]) + "]"
    return "(mkCase %s %s %s %s %s)" % (coq_decl(g, d), c_strs(rd["names"]), "true" if rd["auto"] else "false", ops, probes)


CASE_HDR = """Require Import PV.Base.Prelude PV.Model.Proto PV.Model.Value PV.Model.Static PV.Spec.SpecC19 PV.Proofs.C19Spec.
Open Scope N_scope.
Set Printing Width 1000000.
Set Printing Depth 1000000.
"""


def coq_compare(tag, cases):
    """cases: list of (case_term, implobs_term); returns (mismatching, spec_failing, errors)"""
    d = os.path.join(BUILD, "cases", tag)
    shutil.rmtree(d, ignore_errors=True); os.makedirs(d)
    n = len(cases)
    nsh = min(NPROC, max(1, (n + 7) // 8))
    per = (n + nsh - 1) // nsh if n else 1
    files = []
    for k in range(nsh):
        lo, hi = k * per, min(n, (k + 1) * per)
        if lo >= hi: continue
        path = os.path.join(d, "cases_%d.v" % k)
        with open(path, "w") as f:
            f.write(CASE_HDR)
            f.write("Definition cases : list (c19case * implobs) := [\n")
            f.write(";\n".join("(%s,\n  %s)" % (s, o) for s, o in cases[lo:hi]))
            f.write("].\nDefinition chk (c : c19case * implobs) : bool := c19_match (fst c) (snd c).\n")
            f.write("Eval vm_compute in failing chk %d cases.\n" % lo)
            f.write("Definition chk_spec (c : c19case * implobs) : bool := spec_c19 (fst c) (snd c).\n")
            f.write("Eval vm_compute in failing chk_spec %d cases.\n" % lo)
            f.write("Definition chk_dom (c : c19case * implobs) : bool := sp_applicable (fst c) && wf_declb (c_decl (fst c)) && round_allowedb (fst c).\n")
            f.write("Eval vm_compute in failing chk_dom %d cases.\n" % lo)
        files.append(path)
    procs = [subprocess.Popen(["timeout", "900", "coqc", "-noglob", "-Q", COQ, "PV", p], stdout=subprocess.PIPE, stderr=subprocess.STDOUT, text=True)
             for p in files]
    a, b, errors = [], [], []
    for p, path in zip(procs, files):
        out = p.communicate()[0]
        if p.returncode != 0:
            errors.append((path, out[-3000:])); continue
        ls = parse_nlist(out)
        if len(ls) != 3:
            errors.append((path, "unexpected coqc output: " + out[-1500:])); continue
        a += ls[0]; b += ls[1]
        if ls[2]:
            errors.append((path, "rounds outside the domain of theorem c19_spec_model (wf_declb, round_allowedb, sp_applicable) - generator defect: %s" % ls[2][:10]))
    return sorted(a), sorted(b), errors


def coq_explain(case_term, obs_term):
    d = os.path.join(BUILD, "cases", PID); os.makedirs(d, exist_ok=True)
    path = os.path.join(d, "explain.v")
    with open(path, "w") as f:
        f.write(CASE_HDR)
        f.write("Definition c : c19case := %s.\nDefinition o : implobs := %s.\n" % (case_term, obs_term))
        f.write("Eval vm_compute in (wf_declb (c_decl c), model_c19 c).\nEval vm_compute in o.\nEval vm_compute in (c19_match c o, spec_c19 c o).\n")
    rc, out = coqc_file(path)
    return out


# ------------------------------------------------------------------------------------ the generated crate
def crate_dirs():
    tag = "" if REPO == "/repo" else "-" + hashlib.sha1(REPO.encode()).hexdigest()[:10]
    return os.path.join(BUILD, "static-harness" + tag), os.path.join(BUILD, "static-target" + tag)


CARGO_TOML = """[package]
name = "pvstatic"
version = "0.1.0"
edition = "2021"

[dependencies]
prometheus = { path = "%s", default-features = false }
prometheus-static-metric = { path = "%s/static-metric" }

[workspace]

[profile.dev]
opt-level = 0
debug = false
incremental = false
"""


def build_batches(sources, timeout=1500):
    """writes src/bin/b<i>.rs for every batch and builds them all (one rustc run per batch); returns (paths or None per batch, log)"""
    hdir, tdir = crate_dirs()
    shutil.rmtree(os.path.join(hdir, "src"), ignore_errors=True)
    os.makedirs(os.path.join(hdir, "src", "bin"))
    open(os.path.join(hdir, "Cargo.toml"), "w").write(CARGO_TOML % (REPO, REPO))
    lock = os.path.join(REPO, "Cargo.lock")
    if not os.path.exists(lock): lock = "/repo/Cargo.lock"          # a git worktree does not carry the (untracked) lock file
    shutil.copy(lock, os.path.join(hdir, "Cargo.lock"))
    for i, src in enumerate(sources):
        open(os.path.join(hdir, "src", "bin", "b%d.rs" % i), "w").write(src)
        old = os.path.join(tdir, "debug", "b%d" % i)
        if os.path.exists(old): os.remove(old)
    os.makedirs(tdir, exist_ok=True)
    rc, out = sh(["timeout", str(timeout), "cargo", "build", "--offline", "--bins", "--keep-going", "--target-dir", tdir], cwd=hdir)
    bins = []
    for i in range(len(sources)):
        p = os.path.join(tdir, "debug", "b%d" % i)
        bins.append(p if os.path.exists(p) else None)
    return bins, out


def run_batch(binp, ncases, timeout=300):
    try:
        p = subprocess.run([binp], stdout=subprocess.PIPE, stderr=subprocess.DEVNULL, text=True, timeout=timeout)
        out = p.stdout
    except subprocess.TimeoutExpired as e:
        out = e.stdout.decode() if isinstance(e.stdout, bytes) else (e.stdout or "")
    res = [None] * ncases
    for l in out.split("\n"):
        m = re.match(r"R (\d+) (.*)$", l)
        if m and int(m.group(1)) < ncases:
            res[int(m.group(1))] = m.group(2).strip()
    return res


# ------------------------------------------------------------------------------------ the check
class C19:
    pid = PID
    rule = ("declarations drawn from the property's grammar (1-4 labels x 1-4 values; inline lists, label_enum references incl. one enum "
            "used by several labels, renamed values incl. swapped / duplicated / non-ASCII / empty strings; Counter, IntCounter, Gauge, "
            "IntGauge, Histogram and the Local forms under make_static_metric!, LocalCounter / LocalIntCounter / LocalHistogram under "
            "make_auto_flush_static_metric!); each declaration is compiled with the real proc macros and, per round, a fresh backing "
            "vector with a permuted label-name order is driven through <= 48 accessor paths (for every leaf: field path, get path, "
            "try_get path, random mixture) with distinct powers of two, intermediate flushes, final flush, try_get probes; thorough adds "
            "all label permutations for <= 3 labels.  A round is non-trivial when it uses a get/try_get accessor, a renamed value, an "
            "enum reference or a non-declared label order; distinct = distinct (declaration, label order, calls) text")
    assumptions = [
        "proc-macro expansion (syn/quote, rustc name resolution and type checking of the generated items) is not modelled: it is observed on the compiled batches only",
        "the MaybeUninit offset trick of the auto-flush builder (field offsets measured on an uninitialised value, pointer arithmetic in get_local) is a runtime fact observed only on the compiled batches; the theorem c19_offsets covers any layout that puts distinct fields of one struct at distinct offsets",
        "identity of a child of the backing vector is its label-value tuple (the 64-bit hash key and its collisions are the subject of C05)",
        "the time-based may_flush of the auto-flush form is exercised with a flush interval of 0 ms (fires after every update) and of 1 h (never fires); the theorem covers any interleaving of flushes",
        "declarations whose value identifiers collide with names used inside the generated code (x, root, inner, branch_offset, offsetN) are outside the generated grammar",
    ]

    def trivial(self, g, d, rd):
        keys = [l[0] for l in d["labels"]]
        renamed = any(i != s for l in d["labels"] for i, s in values_of(g, l))
        enum = any(l[1][0] == "enum" for l in d["labels"])
        nonfield = any(k != "f" for o in rd["ops"] if o[0] == "upd" for k, _ in o[1])
        return not (renamed or enum or nonfield or rd["names"] != keys)

    def run(self, tier, seed, replay=None):
        t0 = time.time()
        pid = self.pid
        print("[%s] tier=%s seed=%d repo=%s" % (pid, tier, seed, REPO))
        # 1. proofs
        proof = check_props(pid, ["Spec/SpecC19.vo"])
        print("[%s] proofs: make_ok=%s theorems=%d axioms=%s bad=%s forbidden=%d" % (
            pid, proof["make_ok"], proof["obligations"], proof["axioms"], proof["bad_axioms"], len(proof["forbidden"])))
        if not proof["make_ok"]:
            print(proof["log"][-2500:])
        # 2. declarations
        r = random.Random(seed)
        if replay:
            rp = json.load(open(replay))
            batches = [[rp["group"]]]
        else:
            nb = 3 if tier == "quick" else 30
            batches = [gen_batch(r, bi, tier) for bi in range(nb)]
        rc, info = self.check_batches(batches)
        found = None
        if rc == "corr" and not replay:
            # the model and the implementation disagree but the spec holds everywhere: look harder for a failing input
            for k in range(1, 4):
                if time.time() - t0 > 240: break
                r2 = random.Random(seed * 1000 + k)
                rc2, info2 = self.check_batches([gen_batch(r2, 0, "thorough", n=12)], tag="_search")
                if rc2 == "spec":
                    found = info2; break
        # 3. verdict
        code = 0
        proof_broken = not proof["ok"]
        if rc == "spec" or found:
            x = found or info
            p = write_replay(pid, seed, x["index"], x["payload"])
            print("VIOLATION property=%s replay=%s" % (pid, p)); code = 1
        elif rc in ("corr", "build", "missing") or proof_broken:
            if rc == "ok":
                payload = dict(property=pid, tier=tier, seed=seed, kind="no-failing-input-found",
                               broken="proof obligation no longer checks: %s; bad axioms %s; forbidden %s" % (
                                   proof.get("failed_at"), proof["bad_axioms"], proof["forbidden"][:3]))
                idx = 0
            else:
                payload = info["payload"]; payload["kind"] = "no-failing-input-found"; idx = info["index"]
            p = write_replay(pid, seed, idx, payload)
            print("VIOLATION property=%s replay=%s no-failing-input-found" % (pid, p)); code = 1
        elif rc == "error":
            print("[%s] ERROR: %s" % (pid, info.get("what")))
            code = 2
        st = info.get("stats", {})
        cov = dict(obligations=proof["obligations"], discharged=proof["discharged"],
                   checker_cmd="make -C coq Props/C19.vo Spec/SpecC19.vo (coqc 8.16.1, full .vo) + Print Assumptions allowlist + forbidden-word scan",
                   trusted_base=props.TRUSTED + ["rustc / cargo and the proc-macro toolchain (syn, quote, proc-macro2) that expands the generated declarations",
                                                 "axioms used: %s" % (", ".join(proof["axioms"]) or "none (closed under the global context)")],
                   theorems=proof["theorems"], evaluations=st.get("rounds", 0), distinct_nontrivial=st.get("nontrivial", 0), rule=self.rule,
                   samples=st.get("samples", []), traces_validated_against_impl=st.get("rounds", 0) - st.get("mismatches", 0),
                   correspondence_mismatches=st.get("mismatches", 0), spec_failures=st.get("spec_failures", 0),
                   programs=st.get("declarations", 0), batches=st.get("batches", 0), accessor_paths=st.get("paths", 0),
                   input_distribution=st.get("dist", {}), exhaustive=False)
        write_evidence(pid, tier, seed, cov, self.assumptions, time.time() - t0, 1 if code == 1 else 0)
        print("[%s] batches=%d declarations=%d rounds=%d paths=%d nontrivial=%d mismatches=%d spec_failures=%d wall=%.1fs rc=%d" % (
            pid, st.get("batches", 0), st.get("declarations", 0), st.get("rounds", 0), st.get("paths", 0), st.get("nontrivial", 0),
            st.get("mismatches", 0), st.get("spec_failures", 0), time.time() - t0, code))
        return code

    def check_batches(self, batches, tag=""):
        """returns (verdict, info): ok | spec | corr | build | missing | error"""
        import collections
        rendered = [rust_batch(g) for g in batches]
        bins, log = build_batches([s for s, _ in rendered])
        allcases = []          # (batch, idx-in-batch, group, decl, round)
        for bi, (_, cs) in enumerate(rendered):
            for ci, (g, d, rd) in enumerate(cs):
                allcases.append((bi, ci, g, d, rd))
        dist = collections.Counter()
        npaths = 0
        ndecl = 0
        for gs in batches:
            for g in gs:
                for d in g["decls"]:
                    ndecl += 1
                    dist["form=" + d["form"]] += 1; dist["type=" + d["mtype"]] += 1; dist["labels=%d" % len(d["labels"])] += 1
                    for l in d["labels"]:
                        dist["values=%d" % len(values_of(g, l))] += 1; dist["label=" + l[1][0]] += 1
                    for rd in d["rounds"]:
                        for o in rd["ops"]:
                            if o[0] == "upd":
                                npaths += 1
                                for k, _ in o[1]: dist["step=" + k] += 1
                            else:
                                dist["flush"] += 1
                        dist["probes"] += len(rd["probes"])
                        dist["perm=" + ("declared" if rd["names"] == [l[0] for l in d["labels"]] else "other")] += 1
        stats = dict(batches=len(batches), declarations=ndecl, rounds=len(allcases), paths=npaths, dist=dict(dist), mismatches=0, spec_failures=0,
                     nontrivial=0, samples=[])
        def payload(i, kind, broken, extra=None):
            bi, ci, g, d, rd = allcases[i]
            pl = dict(property=PID, kind=kind, broken=broken, group=g, declaration=d["name"], round=d["rounds"].index(rd),
                      rust_declaration=rust_group(g), case_term=coq_case(g, d, rd),
                      explanation="replay with: python3 tools/check.py C19 --replay <this file>")
            if extra: pl.update(extra)
            return pl
        if any(b is None for b in bins):
            bi = [i for i, b in enumerate(bins) if b is None][0]
            errs = [l for l in log.split("\n") if "error" in l.lower()][:8]
            first = next((i for i, c in enumerate(allcases) if c[0] == bi), None)
            in_batch = bool(re.search(r"src/bin/b\d+\.rs", log))
            if first is None or not in_batch:
                print(log[-3000:])
                return "error", dict(what="the generated crate does not build against %s (not caused by a generated declaration)" % REPO, stats=stats)
            print("\n".join(errs))
            return "build", dict(index=first, stats=stats, payload=payload(first, "build-failure",
                                 "a well-formed batch of declarations does not compile with the repository's proc macros (model: builds)",
                                 dict(cargo_log=log[-4000:])))
        outs = []
        for bi, (_, cs) in enumerate(rendered):
            outs += run_batch(bins[bi], len(cs))
        missing = [i for i, o in enumerate(outs) if o is None]
        cases = [(coq_case(g, d, rd), o if o else "None") for (bi, ci, g, d, rd), o in zip(allcases, outs)]
        mism, specf, errors = coq_compare(PID + tag, cases)
        nontriv = set()
        for (bi, ci, g, d, rd), (ct, o) in zip(allcases, cases):
            if not self.trivial(g, d, rd):
                nontriv.add(hashlib.sha1(ct.encode()).hexdigest())
        stats.update(mismatches=len(mism), spec_failures=len(specf), nontrivial=len(nontriv),
                     samples=[dict(declaration=rust_group(allcases[i][2]), vector_labels=allcases[i][4]["names"],
                                   calls=[[o[0], "".join(("." + x) if k == "f" else (".get(%s)" % x) if k == "g" else (".try_get(%r)" % x) for k, x in o[1])]
                                          + ([1 << o[2]] if o[0] == "upd" else []) for o in allcases[i][4]["ops"][:12]],
                                   implementation=outs[i][:700] if outs[i] else None) for i in range(min(2, len(allcases)))])
        if errors:
            for p, e in errors[:2]: print("COQ ERROR in", p, e[-1500:])
            return "error", dict(what="Coq could not evaluate some case files", stats=stats)
        if specf:
            i = specf[0]
            ex = coq_explain(cases[i][0], cases[i][1])
            return "spec", dict(index=i, stats=stats, payload=payload(i, "failing-input", "spec_c19 is false on the implementation's output",
                                                                      dict(impl_obs=outs[i], model_vs_impl=ex[-4000:])))
        if mism:
            i = mism[0]
            ex = coq_explain(cases[i][0], cases[i][1])
            return "corr", dict(index=i, stats=stats, payload=payload(i, "correspondence", "c19_match: Model/Static.v and the compiled declaration disagree on this round",
                                                                      dict(impl_obs=outs[i], model_vs_impl=ex[-4000:])))
        if missing:
            i = missing[0]
            return "missing", dict(index=i, stats=stats, payload=payload(i, "missing", "the compiled batch produced no output for this round (crash / hang)"))
        return "ok", dict(stats=stats)
