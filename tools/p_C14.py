"""C14  A gathered family never mixes metric types."""
from props import *
from p_C07 import GatherGen, c14_witness


class C14(SeqProp):
    pid = "C14"
    spec_import = "Require Import PV.Spec.SpecC14.\nRequire PV.Proofs.C14SpecCustom."
    dom_fn = "PV.Proofs.C14SpecCustom.dom14c"
    spec_fn = "spec_c14"
    known_fn = "known_c14"
    rule = ("scenarios as for C07 (1-8 collectors of all kinds in 1-3 name families, children, updates, the same set registered in "
            "different orders on 2-3 fresh registries, back-to-back gathers); in about half of them some collectors deliberately take "
            "another kind (counter / gauge / histogram) than the rest of their family - same name, help and label names, other "
            "constant-label values - which registration accepts; in 15 % a user-written collector sharing a descriptor with a registered one is "
            "unregistered (must fail and release nothing) and an equal twin of another kind / another overlapping collector is registered (must be "
            "refused); non-trivial = at least two gathers and two samples; "
            "distinct = distinct scenario text")
    assumptions = ["known finding C14-mixed-kinds: a Desc carries no metric type, so collectors of different kinds may be registered under "
                   "one name; gather() then merges them into one family typed after whichever collector its HashMap yields first. "
                   "Scenarios in that class (decided in Coq by known_c14: the class predicate AND everything except the family type is "
                   "as C07 demands) are reported as KNOWN-FINDING; the implementation's type may differ from the model's there, "
                   "because the model iterates collectors in registration order",
                   "HashMap iteration order is exercised through fresh maps per registry, not controlled"]
    corpus = [c14_witness(True), c14_witness(False)]

    def gen(self, r, tier):
        n = 400 if tier == "quick" else 4000
        out = []
        while len(out) < n:
            mixed = r.choice([0.0, 0.0, 0.25, 0.5])
            g = GatherGen(r, mixed=mixed, overlap=0.15)
            out.append(g.run())
        return out

    def nontrivial(self, ops, o):
        return o.count("OFams") >= 2 and o.count("(mkMetric") >= 2
