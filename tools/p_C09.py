"""C09  Only well-formed, pairwise distinct names reach an exposed sample."""
from props import *
import itertools

# symbols used to build names: ASCII letters/digits/_/:/-/space, non-ASCII letters and digits
LETTERS = "abcxzAQZ"
DIGITS = "0159"
ODD = ["-", " ", "é", "Ａ", "٣", "ß", "٠", "Ω", "$", ".", "/", "ª", "Ⅰ", "１", "́"]
SYMS = list(LETTERS) + list(DIGITS) + ["_", ":"] + ODD
# the 9-symbol alphabet of the exhaustive sweep (thorough tier): 9^0+9+81+729 = 820 strings
SWEEP = ["a", "Z", "_", ":", "0", "-", "é", "Ａ", "٣"]

CONST_POOL = ["a", "b", "c", "z", "job", "le", "A_1", "_x"]
COMMON_POOL = ["a", "z", "job", "env", "le", "b", "le", "le"]


def rand_str(r, maxlen=4):
    """a string over the whole symbol set: empty, leading digits, colons, non-ASCII letters/digits, punctuation"""
    return "".join(r.choice(SYMS) for _ in range(r.randint(0, maxlen)))


def near_valid(r, colon):
    """a valid identifier with one symbol replaced / inserted / the head changed"""
    base = r.choice(LETTERS + "_") + "".join(r.choice(LETTERS + DIGITS + "_" + (":" if colon else "")) for _ in range(r.randint(0, 3)))
    k = r.random()
    s = list(base)
    if k < 0.35:
        s[r.randrange(len(s))] = r.choice(ODD + list(DIGITS) + [":"])
    elif k < 0.7:
        s.insert(r.randint(0, len(s)), r.choice(ODD + [":"]))
    elif k < 0.85:
        s[0] = r.choice(list(DIGITS) + ODD + [":"])
    else:
        s = s[:r.randint(0, len(s))]
    return "".join(s)


def lname(r, valid=0.8):
    if r.random() < valid: return gens.label_name(r, 1.0)
    k = r.random()
    if k < 0.5: return near_valid(r, False)
    if k < 0.8: return rand_str(r)
    return gens.label_name(r, 0.0)


def mname(r, valid=0.8):
    if r.random() < valid: return gens.metric_name(r, 1.0)
    k = r.random()
    if k < 0.5: return near_valid(r, True)
    if k < 0.8: return rand_str(r)
    return gens.metric_name(r, 0.0)


def helptext(r, ok=0.9):
    return gens.help_text(r, ok)


def some_opts(r, valid=0.85, pool=None, nconst=(0, 3)):
    """Opts with namespace / subsystem / name / help / constant labels drawn from the pools"""
    name = mname(r, valid)
    ns = mname(r, valid) if r.random() < 0.3 else ""
    sub = (mname(r, valid) if r.random() < 0.7 else rand_str(r, 3)) if r.random() < 0.3 else ""
    if r.random() < 0.05: name = ""
    consts = []
    for _ in range(r.randint(*nconst)):
        k = r.choice(pool) if pool and r.random() < 0.7 else lname(r, valid)
        consts.append((k, gens.label_value(r)))
    if consts and r.random() < 0.15:
        consts.append((r.choice(consts)[0], gens.label_value(r)))       # HashMap insert: a repeated key overrides
    return mkopts(name, helptext(r, 0.93 if valid > 0.5 else 0.6), ns, sub, consts)


def some_vars(r, valid=0.85, consts=(), pool=None, n=(1, 3)):
    vs = []
    for _ in range(r.randint(*n)):
        k = r.random()
        if k < 0.07 and consts: vs.append(r.choice(consts)[0])          # repeats a constant label
        elif k < 0.12 and vs: vs.append(r.choice(vs))                   # repeats a variable label
        elif pool and k < 0.6: vs.append(r.choice(pool))
        else: vs.append(lname(r, valid))
    return vs


import re as _re
_RE_L = _re.compile(r"^[a-zA-Z_][a-zA-Z0-9_]*\Z")
_RE_M = _re.compile(r"^[a-zA-Z_:][a-zA-Z0-9_:]*\Z")


def expect_ok(o, vars_, hist=False):
    """generator-side guess whether a constructor will accept (only used to avoid piling operations on dead slots)"""
    if not o["name"] or not o["help"]: return False
    fq = "_".join([x for x in (o["ns"], o["sub"]) if x] + [o["name"]])
    keys = [k for k, _ in o["consts"]]
    names = keys + list(vars_)
    if not _RE_M.match(fq) or not all(_RE_L.match(n) for n in names): return False
    if len(set(vars_)) != len(vars_) or set(vars_) & set(keys): return False
    if hist and "le" in names: return False
    return True


class C09(SeqProp):
    pid = "C09"
    spec_import = "Require Import PV.Spec.SpecC09.\nRequire PV.Proofs.C09Spec."
    dom_fn = "PV.Proofs.C09Spec.dom09"     # the domain of the uniform spec-of-model theorem (counted in the evidence)
    spec_fn = "spec_c09"
    rule = ("scenario streams: (1) groups of Desc::new calls whose fq name / help / constant / variable label names come from an alphabet "
            "with ASCII letters, digits, _ : - space, non-ASCII letters and digits, empty and digit-led strings, names repeated among constant "
            "and variable labels; (2) Counter/Gauge/Histogram/*Vec/PullingGauge constructors over namespace/subsystem/name triples and label "
            "pools that contain le, Opts values that already carry variable labels (also together with an empty list of names); (3) registries with (in)valid prefix / common labels, metrics and vector children whose labels may clash "
            "with the common labels, register/unregister, gather; thorough adds every string of length <= 3 over a 9-symbol alphabet as fq name, "
            "constant label name and variable label name.  non-trivial = some constructor was refused or a gather returned a family; "
            "distinct = distinct scenario text")
    assumptions = ["families handed to gather by user-written collectors (OpCustom) are outside the property: the gather clause is skipped for scenarios using them (the generator uses none)",
                   "bucket validity (C08) is taken from the model function check_and_adjust_buckets in the acceptance condition of Histogram::with_opts",
                   "for Counter/Gauge/Histogram::with_opts the Ok-iff is only claimed when Opts.variable_labels is empty (otherwise the constructor fails with a cardinality error)",
                   "HashMap iteration order is exercised through fresh maps per call, not controlled"]

    # ---------------------------------------------------------------- streams
    def g_desc(self, r):
        """a group of Desc::new calls around one base descriptor"""
        ops = []
        valid = r.choice([1.0, 1.0, 0.95, 0.8])
        for _ in range(r.randint(3, 7)):
            fq = mname(r, valid)
            help_ = helptext(r, 0.95)
            consts = [(r.choice(CONST_POOL) if r.random() < 0.5 else lname(r, valid), gens.label_value(r)) for _ in range(r.randint(0, 3))]
            if consts and r.random() < 0.2: consts.append((r.choice(consts)[0], gens.label_value(r)))
            vars_ = some_vars(r, valid, consts, CONST_POOL, (0, 3))
            k = r.random() * 2.0            # half of the calls keep what the pools gave
            if k < 0.15: fq = rand_str(r)
            elif k < 0.25 and consts: consts[r.randrange(len(consts))] = (rand_str(r), "v")
            elif k < 0.35: vars_.append(rand_str(r))
            elif k < 0.42: fq = near_valid(r, True)
            elif k < 0.5: vars_.append(near_valid(r, False))
            elif k < 0.55: fq = gens.label_name(r, 1.0) + ":" + gens.label_name(r, 1.0)
            elif k < 0.6: vars_.append(gens.label_name(r, 1.0) + ":")
            ops.append(("OpDesc", fq, help_, vars_, consts))
        return ops

    def g_ctor(self, r):
        """constructors of every kind; no registry"""
        s = Slots()
        valid = r.choice([1.0, 0.95, 0.8])
        for _ in range(r.randint(3, 7)):
            kind = r.choice(["C", "G", "H", "CV", "GV", "HV", "HV", "H", "P", "FQ"])
            o = some_opts(r, valid, CONST_POOL)
            if kind == "FQ":
                s.emit("OpFqName", o["ns"], o["sub"], o["name"]); continue
            if kind == "P":
                s.emit("OpPulling", mname(r, valid), helptext(r, 0.85), gens.some_float(r)); continue
            if kind in ("C", "G", "H") and r.random() < 0.07:
                o["vars"] = some_vars(r, 0.9, o["consts"], None, (1, 2))     # plain metric with unbound variable labels: refused
            if kind == "C": s.emit("OpCounter", r.choice(["NF", "NU"]), o)
            elif kind == "G": s.emit("OpGauge", r.choice(["NF", "NI"]), o)
            elif kind == "H":
                s.emit("OpHistogram", dict(opts=o, buckets=gens.any_buckets(r) if r.random() < 0.15 else gens.good_buckets(r)))
            else:
                vars_ = some_vars(r, valid, o["consts"], CONST_POOL, (0, 3) if r.random() < 0.1 else (1, 3))
                if r.random() < 0.25:
                    o["vars"] = r.sample(["shard", "a", "b", "v1", "zz"], r.randint(1, 2))   # preset variable labels: the vector constructor REPLACES them
                    if r.random() < 0.35: vars_ = []                                         # ... also by an EMPTY list of names
                if kind == "CV": v = s.emit("OpCounterVec", r.choice(["NF", "NU"]), o, vars_)
                elif kind == "GV": v = s.emit("OpGaugeVec", r.choice(["NF", "NI"]), o, vars_)
                else: v = s.emit("OpHistVec", dict(opts=o, buckets=gens.good_buckets(r)), vars_)
                if r.random() < (0.6 if expect_ok(o, vars_, kind == "HV") else 0.1):
                    s.emit("OpWith", v, [gens.label_value(r) for _ in vars_])
        return s.ops

    def g_registry(self, r):
        """registries with prefix / common labels, library metrics, register, gather"""
        s = Slots()
        valid = r.choice([1.0, 0.95, 0.8])
        regs = []
        for _ in range(r.randint(1, 2)):
            k = r.random()
            prefix = None if k < 0.35 else (mname(r, 0.85) if k < 0.9 else r.choice(["", "9p", "p-q", "é", "a b", ":", "٣"]))
            k = r.random()
            if k < 0.3: labels = None
            else:
                labels = [(r.choice(COMMON_POOL) if r.random() < 0.8 else lname(r, 0.6), gens.label_value(r)) for _ in range(r.randint(0, 3))]
                if labels and r.random() < 0.15: labels.append((labels[0][0], gens.label_value(r)))
            reg = s.emit("OpRegistry", prefix, labels)
            reg_ok = (prefix is None or bool(_RE_M.match(prefix))) and all(_RE_L.match(k) and k != "le" for k, _ in (labels or []))
            if reg_ok or r.random() < 0.2: regs.append(reg)
        metrics = []
        def keep(slot, ok):
            # mostly register what (we guess) exists; now and then also a refused one (both sides then agree on OBad)
            if ok or r.random() < 0.1: metrics.append(slot)
            return ok
        for _ in range(r.randint(1, 4)):
            kind = r.choice(["C", "G", "H", "CV", "GV", "HV", "P"])
            o = some_opts(r, valid, CONST_POOL, (0, 2))
            if kind == "P":
                nm, hp = mname(r, valid), helptext(r, 0.95)
                keep(s.emit("OpPulling", nm, hp, gens.some_float(r)), bool(hp) and bool(_RE_M.match(nm))); continue
            if kind == "C":
                m = s.emit("OpCounter", r.choice(["NF", "NU"]), o)
                if keep(m, expect_ok(o, [])) and r.random() < 0.5: s.emit("OpInc", m)
            elif kind == "G":
                m = s.emit("OpGauge", r.choice(["NF", "NI"]), o); keep(m, expect_ok(o, []))
            elif kind == "H":
                m = s.emit("OpHistogram", dict(opts=o, buckets=gens.good_buckets(r)))
                if keep(m, expect_ok(o, [], True)) and r.random() < 0.5: s.emit("OpObserve", m, gens.some_float(r))
            else:
                vars_ = some_vars(r, valid, o["consts"], CONST_POOL, (1, 2))
                if r.random() < 0.25:
                    o["vars"] = r.sample(["shard", "a", "b", "v1", "zz"], r.randint(1, 2))   # preset variable labels: the vector constructor REPLACES them
                    if r.random() < 0.35: vars_ = []                                         # ... also by an EMPTY list of names
                if kind == "CV": v = s.emit("OpCounterVec", r.choice(["NF", "NU"]), o, vars_)
                elif kind == "GV": v = s.emit("OpGaugeVec", r.choice(["NF", "NI"]), o, vars_)
                else: v = s.emit("OpHistVec", dict(opts=o, buckets=gens.good_buckets(r)), vars_)
                if not keep(v, expect_ok(o, vars_, kind == "HV")): continue
                for _ in range(r.randint(0, 2)):
                    vals = [gens.label_value(r) for _ in vars_]
                    if r.random() < 0.7: c = s.emit("OpWith", v, vals)
                    else:
                        kvs = list(zip(vars_, vals)); r.shuffle(kvs); c = s.emit("OpWithMap", v, kvs)
                    if kind == "HV":
                        if r.random() < 0.5: s.emit("OpObserve", c, gens.some_float(r))
                    elif r.random() < 0.5: s.emit("OpInc", c)
                    if r.random() < 0.15: metrics.append(c)                  # a child registered on its own
        # siblings: a second collector of the same family (same name, help and label names, other constant-label values),
        # so that gather merges several collectors' samples into one family before the common labels are applied
        if r.random() < 0.5:
            for _ in range(r.randint(1, 2)):
                nm = mname(r, 1.0); cn = r.sample(CONST_POOL, r.randint(1, 2)) if len(CONST_POOL) >= 2 else ["k"]
                cn = [c for c in cn if _RE_L.match(c) and c != "le"] or ["k"]
                kind = r.choice(["C", "G", "CV", "H"])
                vars_ = [v for v in ["v1"] if v not in cn] if kind == "CV" else []
                for j in range(r.randint(2, 3)):
                    o = mkopts(nm, "sib", consts=[(c, "%s%d" % (c, j)) for c in cn])
                    if kind == "C":
                        m = s.emit("OpCounter", "NU", o); s.emit("OpInc", m)
                    elif kind == "G":
                        m = s.emit("OpGauge", "NI", o); s.emit("OpInc", m)
                    elif kind == "H":
                        m = s.emit("OpHistogram", dict(opts=o, buckets=[f64(1.0)])); s.emit("OpObserve", m, f64(0.5))
                    else:
                        m = s.emit("OpCounterVec", "NU", o, vars_); c = s.emit("OpWith", m, ["x%d" % j]); s.emit("OpInc", c)
                    metrics.append(m)
        # a vector whose variable labels (2-3 names, in any order, not sorted) contain one of the registry's common label names
        # at a random position: register must refuse it whatever the position
        if labels and r.random() < 0.4:
            clash = r.choice([k for k, _ in labels])
            if _RE_L.match(clash) and clash != "le":
                others = r.sample(["zz", "mm", "aa", "b2", "_q"], r.randint(1, 2))
                vars_ = others + [clash]; r.shuffle(vars_)
                v = s.emit("OpCounterVec", "NU", mkopts(mname(r, 1.0), "clash"), vars_)
                c = s.emit("OpWith", v, ["x"] * len(vars_)); s.emit("OpInc", c)
                metrics.append(v)
        for reg in regs:
            order = list(metrics); r.shuffle(order)
            for m in order:
                if r.random() < 0.9: s.emit("OpRegister", reg, m)
            s.emit("OpGather", reg)
            if metrics and r.random() < 0.3:
                s.emit("OpUnregister", reg, r.choice(metrics))
                s.emit("OpGather", reg)
        return s.ops

    def g_sweep(self):
        """every string of length <= 3 over SWEEP as fq name, as constant label name, as variable label name"""
        strs = [""]
        for n in (1, 2, 3):
            strs += ["".join(t) for t in itertools.product(SWEEP, repeat=n)]
        out = []
        per = 20
        for i in range(0, len(strs), per):
            chunk = strs[i:i + per]
            out.append([("OpDesc", x, "h", [], []) for x in chunk])
            out.append([("OpDesc", "m", "h", [], [(x, "v")]) for x in chunk])
            out.append([("OpDesc", "m", "h", [x], []) for x in chunk])
        # the same strings as registry prefix / common label name
        for i in range(0, len(strs), per):
            chunk = strs[i:i + per]
            out.append([("OpRegistry", x, None) for x in chunk])
            out.append([("OpRegistry", None, [(x, "v")]) for x in chunk])
        return out

    # fixed scenarios: the recorded (repaired) defects and a few hand-picked shapes, always run first
    corpus = [
        # a clash between a common label and a variable label that is neither first nor last in declaration order
        [("OpRegistry", None, [("zone", "eu")]), ("OpCounterVec", "NU", mkopts("rq", "h"), ["zone", "method", "app"]),
         ("OpWith", 1, ["a", "b", "c"]), ("OpInc", 2), ("OpRegister", 0, 1), ("OpGather", 0),
         ("OpCounterVec", "NU", mkopts("rq2", "h"), ["method", "zone", "app"]), ("OpWith", 3, ["a", "b", "c"]), ("OpInc", 4),
         ("OpRegister", 0, 3), ("OpGather", 0)],
        # two collectors of one family under a registry with common labels: every sample gets each common label exactly once
        [("OpRegistry", "p", [("az", "1"), ("region", "2")]), ("OpCounter", "NU", mkopts("x", "h", consts=[("k", "1")])),
         ("OpCounter", "NU", mkopts("x", "h", consts=[("k", "2")])), ("OpCounter", "NU", mkopts("x", "h", consts=[("k", "3")])),
         ("OpInc", 1), ("OpInc", 2), ("OpInc", 3), ("OpRegister", 0, 1), ("OpRegister", 0, 2), ("OpRegister", 0, 3), ("OpGather", 0)],
        # the reserved-le defect (repaired): a registry-level common label called le must be refused; before the repair a
        # histogram registered there was gathered with le among its labels (exposed as h_bucket{le="x",le="1"})
        [("OpRegistry", None, [("le", "x")]), ("OpHistogram", dict(opts=mkopts("h", "h"), buckets=[f64(1.0)])), ("OpObserve", 1, f64(0.5)),
         ("OpRegister", 0, 1), ("OpGather", 0), ("OpRegistry", "p", [("a", "1"), ("le", "2")]), ("OpHistVec", dict(opts=mkopts("hv", "h"), buckets=[]), ["k"]),
         ("OpWith", 3, ["v"]), ("OpObserve", 4, f64(2.0)), ("OpRegister", 2, 3), ("OpGather", 2)],
        [("OpCounterVec", "NF", mkopts("c", "h", consts=[("a", "1")]), ["a"]),
         ("OpDesc", "c", "h", ["a"], [("a", "1")]), ("OpDesc", "c", "h", ["a", "a"], []), ("OpDesc", "c", "h", ["b"], [("a", "1"), ("a", "2")])],
        [("OpHistVec", dict(opts=mkopts("h", "h"), buckets=[]), ["le"]),
         ("OpHistVec", dict(opts=mkopts("h", "h", consts=[("le", "1")]), buckets=[]), ["x"]),
         ("OpHistogram", dict(opts=mkopts("h", "h", consts=[("le", "1")]), buckets=[])),
         ("OpCounterVec", "NU", mkopts("c", "h", consts=[("le", "1")]), ["le2"]), ("OpCounterVec", "NU", mkopts("c", "h"), ["le"])],
        [("OpRegistry", "9 bad", [("bad-label", "x")]), ("OpRegistry", "", None), ("OpRegistry", "ok", [("é", "x")]), ("OpRegistry", "p:q", [("_a", "x")]),
         ("OpRegistry", "é", None), ("OpRegistry", None, [("a:b", "x")])],
        [("OpRegistry", "p", [("a", "x"), ("z", "y")]), ("OpCounter", "NF", mkopts("c", "h", consts=[("a", "1")])),
         ("OpCounterVec", "NF", mkopts("v", "h"), ["z"]), ("OpWith", 2, ["q"]), ("OpGauge", "NI", mkopts("g", "h", consts=[("b", "1")])),
         ("OpRegister", 0, 1), ("OpRegister", 0, 2), ("OpRegister", 0, 4), ("OpRegister", 0, 3), ("OpGather", 0)],
        [("OpDesc", "é", "h", [], []), ("OpDesc", "aé", "h", [], []), ("OpDesc", "a", "h", ["Ａ"], []), ("OpDesc", "a", "h", ["a٣"], []),
         ("OpDesc", "a", "h", [], [("ß", "v")]), ("OpDesc", "a1", "h", ["a1"], []), ("OpDesc", "1a", "h", [], []), ("OpDesc", "a", "", [], []),
         ("OpDesc", "", "h", [], []), ("OpDesc", "a:b", "h", ["a:b"], []), ("OpDesc", ":", "h", ["_"], [])],
        [("OpCounter", "NF", mkopts("n", "h", ns="a", sub="b")), ("OpCounter", "NF", mkopts("n", "h", ns="1a", sub="b")),
         ("OpCounter", "NF", mkopts("n", "h", ns="", sub="1b")), ("OpCounter", "NF", mkopts("1n", "h", ns="a", sub="")),
         ("OpCounter", "NF", mkopts("", "h", ns="a", sub="b")), ("OpCounter", "NF", mkopts("n", "h", ns="a-", sub="b")),
         ("OpRegistry", None, None), ("OpRegister", 6, 0), ("OpRegister", 6, 3), ("OpGather", 6)],
    ]

    def gen(self, r, tier):
        n = 200 if tier == "quick" else 1500
        out = []
        for _ in range(n):
            out.append(self.g_desc(r))
            out.append(self.g_ctor(r))
            out.append(self.g_registry(r))
        if tier != "quick":
            out += self.g_sweep()
        return out

    def nontrivial(self, ops, o):
        return ("Err" in o) or ("ODesc None" in o) or ("OFams [(" in o)
