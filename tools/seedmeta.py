#!/usr/bin/env python3
"""tools/seedmeta.py <seeded dir> <property> <what> <needs> [notes.md]  - writes meta.json from result.json"""
import json, os, shutil, sys
d, prop, what, needs = sys.argv[1:5]
r = json.load(open(os.path.join(d, "result.json")))
meta = dict(breaks_property=prop, change=what, needs_to_manifest=needs, base_commit=r["base_commit"],
            origin="independent sub-agent given only the property text and a scratch worktree (tools/seedprompt.py)",
            confirmed=dict(demo_passes_without_change=r["demo_without_change"]["ok"], demo_fails_with_change=r["demo_with_change"]["fails"],
                           existing_suite_passes_with_change=r["suite_with_change"]["ok"], suite_counts=r["suite_with_change"]),
            checks={k: dict(caught=v["caught"], exit=v["exit"], violation_line=(v["violation"] or [None])[0], wall_s=v["wall_s"]) for k, v in r["checks"].items()},
            what_was_run=r["ran"])
json.dump(meta, open(os.path.join(d, "meta.json"), "w"), indent=1)
if len(sys.argv) > 5: shutil.copy(sys.argv[5], os.path.join(d, "notes.md"))
print(d, {k: v["caught"] for k, v in r["checks"].items()})
