"""Check flow for the concurrent properties: scenarios = (object, thread programs, schedule); the
real library is run one atomic step at a time by the harness (`C` lines); the reported trace is
validated event by event against the executable model inside Coq, and an executable spec written
from the property text is evaluated on the call/return markers of the same trace."""
import os, random, sys, time, json, hashlib, re, shutil, subprocess, collections
from pvlib import *
from props import TRUSTED

CONC_HDR = """Require Import PV.Base.Prelude PV.Base.F64 PV.Model.Conc.
%s
Open Scope N_scope.
Set Printing Width 1000000.
Set Printing Depth 1000000.
"""


def hx(x):
    return "%016x" % f64(float(x)).bits


class ConcProp:
    pid = None
    imports = ""              # Require lines
    case_type = "list event"  # type of one case
    chk_def = None            # Gallina: Definition chk (c : case_type) : bool  (trace validation against the model)
    spec_def = None           # Gallina: Definition chk_spec (c : case_type) : bool (spec on the implementation's trace)
    dom_def = None            # optional Gallina: Definition chk_dom (c : case_type) : bool - the case lies in the domain of the uniform
                              # "validated trace => spec" theorem (counted in the evidence; decides nothing)
    extra_targets = []
    rule = ""
    assumptions = []
    corpus = []

    def gen(self, r, tier):
        """returns a list of scenarios: dict(line=<harness line>, pre=<Gallina prefix of the case term, e.g. bounds>)"""
        raise NotImplementedError

    def case_term(self, sc, out):
        return out

    def nontrivial(self, sc, out):
        return True

    def run(self, tier, seed, replay=None):
        t0 = time.time()
        pid = self.pid
        print("[%s] tier=%s seed=%d" % (pid, tier, seed))
        proof = check_props(pid, self.extra_targets)
        print("[%s] proofs: make_ok=%s theorems=%d axioms=%s bad=%s forbidden=%d" % (
            pid, proof["make_ok"], proof["obligations"], proof["axioms"], proof["bad_axioms"], len(proof["forbidden"])))
        if not proof["make_ok"]:
            print(proof["log"][-2500:])
        ok_h, out_h, binp = harness_build()
        if not ok_h:
            print(out_h[-3000:])
            print("[%s] ERROR: the harness does not build against the repository's working tree" % pid)
            write_evidence(pid, tier, seed, dict(obligations=proof["obligations"], discharged=0, checker_cmd="make Props/%s.vo" % pid,
                                                 trusted_base=TRUSTED, explanation="harness build failed"), self.assumptions, time.time() - t0, 1)
            return harness_broken(pid, tier, seed, out_h)
        r = random.Random(seed)
        if replay:
            rp = json.load(open(replay))
            scs = [rp["scenario"]] if rp.get("scenario") else []
        else:
            scs = list(self.corpus) + self.gen(r, tier)
        outs = run_harness(binp, [s["line"] for s in scs], wall=900)
        missing = [i for i, o in enumerate(outs) if o is None]
        cases = [self.case_term(s, o if o else "[EStuck]") for s, o in zip(scs, outs)]
        failing, spec_failing, errors = self.compare(cases)
        for p, e in errors[:2]: print("COQ ERROR in", p, e[-1500:])
        nontriv = set()
        nevents = 0
        kinds = collections.Counter()
        for s, o in zip(scs, outs):
            if o:
                nevents += o.count(";") + 1
                for m in re.finditer(r"\b(ECall \d+ \(?C\w+|EAt \d+ \d+ K\w+|ELock \d+ \d+ L\w+ \w+|EUnlock|ERet \d+ \(?R\w+|EPanic|EStuck|EDeadlock|ELivelock)", o):
                    kinds[re.sub(r"\d+ ", "", m.group(1))] += 1
                if self.nontrivial(s, o):
                    nontriv.add(hashlib.sha1((s["line"]).encode()).hexdigest())
        rc = 0
        proof_broken = not proof["ok"]

        def dump(i, kind, broken):
            payload = dict(property=pid, tier=tier, seed=seed, kind=kind, scenario_index=i,
                           scenario=scs[i] if i is not None else None, impl_trace=outs[i] if i is not None else None, broken=broken,
                           first_rejected_event=self.explain(cases[i]) if i is not None else None,
                           explanation="replay with: python3 tools/check.py %s --replay <this file> ; the schedule in the scenario line reproduces the interleaving" % pid)
            return write_replay(pid, seed, i if i is not None else 0, payload)
        if spec_failing:
            i = spec_failing[0]
            p = dump(i, "failing-input", "the executable spec of the property is false on the implementation's trace (call/return markers and returned values)")
            print("VIOLATION property=%s replay=%s" % (pid, p)); rc = 1
        elif failing or proof_broken or missing:
            found = None if replay else self.search(binp, seed, tier)
            if found:
                p = write_replay(pid, seed, 0, found)
                print("VIOLATION property=%s replay=%s" % (pid, p)); rc = 1
            else:
                if failing:
                    p = dump(failing[0], "no-failing-input-found", "trace validation: an event of the implementation's trace is not a step of the model (correspondence lemma: every validated trace is a path of the relational model, Proofs/*Sound)")
                elif missing:
                    p = dump(missing[0], "no-failing-input-found", "the harness produced no trace for this scenario (crash / hang)")
                else:
                    p = dump(None, "no-failing-input-found", "proof obligation no longer checks: %s; bad axioms %s; forbidden %s" % (
                        proof.get("failed_at"), proof["bad_axioms"], proof["forbidden"][:3]))
                print("VIOLATION property=%s replay=%s no-failing-input-found" % (pid, p)); rc = 1
        if errors and rc == 0:
            print("[%s] ERROR: Coq could not evaluate some case files" % pid); rc = 2
        cov = dict(obligations=proof["obligations"], discharged=proof["discharged"],
                   checker_cmd="make -C coq Props/%s.vo (coqc 8.16.1, full .vo) + Print Assumptions allowlist + forbidden-word scan" % pid,
                   trusted_base=TRUSTED + ["axioms used: %s" % (", ".join(proof["axioms"]) or "none (closed under the global context)")],
                   theorems=proof["theorems"], evaluations=len(scs), distinct_nontrivial=len(nontriv), rule=self.rule,
                   samples=[(scs[i]["line"][:500] + " => " + (outs[i] or "")[:700]) for i in range(min(2, len(scs)))],
                   traces_validated_against_impl=len(scs) - len(failing) - len(missing), transitions=nevents,
                   trace_rejections=len(failing), spec_failures=len(spec_failing),
                   **(dict(in_uniform_theorem_domain=len(scs) - len(getattr(self, "outside_domain", [])),
                           outside_uniform_theorem_domain=len(getattr(self, "outside_domain", []))) if self.dom_def else {}), input_distribution=dict(event_kinds=dict(kinds)), exhaustive=False)
        write_evidence(pid, tier, seed, cov, self.assumptions, time.time() - t0, 1 if rc == 1 else 0)
        print("[%s] scenarios=%d events=%d nontrivial=%d rejected=%d spec_failures=%d wall=%.1fs rc=%d" % (
            pid, len(scs), nevents, len(nontriv), len(failing), len(spec_failing), time.time() - t0, rc))
        return rc

    def compare(self, cases, tag="cases"):
        d = os.path.join(BUILD, "cases", self.pid if tag == "cases" else self.pid + "_" + tag)
        shutil.rmtree(d, ignore_errors=True); os.makedirs(d)
        n = len(cases)
        nsh = min(NPROC, max(1, (n + 19) // 20))
        per = (n + nsh - 1) // nsh if n else 1
        files = []
        for k in range(nsh):
            lo, hi = k * per, min(n, (k + 1) * per)
            if lo >= hi: continue
            path = os.path.join(d, "cases_%d.v" % k)
            with open(path, "w") as f:
                f.write(CONC_HDR % self.imports)
                f.write("Definition cases : list (%s) := [\n" % self.case_type)
                f.write(";\n".join(cases[lo:hi]))
                f.write("].\n%s\nEval vm_compute in failing chk %d cases.\n" % (self.chk_def, lo))
                if self.spec_def:
                    f.write("%s\nEval vm_compute in failing chk_spec %d cases.\n" % (self.spec_def, lo))
                if self.dom_def:
                    f.write("%s\nEval vm_compute in failing chk_dom %d cases.\n" % (self.dom_def, lo))
            files.append(path)
        procs = [subprocess.Popen(["timeout", "900", "coqc", "-noglob", "-Q", COQ, "PV", p], stdout=subprocess.PIPE, stderr=subprocess.STDOUT, text=True) for p in files]
        a, b, errors = [], [], []
        outside = []
        for p, path in zip(procs, files):
            out = p.communicate()[0]
            if p.returncode != 0:
                # a shard killed under memory pressure / overload (no Coq error message) is re-run once, alone
                if "Error" not in out:
                    p2 = subprocess.run(["timeout", "1800", "coqc", "-noglob", "-Q", COQ, "PV", path], stdout=subprocess.PIPE, stderr=subprocess.STDOUT, text=True)
                    out = p2.stdout
                    if p2.returncode == 0:
                        p.returncode = 0
            if p.returncode != 0:
                errors.append((path, out[-3000:])); continue
            ls = parse_nlist(out)
            if len(ls) > 0: a += ls[0]
            if len(ls) > 1: b += ls[1]
            if len(ls) > 2: outside += ls[2]
        if tag == "cases": self.outside_domain = sorted(outside)
        return sorted(a), sorted(b), errors

    def explain(self, case):
        return None

    def search(self, binp, seed, tier, budget_s=60):
        if not self.spec_def: return None
        t0 = time.time(); k = 0
        while time.time() - t0 < budget_s:
            k += 1
            r = random.Random(seed * 1000 + k)
            scs = self.gen(r, "thorough" if k > 1 else tier)[:400]
            outs = run_harness(binp, [s["line"] for s in scs], wall=600)
            cases = [self.case_term(s, o if o else "[EStuck]") for s, o in zip(scs, outs)]
            _, sf, errs = self.compare(cases, tag="search")
            if sf:
                i = sf[0]
                return dict(property=self.pid, tier=tier, seed=seed, kind="failing-input", scenario=scs[i], impl_trace=outs[i],
                            broken="the executable spec is false on the implementation's trace (found by widened search, round %d)" % k)
        return None


# ---------------------------------------------------------------- schedules
def gen_schedule(r, nth, n, style=None):
    """random schedule of n grants over nth threads; styles: uniform, bursty (few preemptions), pct-like priorities"""
    style = style or r.choice(["uniform", "bursty", "pct"])
    out = []
    if style == "uniform":
        out = [r.randrange(nth) for _ in range(n)]
    elif style == "bursty":
        t = r.randrange(nth)
        for _ in range(n):
            if r.random() < 0.15: t = r.randrange(nth)
            out.append(t)
    else:
        prio = list(range(nth)); r.shuffle(prio)
        change = set(r.sample(range(n), min(n, r.randint(1, 4)))) if n else set()
        for i in range(n):
            if i in change:
                p = prio.pop(0); prio.append(p)
            # highest priority thread; the harness falls back to round robin when it is not enabled
            out.append(prio[0] if r.random() < 0.85 else r.randrange(nth))
    return " ".join(str(t) + ("s" if r.random() < 0.04 else "") for t in out)
