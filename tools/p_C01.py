"""C01  Counter increments are never lost and never go backwards.

Flow of one run (class C01, machinery in atomic_conc.py / concprop.py):
 1. proofs: make Props/C01.vo (Model/AtomicConc, Proofs/AtomicConcFacts, Spec/SpecC01), Print Assumptions allowlist,
    forbidden-word scan;
 2. harness against the repository's working tree (sync shim on);
 3. scenarios `C ctr NF|NU | ...`: a real Counter (f64, load / compare_exchange_weak loop) or IntCounter (u64, fetch_add),
    standalone or fed by LocalCounter / LocalIntCounter flushes (each followed by a second flush that must do nothing),
    2-4 threads, 1-4 calls each (plus a final read) out of inc / inc_by / get / reset / local flush; increments are distinct powers of two
    (exact in binary64, subsets decode), most programs end with a read;
    schedules: forced preemption right after every load of the float loop (another thread writes inside the window),
    uniform / bursty / priority (PCT-like) schedules, spurious compare-exchange failures, maximal-overlap rounds;
    thorough: every interleaving of the atomic steps of 2 threads x 2 calls and 3 threads x 1 call (with and without one
    spurious failure; markers tight), every interleaving of ALL grants (markers included) of 2 x 2 and 3 x 1 configurations
    of both flavours, plus thousands of random ones;
 4. inside Coq: chk = trace_ok_fl (the trace is an execution of the model, every thread returned);
    chk_spec = Spec/SpecC01.spec_c01 on the call / return markers (read-subset, monotone reads, linearisation search);
 5. verdict as in concprop.ConcProp.run.
Not covered here: counters reached as children of a CounterVec (the child is the same GenericCounter / Value / Atomic*
cell; the vector's map is C10's harness object)."""
from atomic_conc import *


def pow2_pool(r, isf):
    """distinct powers of two; floats include fractions (2^-6 .. 2^20), integers 2^1 .. 2^40; 2^0 is left to `inc`"""
    exps = list(range(-6, 21)) if isf else list(range(1, 41))
    exps = [e for e in exps if e != 0]
    r.shuffle(exps)
    return exps


class C01(AtomicProp):
    pid = "C01"
    obj = "ctr"
    spec_def = ("Definition chk_spec (c : flavour * list event) : bool :=\n"
                "  spec_c01 (match fst c with FlFloat => true | FlInt => false end) (snd c).")
    rule = ("scenario = real Counter (f64) or IntCounter (u64), standalone or fed by local-counter flushes, 2-4 threads x 1-4 calls of "
            "inc / inc_by / get / reset / local flush (increments = distinct powers of two; most programs end with a read), run one "
            "atomic step at a time under a generated complete schedule: ~40% forced preemption right after each load of the float loop with "
            "another thread writing inside the window, else uniform / bursty / priority schedules, spurious compare-exchange failures, "
            "maximal-overlap rounds; thorough adds every interleaving of the atomic steps of 2x2 and 3x1 configurations (with one optional "
            "spurious failure) and every interleaving of all grants of small integer configurations.  non-trivial = calls of at least two "
            "threads overlap in real time in the implementation's trace and no thread hung or panicked; distinct = distinct scenario line")
    assumptions = ["interleaving semantics over the atomic operations of ONE cell (sequentially consistent per location); a relaxed get() returning "
                   "a stale value on hardware without multi-copy atomicity is not exhibited by the model (the property quantifies over interleavings "
                   "of atomic steps); memory orderings are recorded, not constrained",
                   "NaN payloads are canonicalised (Coq has one NaN); counters cannot hold NaN when fed with the documented non-negative amounts",
                   "c01_monotone: no wrap-around (u64) / non-negative non-NaN increments (f64) - the documented precondition of inc_by (debug_assert)",
                   "children of CounterVec reach the same GenericCounter -> Value -> AtomicF64 / AtomicU64 code (by inspection; vector scenarios are C10's)",
                   "sync shim, scheduler and harness are tested code, not verified; the shim replaces compare_exchange_weak by compare_exchange plus "
                   "scheduler-chosen spurious failures"]

    def __init__(self):
        AtomicProp.__init__(self)
        # fixed scenarios that run first: the lost-update window of the float loop, entered on purpose
        # (t0 load, t1 load, t1 cas ok, t0 cas FAILS, t0 load, t0 cas ok, then a read), and its integer counterpart
        self.corpus = [
            self.scenario(True, [[("inc",)], [("inc",), ("get",)]], "0 1 0 1 1 1 0 0 0 0 1 1 1", "corpus-window"),
            self.scenario(True, [[("incbyf", 2.0), ("get",)], [("lflushf", [1.0, 4.0])], [("reset",)]],
                          "0 1 2 0 1 1 1 0 0 0 0 2 2 0 0 0", "corpus-window"),
            self.scenario(False, [[("incbyu", 2), ("get",)], [("lflushu", [1, 4]), ("lflushu", [])]], "0 1 1 0 1 0 1 1 0 0 0", "corpus-window"),
        ]

    # ---- programs
    def programs(self, r, isf, nthreads=None, maxcalls=4, allow_reset=True):
        n = nthreads or r.choice([2, 2, 3, 3, 4])
        pool = pow2_pool(r, isf)
        use_reset = allow_reset and r.random() < 0.2
        progs = []
        for t in range(n):
            p = []
            for _ in range(r.randint(1, maxcalls)):
                if use_reset and r.random() < 0.22:
                    p.append(("reset",)); continue
                k = r.random()
                if k < 0.30 and pool:
                    e = pool.pop()
                    p.append(("incbyf", 2.0 ** e) if isf else ("incbyu", 1 << e))
                elif k < 0.45:
                    p.append(("inc",))
                elif k < 0.70:
                    p.append(("get",))
                elif k < 0.92 and pool:
                    m = r.choice([0, 1, 1, 2, 3])
                    vals = []
                    for _ in range(m):
                        if pool:
                            e = pool.pop(); vals.append(2.0 ** e if isf else 1 << e)
                    if m and r.random() < 0.1: vals = [0.0 if isf else 0] * m          # increments of zero: the flush must be a no-op
                    p.append(("lflushf", vals) if isf else ("lflushu", vals))
                elif use_reset:
                    p.append(("reset",))
                else:
                    p.append(("inc",))
            if r.random() < 0.7 and len(p) < maxcalls + 1 and p[-1] != ("get",):
                p.append(("get",))
            progs.append(p)
        return progs

    def random_scenario(self, r):
        isf = r.random() < 0.6
        progs = self.programs(r, isf)
        style = r.choice(STYLES if isf else ["uniform", "bursty", "pct", "rounds", "rounds", "uniform"])
        return self.scenario(isf, progs, make_schedule(r, isf, progs, style), style)

    def exhaustive(self):
        scs = []
        f1, f2, f4 = ("incbyf", 1.0), ("incbyf", 2.0), ("incbyf", 4.0)
        u1, u2, u4 = ("incbyu", 1), ("incbyu", 2), ("incbyu", 4)
        g = ("get",)
        tight = [
            (True, [[f1, g], [f2, g]], 1), (True, [[f1, f2], [f4, g]], 1), (True, [[f1], [f2], [g]], 1), (True, [[f1], [f2], [f4]], 0),
            (True, [[("lflushf", [1.0, 2.0]), g], [f4, g]], 1), (True, [[("inc",), g], [("reset",), g]], 0),
            (False, [[u1, g], [u2, g]], 0), (False, [[u1], [u2], [g]], 0), (False, [[("lflushu", [1, 2]), g], [u4, ("reset",)]], 0),
        ]
        for isf, progs, sp in tight:
            for s in enumerate_schedules(isf, progs, tight=True, max_spur=sp):
                scs.append(self.scenario(isf, progs, s, "exhaustive-atomic"))
        loose = [(False, [[u1, g], [u2, g]]), (False, [[u1], [u2], [g]]), (True, [[f1], [f2]]), (True, [[f1], [g]]),
                 (True, [[f1, g], [f2, g]]), (True, [[f1], [f2], [g]])]
        for isf, progs in loose:
            for s in enumerate_schedules(isf, progs, tight=False, max_spur=0):
                scs.append(self.scenario(isf, progs, s, "exhaustive-all-grants"))
        return scs

    def gen(self, r, tier):
        n = 900 if tier == "quick" else 6000
        scs = [self.random_scenario(r) for _ in range(n)]
        if tier != "quick":
            scs += self.exhaustive()
        else:
            # a small exhaustive block also in the quick tier: the two-thread float window, every interleaving
            progs = [[("incbyf", 1.0), ("get",)], [("incbyf", 2.0)]]
            scs += [self.scenario(True, progs, s, "exhaustive-atomic") for s in enumerate_schedules(True, progs, tight=True, max_spur=1)]
        return scs
