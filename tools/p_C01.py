"""C01  Counter increments are never lost and never go backwards.

Flow of one run (class C01, machinery in atomic_conc.py / concprop.py):
 1. proofs: make Props/C01.vo (Model/AtomicConc, Proofs/AtomicConcFacts, Spec/SpecC01), Print Assumptions allowlist,
    forbidden-word scan;
 2. harness against the repository's working tree (sync shim on);
 3. scenarios `C ctr NF|NU | ...`: a real Counter (f64, load / compare_exchange_weak loop) or IntCounter (u64, fetch_add),
    standalone or fed by LocalCounter / LocalIntCounter flushes (each followed by a second flush that must do nothing),
    2-4 threads, 1-4 calls each (plus a final read) out of inc / inc_by / get / reset / local flush; increments are distinct powers of two
    (exact in binary64, subsets decode), most programs end with a read;
    schedules: forced preemption right after every load of the float loop (another thread writes inside the window),
    uniform / bursty / priority (PCT-like) schedules, spurious compare-exchange failures, maximal-overlap rounds;
    thorough: every interleaving of the atomic steps of 2 threads x 2 calls and 3 threads x 1 call (with and without one
    spurious failure; markers tight), every interleaving of ALL grants (markers included) of 2 x 2 and 3 x 1 configurations
    of both flavours, plus thousands of random ones;
 4. inside Coq: chk = trace_ok_fl (the trace is an execution of the model, every thread returned);
    chk_spec = Spec/SpecC01.spec_c01 on the call / return markers (read-subset, monotone reads, linearisation search);
 5. verdict as in concprop.ConcProp.run.
Counter-vector children: `C vec <nl> | withinc <k> <d>, vcollect ...` scenarios (C10's harness object: one IntCounterVec, each
call = with_label_values(k).inc_by(d) or collect) with racing FIRST requests of the same new label tuple (every thread is
preempted between its read-unlock and its write-lock), distinct power-of-two increments and final collections; the trace is
validated with C10's validator (Model/VecConc.vcheck) and judged by Spec/SpecC01.spec_c01_vec: every collection shows, per label
tuple, all increments completed before it began plus a subset of the overlapping ones - so an increment made through a child that
the vector dropped is a failing input.  The theorems relied on are C10's (re-exported in Props/C01.v as c01_vec_child_*).
Tiny amounts: float local flushes also carry amounts far below f64::EPSILON (2^-80 .. 2^-56, 1e-17, subnormals k * 5e-324, and
sums of several): the model's flush skips only when the amount == 0, and the spec decodes every finite float exactly."""
from atomic_conc import *

VEC_LETTERS = ["a", "b", "c"]


def vkey(k):
    return "%d %s" % (len(k), " ".join(hexs(x) for x in k))


def vop_wire(op):
    return "withinc %s %d" % (vkey(op[1]), op[2]) if op[0] == "withinc" else op[0]


def pow2_pool(r, isf):
    """distinct powers of two; floats include fractions (2^-6 .. 2^20), integers 2^1 .. 2^40; 2^0 is left to `inc`"""
    exps = list(range(-6, 21)) if isf else list(range(1, 41))
    exps = [e for e in exps if e != 0]
    r.shuffle(exps)
    return exps


class C01(AtomicProp):
    pid = "C01"
    obj = "ctr"
    imports = "Require Import PV.Model.AtomicConc PV.Spec.SpecC01.\nRequire PV.Model.VecConc.\nRequire PV.Proofs.AtomicSpecFull PV.Proofs.AtomicSpecFloat PV.Proofs.C01VecSpec."
    # the domains of c01_spec_of_validated_int / c01_spec_of_validated_float / c01_vec_spec_of_validated
    dom_def = ("Definition chk_dom (c : (flavour * list event) + (nat * nat * list event)) : bool :=\n"
               "  match c with\n"
               "  | inl a => match fst a with FlFloat => PV.Proofs.AtomicSpecFloat.dom01_float_full (snd a) | FlInt => PV.Proofs.AtomicSpecFull.dom01_int (snd a) end\n"
               "  | inr v => PV.Proofs.C01VecSpec.dom_c01_vec (snd (fst v)) (snd v)\n"
               "  end.")
    # a case is a counter trace (flavour, events) or a vector trace (label names, threads, events)
    case_type = "(flavour * list event) + (nat * nat * list event)"
    chk_def = ("Definition chk (c : (flavour * list event) + (nat * nat * list event)) : bool :=\n"
               "  match c with inl a => trace_ok_fl a | inr v => PV.Model.VecConc.vcheck (fst (fst v)) (snd (fst v)) (snd v) end.")
    spec_def = ("Definition chk_spec (c : (flavour * list event) + (nat * nat * list event)) : bool :=\n"
                "  match c with\n"
                "  | inl a => spec_c01 (match fst a with FlFloat => true | FlInt => false end) (snd a)\n"
                "  | inr v => spec_c01_vec (snd v)\n"
                "  end.")
    rule = ("16% counter-vector scenarios (real IntCounterVec, 2-3 threads whose first call is with_label_values(k0).inc_by(2^i) on the same new "
            "label tuple, further increments / collections, every thread ends with a collection; 50% of them preempt every thread between its "
            "read-unlock and its write-lock; validated by C10's vcheck, judged by spec_c01_vec); 10% tiny-amount scenarios (float local flushes of "
            "amounts in 2^-80..2^-56, 1e-17, subnormals, sums of several); otherwise "
            "scenario = real Counter (f64) or IntCounter (u64), standalone or fed by local-counter flushes, 2-4 threads x 1-4 calls of "
            "inc / inc_by / get / reset / local flush (increments = distinct powers of two; most programs end with a read), run one "
            "atomic step at a time under a generated complete schedule: ~40% forced preemption right after each load of the float loop with "
            "another thread writing inside the window, else uniform / bursty / priority schedules, spurious compare-exchange failures, "
            "maximal-overlap rounds; thorough adds every interleaving of the atomic steps of 2x2 and 3x1 configurations (with one optional "
            "spurious failure) and every interleaving of all grants of small integer configurations.  non-trivial = calls of at least two "
            "threads overlap in real time in the implementation's trace and no thread hung or panicked; distinct = distinct scenario line")
    assumptions = ["interleaving semantics over the atomic operations of ONE cell (sequentially consistent per location); a relaxed get() returning "
                   "a stale value on hardware without multi-copy atomicity is not exhibited by the model (the property quantifies over interleavings "
                   "of atomic steps); memory orderings are recorded, not constrained",
                   "NaN payloads are canonicalised (Coq has one NaN); counters cannot hold NaN when fed with the documented non-negative amounts",
                   "c01_monotone: no wrap-around (u64) / non-negative non-NaN increments (f64) - the documented precondition of inc_by (debug_assert)",
                   "counter-vector children: the statements relied on are C10's theorems about C10's vector model (re-exported as c01_vec_child_*); the scenarios "
                   "use IntCounterVec (the harness object); a float CounterVec child is the same MetricVec code around the AtomicF64 cell covered standalone",
                   "check (A) of the spec needs exact binary64 sums: applied when all amounts of a trace fit one 53-bit window (the generator's pools), skipped otherwise",
                   "sync shim, scheduler and harness are tested code, not verified; the shim replaces compare_exchange_weak by compare_exchange plus "
                   "scheduler-chosen spurious failures"]

    def __init__(self):
        AtomicProp.__init__(self)
        # fixed scenarios that run first: the lost-update window of the float loop, entered on purpose
        # (t0 load, t1 load, t1 cas ok, t0 cas FAILS, t0 load, t0 cas ok, then a read), and its integer counterpart
        self.corpus = [
            self.scenario(True, [[("inc",)], [("inc",), ("get",)]], "0 1 0 1 1 1 0 0 0 0 1 1 1", "corpus-window"),
            self.scenario(True, [[("incbyf", 2.0), ("get",)], [("lflushf", [1.0, 4.0])], [("reset",)]],
                          "0 1 2 0 1 1 1 0 0 0 0 2 2 0 0 0", "corpus-window"),
            self.scenario(False, [[("incbyu", 2), ("get",)], [("lflushu", [1, 4]), ("lflushu", [])]], "0 1 1 0 1 0 1 1 0 0 0", "corpus-window"),
            # a local amount far below f64::EPSILON is still flushed; a subnormal one too
            self.scenario(True, [[("lflushf", [1e-17]), ("get",)], [("get",)]], "0 0 0 0 1 1 1 0 0 0", "corpus-tiny"),
            self.scenario(True, [[("lflushf", [5e-324, 1e-323]), ("get",)], [("lflushf", [2e-323]), ("get",)]], "0 1 0 1 1 0 0 0 1 1 0 0 0 1 1 1", "corpus-tiny"),
        ]

    # ---- programs
    def programs(self, r, isf, nthreads=None, maxcalls=4, allow_reset=True):
        n = nthreads or r.choice([2, 2, 3, 3, 4])
        pool = pow2_pool(r, isf)
        use_reset = allow_reset and r.random() < 0.2
        progs = []
        for t in range(n):
            p = []
            for _ in range(r.randint(1, maxcalls)):
                if use_reset and r.random() < 0.22:
                    p.append(("reset",)); continue
                k = r.random()
                if k < 0.30 and pool:
                    e = pool.pop()
                    p.append(("incbyf", 2.0 ** e) if isf else ("incbyu", 1 << e))
                elif k < 0.45:
                    p.append(("inc",))
                elif k < 0.70:
                    p.append(("get",))
                elif k < 0.92 and pool:
                    m = r.choice([0, 1, 1, 2, 3])
                    vals = []
                    for _ in range(m):
                        if pool:
                            e = pool.pop(); vals.append(2.0 ** e if isf else 1 << e)
                    if m and r.random() < 0.1: vals = [0.0 if isf else 0] * m          # increments of zero: the flush must be a no-op
                    if isf and vals and r.random() < 0.08: vals = [r.choice([1e-17, 2.0 ** -60, 5e-324])]   # far below f64::EPSILON, not zero
                    p.append(("lflushf", vals) if isf else ("lflushu", vals))
                elif use_reset:
                    p.append(("reset",))
                else:
                    p.append(("inc",))
            if r.random() < 0.7 and len(p) < maxcalls + 1 and p[-1] != ("get",):
                p.append(("get",))
            progs.append(p)
        return progs

    # ---- amounts far below f64::EPSILON in local flushes (a flush is a no-op only when the amount == 0)
    def tiny_programs(self, r):
        n = r.choice([2, 2, 3])
        fam = r.choice(["pow2", "pow2", "subnormal", "single"])
        if fam == "pow2": pool = [2.0 ** -e for e in range(56, 81)]
        elif fam == "subnormal": pool = [5e-324 * (1 << k) for k in range(0, 21)]
        else: pool = [r.choice([1e-17, 3e-17, 2.2e-16, 1.1e-16, 5e-324, 2.0 ** -60])]
        r.shuffle(pool)
        progs = []
        for t in range(n):
            p = []
            for _ in range(r.randint(1, 3)):
                k = r.random()
                if k < 0.6 and pool:
                    vals = [pool.pop() for _ in range(min(len(pool), r.choice([1, 1, 2, 3])))]
                    p.append(("lflushf", vals))
                elif k < 0.7 and pool and fam != "single":
                    p.append(("incbyf", pool.pop()))
                elif k < 0.8:
                    p.append(("lflushf", [0.0] * r.randint(0, 2)))
                else:
                    p.append(("get",))
            if p[-1] != ("get",): p.append(("get",))
            progs.append(p)
        return progs

    def tiny_scenario(self, r):
        progs = self.tiny_programs(r)
        style = r.choice(STYLES)
        return self.scenario(True, progs, make_schedule(r, True, progs, style), "tiny-" + style)

    # ---- counters reached through a counter vector
    def vec_scenario(self, r):
        nl = r.choice([1, 1, 2]); nth = r.choice([2, 2, 3])
        keys = [[x] for x in VEC_LETTERS] if nl == 1 else [[x, y] for x in VEC_LETTERS[:2] for y in VEC_LETTERS[:2]]
        r.shuffle(keys); keys = keys[:r.choice([1, 2, 2, 3])]
        d = [0]

        def nxt():
            d[0] += 1; return 1 << (d[0] - 1)
        k0 = keys[0]
        progs = []
        for t in range(nth):
            p = [("withinc", k0, nxt())]                     # racing first requests of the same new label tuple
            for _ in range(r.randint(0, 2)):
                p.append(("withinc", r.choice(keys), nxt()) if r.random() < 0.7 else ("vcollect",))
            p = p[:3] + [("vcollect",)]
            progs.append(p)
        order = list(range(nth)); r.shuffle(order)
        style = r.choice(["race", "race", "race", "uniform", "bursty", "pct"])
        total = sum(8 for p in progs for o in p) + 8
        if style == "race":
            # call marker, read-lock, read-unlock, then preempted: every creator has missed before the first write lock
            sched = [t for t in order for _ in range(3)]
            if r.random() < 0.5: sched += [t for t in order for _ in range(5)]
            sched += [r.randrange(nth) for _ in range(total)]
            sched = " ".join(map(str, sched))
        else:
            sched = gen_schedule(r, nth, total, style).replace("s", "")
        line = "C vec %d | %s | S %s" % (nl, " | ".join(", ".join(vop_wire(o) for o in p) for p in progs), sched)
        return dict(line=line, isf=False, vec=True, nl=nl, nthreads=nth, kind="vec-" + style, ncalls=sum(len(p) for p in progs))

    def case_term(self, sc, out):
        if sc.get("vec"):
            return "inr (%d%%nat, %d%%nat, %s)" % (sc["nl"], sc["nthreads"], out)
        return "inl (%s, %s)" % ("FlFloat" if sc["isf"] else "FlInt", out)

    def explain(self, case):
        path = os.path.join(BUILD, "cases", self.pid + "_explain.v")
        os.makedirs(os.path.dirname(path), exist_ok=True)
        with open(path, "w") as fh:
            fh.write(CONC_HDR % self.imports)
            fh.write("Definition c : %s := %s.\n" % (self.case_type, case))
            fh.write("Eval vm_compute in match c with\n"
                     "  | inl a => (first_reject a, nth_error (snd a) (match first_reject a with Some i => N.to_nat i | None => 0%nat end))\n"
                     "  | inr v => let r := fst (validate PV.Model.VecConc.vexec (PV.Model.VecConc.vinit (fst (fst v))) 0 (snd v)) in\n"
                     "             (r, nth_error (snd v) (match r with Some i => N.to_nat i | None => 0%nat end))\n"
                     "  end.\n")
        rc, out = sh(["timeout", "120", "coqc", "-noglob", "-Q", COQ, "PV", path])
        return out.strip()[-600:]

    def random_scenario(self, r):
        x = r.random()
        if x < 0.16: return self.vec_scenario(r)
        if x < 0.26: return self.tiny_scenario(r)
        isf = r.random() < 0.6
        progs = self.programs(r, isf)
        style = r.choice(STYLES if isf else ["uniform", "bursty", "pct", "rounds", "rounds", "uniform"])
        return self.scenario(isf, progs, make_schedule(r, isf, progs, style), style)

    def exhaustive(self):
        scs = []
        f1, f2, f4 = ("incbyf", 1.0), ("incbyf", 2.0), ("incbyf", 4.0)
        u1, u2, u4 = ("incbyu", 1), ("incbyu", 2), ("incbyu", 4)
        g = ("get",)
        tight = [
            (True, [[f1, g], [f2, g]], 1), (True, [[f1, f2], [f4, g]], 1), (True, [[f1], [f2], [g]], 1), (True, [[f1], [f2], [f4]], 0),
            (True, [[("lflushf", [1.0, 2.0]), g], [f4, g]], 1), (True, [[("inc",), g], [("reset",), g]], 0),
            (False, [[u1, g], [u2, g]], 0), (False, [[u1], [u2], [g]], 0), (False, [[("lflushu", [1, 2]), g], [u4, ("reset",)]], 0),
        ]
        for isf, progs, sp in tight:
            for s in enumerate_schedules(isf, progs, tight=True, max_spur=sp):
                scs.append(self.scenario(isf, progs, s, "exhaustive-atomic"))
        loose = [(False, [[u1, g], [u2, g]]), (False, [[u1], [u2], [g]]), (True, [[f1], [f2]]), (True, [[f1], [g]]),
                 (True, [[f1, g], [f2, g]]), (True, [[f1], [f2], [g]])]
        for isf, progs in loose:
            for s in enumerate_schedules(isf, progs, tight=False, max_spur=0):
                scs.append(self.scenario(isf, progs, s, "exhaustive-all-grants"))
        return scs

    def gen(self, r, tier):
        n = 900 if tier == "quick" else 6000
        scs = [self.random_scenario(r) for _ in range(n)]
        if tier != "quick":
            scs += self.exhaustive()
        else:
            # a small exhaustive block also in the quick tier: the two-thread float window, every interleaving
            progs = [[("incbyf", 1.0), ("get",)], [("incbyf", 2.0)]]
            scs += [self.scenario(True, progs, s, "exhaustive-atomic") for s in enumerate_schedules(True, progs, tight=True, max_spur=1)]
        return scs
