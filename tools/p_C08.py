"""C08  Bucket counts follow 'value <= upper bound' for every input."""
import struct
from props import *


def fval(x):
    """Python float of an F (bit pattern)"""
    return struct.unpack("<d", struct.pack("<Q", x.bits))[0]


def isnan(x):
    return fval(x) != fval(x)


# 12-value pool of the exhaustive part (thorough tier): every bucket list of length <= 3 over it
POOL12 = [NAN, NINF, f64(-1.0), NZERO, f64(0.0), f64(5e-324), f64(0.5), f64(1.0), f64(1.0000000000000002), f64(2.5), f64(1e300), PINF]

NUMBERS = [x for x in gens.FLOAT_POOL if not isnan(x)]
FINITE = [x for x in NUMBERS if x.bits not in (PINF.bits, NINF.bits)]


def sorted_bounds(r, n):
    """n strictly increasing numbers (numerically distinct: never both zeros)"""
    seen = {}
    for x in r.sample(NUMBERS, min(len(NUMBERS), n + 3)):
        if x.bits == PINF.bits: continue
        seen.setdefault(fval(x), x)
    vals = sorted(seen.values(), key=fval)
    if len(vals) > n:
        start = r.randint(0, len(vals) - n)
        vals = vals[start:start + n] if r.random() < 0.5 else sorted(r.sample(vals, n), key=fval)
    return vals


def bucket_list(r):
    """(list, expected-to-be-acceptable hint) -- mostly valid lists, plus a malformed stream"""
    k = r.random()
    if k < 0.07: return []
    if k < 0.55:
        b = sorted_bounds(r, r.randint(1, 6))
        if r.random() < 0.25: b = b + [PINF]
        return b
    if k < 0.60: return r.choice([[PINF], [NINF], [NINF, PINF], [NZERO], [f64(0.0)], [NAN], [f64(5e-324)], [F(0x000fffffffffffff), F(0x0010000000000000)]])
    if k < 0.66: return r.choice([[NZERO, f64(0.0)], [f64(0.0), NZERO], [f64(1.0), f64(1.0)], [PINF, PINF], [f64(1.0), PINF, PINF], [f64(1.0), PINF, f64(2.5)],
                                  [f64(2.5), f64(1.0)], [NINF, NINF], [f64(1.0), NAN], [NAN, f64(1.0)], [f64(1.0), NAN, f64(0.5)], [f64(1.0), NAN, f64(2.5)],
                                  [f64(1.0), f64(2.5), NAN], [NAN, PINF]])
    b = sorted_bounds(r, r.randint(2, 5))
    if r.random() < 0.25: b = b + [PINF]
    m = r.random()
    if m < 0.3 and b:                      # a NaN somewhere
        b.insert(r.randint(0, len(b)), NAN)
    elif m < 0.5 and b:                    # a duplicate neighbour
        i = r.randrange(len(b)); b.insert(i, b[i])
    elif m < 0.7 and len(b) >= 2:          # two bounds swapped
        i, j = r.sample(range(len(b)), 2); b[i], b[j] = b[j], b[i]
    elif m < 0.8 and b:                    # a neighbour by one ulp in the wrong direction
        i = r.randrange(len(b)); b.insert(i + 1, gens.nextafter_bits(b[i], False))
    elif m < 0.9:
        b = [gens.some_float(r) for _ in range(r.randint(1, 4))]
    else:                                  # +inf not at the end
        b.insert(r.randint(0, max(0, len(b) - 1)), PINF)
    return b


def looks_acceptable(b):
    """used ONLY to shape scenarios (few operations after a refused constructor), never for a verdict"""
    if not b: return True
    if any(isnan(x) for x in b): return False
    return all(fval(x) < fval(y) for x, y in zip(b, b[1:]))


def observation(r, bounds):
    k = r.random()
    if bounds and k < 0.35: return r.choice(bounds)                                             # a bound itself
    if bounds and k < 0.6: return gens.nextafter_bits(r.choice(bounds), r.random() < 0.5)      # its neighbours
    if k < 0.7: return r.choice([NAN, PINF, NINF, NZERO, f64(0.0), f64(5e-324), F(0x8000000000000001)])
    return gens.some_float(r)


def hist_opts(r, valid=0.97):
    if r.random() < valid:
        consts = [("c", "1")] if r.random() < 0.15 else []
        return mkopts(r.choice(["h", "lat", "req_seconds", "a:b"]), "help", consts=consts)
    return r.choice([mkopts("", "help"), mkopts("h", ""), mkopts("h", "help", consts=[("le", "1")]), mkopts("9h", "help"),
                     mkopts("h", "help", vars_=["v"]), mkopts("h", "help", consts=[("bad-name", "1")])])


class C08(SeqProp):
    pid = "C08"
    spec_import = "Require Import PV.Spec.SpecC08.\nRequire PV.Proofs.C08Spec."
    dom_fn = "PV.Proofs.C08Spec.dom08"     # the domain of the uniform spec-of-model theorem (counted in the evidence)
    spec_fn = "spec_c08"
    rule = ("each scenario builds one Histogram, HistogramVec (+ children) or a helper-made bucket list from a float pool (bounds, +-0, subnormals, "
            "+-inf, NaN, duplicates, unordered, empty, [+inf]), observes values from the same pool, the bounds themselves and their one-ulp "
            "neighbours directly and through LocalHistograms (flush / clear / drop), and interleaves several collections and "
            "sample_sum / sample_count reads; non-trivial = the scenario reached a collection of a histogram with at least one observation, "
            "or a bucket list was refused; distinct = distinct scenario text")
    assumptions = ["total number of observations per histogram < 2^63 (no counter wrap); the generator stays far below",
                   "one thread: the concurrent behaviour of the same code is C02/C03",
                   "NaN payloads are canonicalised on both sides (Coq has one NaN)",
                   "with local histograms the sum is the fold in which each flushed batch contributes its own sum as one addend"]

    # ---------------------------------------------------------------- scenario shapes
    def direct(self, r, buckets=None, nobs=None):
        s = Slots()
        b = bucket_list(r) if buckets is None else buckets
        h = s.emit("OpHistogram", dict(opts=hist_opts(r), buckets=b))
        eff = [x for x in b if not isnan(x)]
        if not looks_acceptable(b) and r.random() < 0.8:
            s.emit("OpObserve", h, observation(r, eff)); s.emit("OpCollect", h)
            return s.ops
        for _ in range(r.randint(1, 3)):
            for _ in range(r.randint(0, 6) if nobs is None else nobs):
                s.emit("OpObserve", h, observation(r, eff))
            k = r.random()
            if k < 0.6: s.emit("OpCollect", h)
            elif k < 0.8: s.emit("OpSampleSum", h)
            else: s.emit("OpSampleCount", h)
        s.emit("OpCollect", h)
        if r.random() < 0.3:
            s.emit("OpSampleSum", h); s.emit("OpSampleCount", h)
        return s.ops

    def with_local(self, r):
        s = Slots()
        b = bucket_list(r) if r.random() < 0.3 else (sorted_bounds(r, r.randint(1, 5)) + ([PINF] if r.random() < 0.2 else []))
        h = s.emit("OpHistogram", dict(opts=hist_opts(r, 1.0), buckets=b))
        eff = [x for x in b if not isnan(x)]
        locs = [s.emit("OpLocal", h)]
        for _ in range(r.randint(4, 18)):
            k = r.random()
            live = [l for l in locs if l is not None]
            if k < 0.25: s.emit("OpObserve", h, observation(r, eff))
            elif k < 0.55 and live: s.emit("OpObserve", r.choice(live), observation(r, eff))
            elif k < 0.67 and live: s.emit("OpFlush", r.choice(live))
            elif k < 0.71 and live: s.emit("OpClear", r.choice(live))
            elif k < 0.75 and live:
                l = r.choice(live); s.emit("OpDrop", l); locs[locs.index(l)] = None
            elif k < 0.80: locs.append(s.emit("OpLocal", h))
            elif k < 0.83 and live: locs.append(s.emit("OpClone", r.choice(live)))
            elif k < 0.93: s.emit("OpCollect", h)
            elif k < 0.96:
                t = r.choice(live + [h]); s.emit(r.choice(["OpSampleSum", "OpSampleCount"]), t)
            else: s.emit("OpSampleSum", h)
        for l in locs:
            if l is not None and r.random() < 0.5: s.emit(r.choice(["OpFlush", "OpDrop"]), l)
        s.emit("OpCollect", h); s.emit("OpSampleSum", h); s.emit("OpSampleCount", h)
        return s.ops

    def vec(self, r):
        s = Slots()
        b = bucket_list(r)
        labels = r.choice([["l"], ["a", "b"], ["l"]])
        o = hist_opts(r, 0.98)
        o = dict(o); o["vars"] = []
        v = s.emit("OpHistVec", dict(opts=o, buckets=b), labels)
        eff = [x for x in b if not isnan(x)]
        tuples = [[r.choice(["x", "y", "", "xy"]) for _ in labels] for _ in range(2)]
        kids, locs = [], []
        for _ in range(r.randint(3, 14) if looks_acceptable(b) or r.random() < 0.2 else 3):
            k = r.random()
            if k < 0.25 or not kids:
                t = r.choice(tuples)
                if r.random() < 0.06: t = t + ["z"]                   # wrong cardinality: refused for another reason
                kids.append(s.emit("OpWith", v, t))
            elif k < 0.6: s.emit("OpObserve", r.choice(kids), observation(r, eff))
            elif k < 0.68: locs.append(s.emit("OpLocal", r.choice(kids)))
            elif k < 0.78 and locs: s.emit("OpObserve", r.choice(locs), observation(r, eff))
            elif k < 0.84 and locs: s.emit("OpFlush", r.choice(locs))
            elif k < 0.92: s.emit("OpCollect", r.choice(kids + [v]))
            else: s.emit(r.choice(["OpSampleSum", "OpSampleCount"]), r.choice(kids))
        s.emit("OpCollect", v)
        return s.ops

    def helper(self, r):
        s = Slots()
        cnt = r.choice([0, 1, 2, 3, 5, 11, 64, r.randint(0, 64)])
        if r.random() < 0.5:
            start = r.choice([gens.some_float(r), f64(r.choice([0.0, 1.0, -3.0, 0.1, 1e16, 1e308])), f64(r.uniform(-10, 10))])
            width = r.choice([gens.some_float(r), f64(r.choice([1.0, 0.1, 0.5, 1e-3, 1e307, 5e-324, 2.0 ** -53])), f64(r.uniform(0, 5))])
            s.emit("OpLinearBuckets", start, width, cnt)
            sv, wv = fval(start), fval(width)
            made = [f64(sv + wv * float(i)) for i in range(cnt)] if cnt >= 1 and not (wv <= 0.0) else None
        else:
            start = r.choice([gens.some_float(r), f64(r.choice([1.0, 0.005, 1e-300, 1e300, 5e-324, 1e-310])), f64(r.uniform(0, 10))])
            factor = r.choice([gens.some_float(r), f64(r.choice([2.0, 1.5, 10.0, 1.0000000000000002, 1e10, 1.0])), f64(r.uniform(0.5, 4))])
            s.emit("OpExpBuckets", start, factor, cnt)
            sv, fv = fval(start), fval(factor)
            made = None
            if cnt >= 1 and not (sv <= 0.0) and not (fv <= 1.0):
                made, nxt = [], sv
                for _ in range(cnt):
                    made.append(f64(nxt)); nxt = nxt * fv
        if made is not None and len(made) <= 12:
            # the list the helper makes, used as a configuration (the helpers do not promise an acceptable one)
            made = [NAN if isnan(x) else x for x in made]
            h = s.emit("OpHistogram", dict(opts=mkopts("h", "help"), buckets=made))
            eff = [x for x in made if not isnan(x)]
            for _ in range(r.randint(1, 5)): s.emit("OpObserve", h, observation(r, eff))
            s.emit("OpCollect", h)
        return s.ops

    def exhaustive(self):
        import itertools
        out = []
        for n in range(0, 4):
            for b in itertools.product(POOL12, repeat=n):
                s = Slots()
                h = s.emit("OpHistogram", dict(opts=mkopts("h", "help"), buckets=list(b)))
                for x in POOL12: s.emit("OpObserve", h, x)
                s.emit("OpCollect", h)
                out.append(s.ops)
        return out

    def gen(self, r, tier):
        n = 800 if tier == "quick" else 8000
        out = []
        for i in range(n):
            k = r.random()
            if k < 0.40: out.append(self.direct(r))
            elif k < 0.65: out.append(self.with_local(r))
            elif k < 0.88: out.append(self.vec(r))
            else: out.append(self.helper(r))
        if tier != "quick":
            out += self.exhaustive()
        return out

    def nontrivial(self, ops, o):
        import re
        return bool(re.search(r"mkHist [1-9]", o)) or ("ORes (Err" in o)
