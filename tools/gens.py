"""Scenario generators.  Every random choice comes from the `random.Random` passed in."""
from pvlib import *

# ---------------------------------------------------------------- pools
GOOD_FIRST = "abcxyzABZ_"
GOOD_REST = "abcxyz_019AZ"
ODD_CHARS = ["-", " ", "é", "Ａ", "٣", "$", ".", "9", ":", "ÿ", "😀", "\\", "\"", "\n"]


def label_name(r, valid=0.85, maxlen=4):
    if r.random() < valid:
        return r.choice(GOOD_FIRST) + "".join(r.choice(GOOD_REST) for _ in range(r.randint(0, maxlen - 1)))
    k = r.random()
    if k < 0.15: return ""
    if k < 0.3: return "le"
    if k < 0.45: return r.choice("0123456789") + "".join(r.choice(GOOD_REST) for _ in range(r.randint(0, 2)))
    if k < 0.6: return r.choice(GOOD_FIRST) + ":" + r.choice(GOOD_REST)
    s = list(r.choice(GOOD_FIRST) + "".join(r.choice(GOOD_REST) for _ in range(r.randint(0, 2))))
    s.insert(r.randint(0, len(s)), r.choice(ODD_CHARS))
    return "".join(s)


def metric_name(r, valid=0.85, maxlen=5):
    if r.random() < valid:
        return r.choice(GOOD_FIRST + ":") + "".join(r.choice(GOOD_REST + ":") for _ in range(r.randint(0, maxlen - 1)))
    k = r.random()
    if k < 0.2: return ""
    if k < 0.4: return r.choice("0123456789") + "".join(r.choice(GOOD_REST) for _ in range(r.randint(0, 2)))
    s = list(r.choice(GOOD_FIRST) + "".join(r.choice(GOOD_REST) for _ in range(r.randint(0, 2))))
    s.insert(r.randint(0, len(s)), r.choice(ODD_CHARS))
    return "".join(s)


VALUE_ATOMS = ["", "a", "b", "ab", "abc", "bc", "c", "é", "😀", "ÿ", "a\u0000", "\u007f", "\\", "\"", "\n", "x y", "\\n",
               "indbfqeysbnpsf", "ivltldgmoctybd", "0", "1", "10", "2", "A", "~"]


def label_value(r):
    k = r.random()
    if k < 0.7: return r.choice(VALUE_ATOMS)
    return "".join(r.choice(["a", "b", "c", "é", "ÿ", "", "1", "\\", "\"", "\n"]) for _ in range(r.randint(0, 4)))


def help_text(r, nonempty=0.9):
    if r.random() > nonempty: return ""
    return r.choice(["h", "help", "help text", "h\\n", "multi\nline", "ünï", "a", "b", "ab", "\"q\"", " lead", "trail ", "\\", "h\\"])


def split_variants(s):
    """all ways to split s into two (possibly empty) parts"""
    return [(s[:i], s[i:]) for i in range(len(s) + 1)]


FLOAT_POOL = [f64(0.0), NZERO, f64(1.0), f64(-1.0), f64(0.5), f64(0.1), f64(0.2), f64(0.3), f64(2.5), f64(1e300), f64(-1e300), f64(5e-324),
              F(0x000fffffffffffff), f64(1e-310), PINF, NINF, NAN, f64(0.005), f64(0.01), f64(10.0), f64(100.0), f64(3.0), f64(1e16), f64(1.0000000000000002),
              F(0x3fefffffffffffff), f64(1e308), f64(123456.789), f64(-0.1)]


def nextafter_bits(b, up=True):
    """neighbour of a finite positive/negative f64 by bit pattern"""
    if b.bits in (PINF.bits, NINF.bits, NAN.bits): return b
    neg = b.bits >> 63
    mag = b.bits & ((1 << 63) - 1)
    if mag == 0:
        return F(1) if up else F((1 << 63) | 1)
    if (neg == 0) == up: mag += 1
    else: mag -= 1
    return F((neg << 63) | mag)


def some_float(r, pool=FLOAT_POOL):
    k = r.random()
    if k < 0.75: return r.choice(pool)
    if k < 0.9: return nextafter_bits(r.choice(pool), r.random() < 0.5)
    return f64(r.choice([1, -1]) * r.random() * 10 ** r.randint(-5, 5))


def gen_opts(r, valid=0.85, nconst=(0, 3)):
    name = metric_name(r, valid)
    ns = metric_name(r, valid, 3) if r.random() < 0.2 else ""
    sub = metric_name(r, valid, 3) if r.random() < 0.2 else ""
    consts = [(label_name(r, valid), label_value(r)) for _ in range(r.randint(*nconst))]
    if consts and r.random() < 0.1:
        consts.append((consts[0][0], label_value(r)))      # HashMap insert overrides
    return mkopts(name, help_text(r, 0.9 if valid > 0.5 else 0.6), ns, sub, consts)


def good_buckets(r):
    n = r.randint(1, 5)
    vals = sorted(set(r.choice([-1.0, 0.0, 0.005, 0.1, 0.5, 1.0, 2.5, 10.0, 100.0, 1e300]) for _ in range(n)))
    b = [f64(v) for v in vals]
    if r.random() < 0.2: b.append(PINF)
    return b


def any_buckets(r):
    k = r.random()
    if k < 0.15: return []
    if k < 0.6: return good_buckets(r)
    return [some_float(r) for _ in range(r.randint(1, 4))]


# ---------------------------------------------------------------- a general history generator
class Hist:
    """emits a random well-typed history over all sequential operations; `weights` biases op families"""
    def __init__(self, r, valid=0.9):
        self.r = r; self.s = Slots(); self.ty = []      # intended type per slot
        self.valid = valid
        self.labels = {}                                # vec slot -> label names
        self.tuples = {}                                # vec slot -> tuples used

    def new(self, ty, *op):
        i = self.s.emit(*op); self.ty.append(ty); return i

    def of(self, *tys):
        return [i for i, t in enumerate(self.ty) if t in tys]

    def pick(self, *tys):
        c = self.of(*tys)
        return self.r.choice(c) if c else None

    def numfor(self, ty, nonneg=True):
        r = self.r
        if ty in ("CF", "LCF", "VCF", "LVCF"):
            return ("VF", r.choice([f64(1.0), f64(0.5), f64(0.1), f64(2.0 ** r.randint(0, 20)), f64(0.0), f64(1e300), f64(3.25)]))
        if ty in ("GF", "VGF"):
            return ("VF", some_float(r))
        if ty in ("CU", "LCU", "VCU", "LVCU"):
            return ("VU", r.choice([0, 1, 2, 7, 2 ** r.randint(0, 40), 2 ** 63, 2 ** 64 - 1]) if ty in ("CU", "VCU") else r.choice([0, 1, 2, 7, 2 ** r.randint(0, 40)]))
        return ("VI", r.choice([0, 1, -1, 5, -7, 2 ** 62, -2 ** 63, 2 ** 63 - 1, r.randint(-1000, 1000)]))

    def tuple_for(self, v, wrong=0.08):
        r = self.r
        names = self.labels.get(v, [])
        n = len(names)
        if r.random() < wrong:
            n = max(0, n + r.choice([-1, 1]))
        used = self.tuples.setdefault(v, [])
        if used and r.random() < 0.5 and n == len(names):
            t = list(r.choice(used))
            if r.random() < 0.3 and len(t) >= 2:
                # shift a boundary between two neighbouring values
                i = r.randrange(len(t) - 1)
                joined = t[i] + t[i + 1]
                a, b = r.choice(split_variants(joined))
                t[i], t[i + 1] = a, b
            return t
        t = [label_value(r) for _ in range(n)]
        if n == len(names): used.append(tuple(t))
        return t

    def step(self):
        r = self.r; s = self.s
        k = r.random()
        if k < 0.12 or not self.ty:
            kind = r.choice(["CF", "CU", "GF", "GI", "H", "VCF", "VCU", "VGF", "VGI", "VH", "VCF", "VH"])
            o = gen_opts(r, self.valid)
            if kind in ("CF", "CU"): return self.new(kind, "OpCounter", "N" + kind[1], o)
            if kind in ("GF", "GI"): return self.new(kind, "OpGauge", "N" + kind[1], o)
            if kind == "H": return self.new(kind, "OpHistogram", dict(opts=o, buckets=any_buckets(r) if r.random() < 0.3 else good_buckets(r)))
            labels = [label_name(r, self.valid) for _ in range(r.randint(1, 3))]
            if r.random() < 0.05: labels = []
            if kind in ("VCF", "VCU"): i = self.new(kind, "OpCounterVec", "N" + kind[2], o, labels)
            elif kind in ("VGF", "VGI"): i = self.new(kind, "OpGaugeVec", "N" + kind[2], o, labels)
            else: i = self.new(kind, "OpHistVec", dict(opts=o, buckets=any_buckets(r) if r.random() < 0.2 else good_buckets(r)), labels)
            self.labels[i] = labels
            return i
        if k < 0.30:
            v = self.pick("VCF", "VCU", "VGF", "VGI", "VH")
            if v is None: return
            child = {"VCF": "CF", "VCU": "CU", "VGF": "GF", "VGI": "GI", "VH": "H"}[self.ty[v]]
            t = self.tuple_for(v)
            if r.random() < 0.3:
                names = self.labels.get(v, [])
                kvs = list(zip(names, t))
                r.shuffle(kvs)
                if r.random() < 0.1 and kvs: kvs[0] = (label_name(r), kvs[0][1])
                return self.new(child, "OpWithMap", v, kvs)
            return self.new(child, "OpWith", v, t)
        if k < 0.36:
            v = self.pick("VCF", "VCU", "VGF", "VGI", "VH")
            if v is None: return
            t = self.tuple_for(v)
            kk = r.random()
            if kk < 0.6: return s.emit("OpRemove", v, t)
            if kk < 0.9:
                kvs = list(zip(self.labels.get(v, []), t)); r.shuffle(kvs)
                return s.emit("OpRemoveMap", v, kvs)
            return s.emit("OpReset", v)
        if k < 0.52:
            c = self.pick("CF", "CU", "GF", "GI", "LCF", "LCU")
            if c is None: return
            ty = self.ty[c]
            kk = r.random()
            if ty in ("CF", "CU", "LCF", "LCU"):
                if kk < 0.4: return s.emit("OpInc", c)
                if kk < 0.9: return s.emit("OpIncBy", c, self.numfor(ty))
                if ty in ("CF", "CU"): return s.emit("OpReset", c)
                return s.emit("OpClear", c)
            op = r.choice(["OpInc", "OpDec", "OpAdd", "OpSub", "OpSet"])
            if op in ("OpInc", "OpDec"): return s.emit(op, c)
            return s.emit(op, c, self.numfor(ty))
        if k < 0.58:
            c = self.pick("CF", "CU", "GF", "GI", "LCF", "LCU")
            if c is not None: return s.emit("OpGet", c)
            return
        if k < 0.68:
            h = self.pick("H", "LH")
            if h is not None: return s.emit("OpObserve", h, some_float(r))
            return
        if k < 0.72:
            h = self.pick("H", "LH")
            if h is not None: return s.emit(r.choice(["OpSampleSum", "OpSampleCount"]), h)
            return
        if k < 0.77:
            c = self.pick("CF", "CU", "H", "VCF", "VCU", "VH")
            if c is None: return
            return self.new({"CF": "LCF", "CU": "LCU", "H": "LH", "VCF": "LVCF", "VCU": "LVCU", "VH": "LVH"}[self.ty[c]], "OpLocal", c)
        if k < 0.83:
            c = self.pick("LCF", "LCU", "LH", "LVCF", "LVCU", "LVH")
            if c is None: return
            kk = r.random()
            if kk < 0.5: return s.emit("OpFlush", c)
            if kk < 0.65 and self.ty[c] in ("LCF", "LCU", "LH"): return s.emit("OpClear", c)
            if kk < 0.8: return self.new(self.ty[c], "OpClone", c)
            s.emit("OpDrop", c); self.ty[c] = "dead"; return
        if k < 0.88:
            c = self.pick("LVCF", "LVCU", "LVH")
            if c is None: return
            # the backing vector's labels: find via the OpLocal op
            src = [o for o in s.ops if o[0] == "OpLocal"]
            vec = None
            # map slot -> source by replaying ctor count
            n = 0
            for o in s.ops:
                if o[0] in CTOR_OPS:
                    if n == c and o[0] == "OpLocal": vec = o[1]
                    if n == c and o[0] == "OpClone":
                        vec = self._vec_of.get(o[1])
                    n += 1
            if vec is None: return
            self._vec_of[c] = vec
            t = self.tuple_for(vec, wrong=0.03)
            kk = r.random()
            if kk < 0.15: return s.emit("OpLvRemove", c, t)
            if self.ty[c] == "LVH": return s.emit("OpLvObserve", c, t, some_float(r))
            return s.emit("OpLvInc", c, t, self.numfor(self.ty[c]))
        if k < 0.92:
            kk = r.random()
            if kk < 0.5:
                h = self.pick("H", "LH")
                if h is None: return
                return self.new("T" if self.ty[h] == "H" else "LT", "OpTimer", h)
            t = self.pick("T", "LT")
            if t is None:
                h = self.pick("H", "LH")
                if h is not None: return s.emit("OpClosure", h, r.choice([0, 1, 12]), r.choice([0, 1, 500000000, 999999999]))
                return
            mode = r.choice(["TRecord", "TObserve", "TDiscard", "TDrop"])
            extra = ("T",) if self.ty[t] == "T" and r.random() < 0.3 else ()
            self.ty[t] = "dead"
            return s.emit("OpTimerStop", t, mode, r.choice([0, 1, 3, 100]), r.choice([0, 1, 250000000, 999999999]), *extra)
        if k < 0.93:
            prefix = None if r.random() < 0.6 else metric_name(r, self.valid)
            labels = None if r.random() < 0.6 else [(label_name(r, self.valid), label_value(r)) for _ in range(r.randint(0, 3))]
            return self.new("R", "OpRegistry", prefix, labels)
        if k < 0.99:
            reg = self.pick("R")
            if reg is None: return self.new("R", "OpRegistry", None, None)
            kk = r.random()
            c = self.pick("CF", "CU", "GF", "GI", "H", "VCF", "VCU", "VGF", "VGI", "VH", "P")
            if kk < 0.45 and c is not None: return s.emit("OpRegister", reg, c)
            if kk < 0.6 and c is not None: return s.emit("OpUnregister", reg, c)
            return s.emit("OpGather", reg)
        c = self.pick("CF", "CU", "GF", "GI", "H", "VCF", "VCU", "VGF", "VGI", "VH")
        if c is not None: return s.emit(r.choice(["OpCollect", "OpDescOf"]), c)

    _vec_of = {}

    def run(self, n):
        self._vec_of = {}
        for _ in range(n): self.step()
        return self.s.ops


def gen_smoke(r, n):
    return [Hist(r).run(r.randint(5, 40)) for _ in range(n)]
