"""C07  gather() is complete, canonically ordered and deterministic.

Also home of the scenario generator shared with C14 (p_C14.py imports `GatherGen`)."""
from props import *

# names chosen so that prefixes of each other, '_' / ':' / digits / upper case (all orderings of the
# byte order that differ from "natural" orders) meet in one registry
NAME_POOL = ["a", "ab", "a_b", "a:b", "aB", "b", "B", "_x", "x", "x_total", "xy", "z:z", "m1", "m10", "m2", "Zz", "a_", "a0"]
CONST_NAMES = ["a", "b", "k", "z", "A", "_c"]
VAR_NAMES = ["v", "w", "c", "l", "V"]
COMMON_NAMES = ["c1", "c2", "env", "zone", "Z", "_r", "dc", "c10"]
HELPS = ["h", "help text", "ünï", "multi\nline", "a"]
PREFIXES = ["p", "ns", "a", "x_", "P:q", "_"]


class GatherGen:
    """One scenario = a set of collectors (families of collectors sharing name/help/label names and
    differing in constant-label values), children, updates, 2-3 fresh registries with the same
    prefix/labels (labels inserted in different orders) on which the same collectors are registered
    in different orders, then rounds of back-to-back gathers on all of them."""

    def __init__(self, r, mixed=0.0, nreg=None, overlap=0.0):
        self.r = r
        self.mixed = mixed
        self.overlap = overlap
        self.s = Slots()
        self.cols = []          # dicts: slot, ty (C/G/H), form (plain/vec/pull), nk, labels (vec), children [(slot, nk)]
        self.is_mixed = False
        self.nreg = nreg

    # ---- collectors
    def template(self):
        r = self.r
        nm = r.choice(NAME_POOL)
        cn = r.sample(CONST_NAMES, r.choice([0, 1, 1, 2, 2]))
        vn = r.sample(VAR_NAMES, r.choice([0, 0, 1, 1, 2]))
        ns = r.choice(["", "", "", "n"]); sub = r.choice(["", "", "", "s"])
        return dict(name=nm, ns=ns, sub=sub, help=r.choice(HELPS), ty=r.choice("CCGGH"), cn=cn, vn=vn)

    def new_collector(self, t):
        r = self.r; s = self.s
        ty = t["ty"]
        if self.mixed and r.random() < self.mixed:
            ty = r.choice([k for k in "CGH" if k != t["ty"]])
        help_ = t["help"]; cn = list(t["cn"]); vn = list(t["vn"])
        k = r.random()
        if k < 0.04: help_ = help_ + "!"                          # near miss: other help -> refused
        elif k < 0.08: cn = cn + ["extra"]                        # near miss: other label names -> refused
        elif k < 0.10 and vn: vn = vn[:-1]
        consts = [(c, gens.label_value(r) if r.random() < 0.5 else r.choice(["1", "2", "10", "", "a", "b", "ab", "B", "é"])) for c in cn]
        r.shuffle(consts)
        o = mkopts(t["name"], help_, t["ns"], t["sub"], consts)
        col = dict(ty=ty, children=[], labels=None, tmpl=t, opts=o)
        if not vn and ty == "G" and not cn and r.random() < 0.35:
            fq = "_".join(x for x in (t["ns"], t["sub"], t["name"]) if x)
            col.update(form="pull", nk=None, slot=s.emit("OpPulling", fq, help_, gens.some_float(r)))
        elif vn or r.random() < 0.1:
            labels = list(vn); r.shuffle(labels)
            col.update(form="vec", labels=labels)
            if ty == "C":
                nk = r.choice(["NF", "NU"]); col.update(nk=nk, slot=s.emit("OpCounterVec", nk, o, labels))
            elif ty == "G":
                nk = r.choice(["NF", "NI"]); col.update(nk=nk, slot=s.emit("OpGaugeVec", nk, o, labels))
            else:
                col.update(nk="H", slot=s.emit("OpHistVec", dict(opts=o, buckets=gens.good_buckets(r)), labels))
        else:
            col.update(form="plain")
            if ty == "C":
                nk = r.choice(["NF", "NU"]); col.update(nk=nk, slot=s.emit("OpCounter", nk, o))
            elif ty == "G":
                nk = r.choice(["NF", "NI"]); col.update(nk=nk, slot=s.emit("OpGauge", nk, o))
            else:
                col.update(nk="H", slot=s.emit("OpHistogram", dict(opts=o, buckets=gens.good_buckets(r) if r.random() < 0.8 else [])))
        self.cols.append(col)
        return col

    def add_children(self, col, lo=0, hi=4):
        r = self.r
        if col["form"] != "vec": return
        for _ in range(r.randint(lo, hi)):
            vals = [r.choice(["", "a", "b", "ab", "1", "10", "2", "é", "x y", "B", "~"]) if r.random() < 0.7 else gens.label_value(r)
                    for _ in col["labels"]]
            if r.random() < 0.25 and col["labels"]:
                kvs = list(zip(col["labels"], vals)); r.shuffle(kvs)
                c = self.s.emit("OpWithMap", col["slot"], kvs)
            else:
                c = self.s.emit("OpWith", col["slot"], vals)
            col["children"].append(c)
            col.setdefault("vals", []).append(vals)

    def update(self, slot, ty, nk):
        r = self.r; s = self.s
        if ty == "C":
            if nk == "NF": s.emit("OpIncBy", slot, ("VF", r.choice([f64(1.0), f64(0.5), f64(5.0), f64(2.0 ** r.randint(0, 30)), f64(0.1), f64(1e300)])))
            else: s.emit("OpIncBy", slot, ("VU", r.choice([1, 2, 7, 2 ** r.randint(0, 50)])))
        elif ty == "G":
            if nk == "NF": s.emit(r.choice(["OpSet", "OpAdd"]), slot, ("VF", gens.some_float(r)))
            else: s.emit(r.choice(["OpSet", "OpAdd"]), slot, ("VI", r.choice([0, 1, -1, 7, -2 ** 40, 2 ** 62, r.randint(-1000, 1000)])))
        else:
            s.emit("OpObserve", slot, gens.some_float(r))

    def updates(self, p=0.7):
        r = self.r
        for col in self.cols:
            targets = [col["slot"]] if col["form"] == "plain" else col["children"] if col["form"] == "vec" else []
            for t in targets:
                for _ in range(r.choice([0, 1, 1, 2]) if r.random() < p else 0):
                    self.update(t, col["ty"], col["nk"])

    # ---- registries
    def registries(self):
        r = self.r; s = self.s
        n = self.nreg or r.choice([2, 2, 3])
        prefix = r.choice(PREFIXES) if r.random() < 0.5 else None
        if r.random() < 0.25:
            labels = None
        else:
            k = r.choice([0, 1, 2, 2, 3, 3, 4, 4])
            pool = COMMON_NAMES + (["a"] if r.random() < 0.05 else [])      # rare clash with a metric's own label
            labels = [(nm, r.choice(["1", "2", "", "eu", "é", "x y"]) if r.random() < 0.7 else gens.label_value(r)) for nm in r.sample(pool, k)]
        regs = []
        for _ in range(n):
            l = None if labels is None else list(labels)
            if l: r.shuffle(l)
            regs.append(s.emit("OpRegistry", prefix, l))
        return regs

    def register_all(self, regs, cols=None):
        r = self.r
        cols = self.cols if cols is None else cols
        for reg in regs:
            order = list(cols); r.shuffle(order)
            for col in order:
                self.s.emit("OpRegister", reg, col["slot"])

    def gathers(self, regs):
        order = list(regs); self.r.shuffle(order)
        for reg in order: self.s.emit("OpGather", reg)
        if self.r.random() < 0.3: self.s.emit("OpGather", self.r.choice(regs))     # a second collection of the same registry

    def run(self):
        r = self.r
        tmpls = [self.template() for _ in range(r.choice([1, 1, 2, 2, 3]))]
        ncol = r.randint(1, 8)
        early = r.random() < 0.4
        regs = self.registries() if early else None
        for _ in range(ncol):
            self.new_collector(r.choice(tmpls))
        if early:
            self.register_all(regs)              # registration precedes children and updates
        for col in self.cols: self.add_children(col)
        self.updates()
        if not early:
            regs = self.registries()
            self.register_all(regs)
        self.gathers(regs)
        k = r.random()
        if k < 0.45:
            # second round: more children / updates / a removed child, then gather again
            for col in self.cols:
                if r.random() < 0.4: self.add_children(col, 1, 2)
            self.updates(0.5)
            vecs = [c for c in self.cols if c["form"] == "vec" and c["children"]]
            if vecs and r.random() < 0.5:
                v = r.choice(vecs)
                kk = r.random()
                if kk < 0.25: self.s.emit("OpReset", v["slot"]); v["vals"] = []
                elif v.get("vals"):
                    # a child removed between two collections (by value list or by label map) must be gone from the next one
                    vals = v["vals"].pop(r.randrange(len(v["vals"])))
                    if kk < 0.6: self.s.emit("OpRemove", v["slot"], vals)
                    else:
                        kvs = list(zip(v["labels"], vals)); r.shuffle(kvs)
                        self.s.emit("OpRemoveMap", v["slot"], kvs)
            self.gathers(regs)
        if k > 0.7 and self.cols:
            # unregister one collector everywhere, gather again
            col = r.choice(self.cols)
            for reg in regs: self.s.emit("OpUnregister", reg, col["slot"])
            self.gathers(regs)
            if r.random() < 0.6:
                # the released name stays bound to its help / label names: a newcomer of the same name with other
                # dimensions must still be refused (by every registry alike), the old collector may come back
                t2 = dict(col["tmpl"])
                if r.random() < 0.5: t2["help"] = t2["help"] + "?"
                else: t2["cn"] = list(t2["cn"]) + ["late"]
                late = self.new_collector(t2)
                self.add_children(late, 1, 2)
                for t in ([late["slot"]] if late["form"] == "plain" else late["children"]): self.update(t, late["ty"], late["nk"])
                back = r.random() < 0.5
                for reg in regs:
                    self.s.emit("OpRegister", reg, late["slot"])
                    if back: self.s.emit("OpRegister", reg, col["slot"])
                self.gathers(regs)
        if self.overlap and r.random() < self.overlap:
            # a user-written collector that shares one descriptor with a registered collector A and is itself NOT registered:
            # unregistering it must fail and must leave A's descriptor reserved, so that an equal twin of A (same descriptor,
            # another kind) is still refused and the family stays uniform
            plains = [c for c in self.cols if c["form"] == "plain" and c["ty"] in "CG"]
            if plains:
                a = r.choice(plains); o = a["opts"]
                fq = "_".join(x for x in (o["ns"], o["sub"], o["name"]) if x)
                x = self.s.emit("OpCustom", [(fq, o["help"], [], list(o["consts"])), ("zz_other", "h", [], [])], [])
                for reg in regs: self.s.emit("OpUnregister", reg, x)
                tty = "G" if a["ty"] == "C" else "C"
                if r.random() < 0.5:
                    twin = self.s.emit("OpGauge" if tty == "G" else "OpCounter", "NF", o)      # equal collector of another kind
                    self.update(twin, tty, "NF")
                else:
                    # another user-written collector claiming A's descriptor and one of its own
                    # (it exposes nothing: whether it gets in is observed at register and at the next unregister)
                    da = (fq, o["help"], [], list(o["consts"]))
                    twin = self.s.emit("OpCustom", [da, ("zz_other2", "h", [], [])], [])
                for reg in regs: self.s.emit("OpRegister", reg, twin)
                self.gathers(regs)
                for reg in regs: self.s.emit("OpUnregister", reg, twin)
        kinds = {}
        for col in self.cols:
            fq = "_".join(x for x in (col["tmpl"]["ns"], col["tmpl"]["sub"], col["tmpl"]["name"]) if x)
            kinds.setdefault(fq, set()).add(col["ty"])
        self.is_mixed = any(len(v) > 1 for v in kinds.values())
        return self.s.ops


def many_labels_scenario(r):
    """the C07 defect repaired by d563bdb: >= 2 common labels must appear in name order in every registry"""
    g = GatherGen(r, nreg=3)
    s = g.s
    c = s.emit("OpCounter", "NF", mkopts("a", "h", consts=[("k", "1")]))
    s.emit("OpIncBy", c, ("VF", f64(5.0)))
    labels = [("c1", "1"), ("c2", "2"), ("env", "x"), ("zone", "y")]
    regs = []
    for _ in range(3):
        l = list(labels); r.shuffle(l)
        regs.append(s.emit("OpRegistry", "p", l))
    for reg in regs: s.emit("OpRegister", reg, c)
    for reg in regs: s.emit("OpGather", reg)
    return s.ops


# the witness of the known finding of C14 (kept in C07's corpus too: everything but the type must hold)
def c14_witness(counter_first=True):
    s = Slots()
    c = s.emit("OpCounter", "NF", mkopts("x", "h", consts=[("k", "1")]))
    g = s.emit("OpGauge", "NF", mkopts("x", "h", consts=[("k", "2")]))
    s.emit("OpIncBy", c, ("VF", f64(5.0)))
    s.emit("OpSet", g, ("VF", f64(7.0)))
    r1 = s.emit("OpRegistry", None, None)
    r2 = s.emit("OpRegistry", None, None)
    for reg, order in ((r1, [c, g]), (r2, [g, c])) if counter_first else ((r1, [g, c]), (r2, [c, g])):
        for x in order: s.emit("OpRegister", reg, x)
    s.emit("OpGather", r1); s.emit("OpGather", r2)
    return s.ops


class C07(SeqProp):
    pid = "C07"
    spec_import = "Require Import PV.Spec.SpecC07.\nRequire PV.Proofs.C07SpecCustomRegs."
    dom_fn = "PV.Proofs.C07SpecCustomRegs.dom07c"
    spec_fn = "spec_c07"
    known_fn = "known_mixed_kinds"
    rule = ("each scenario builds 1-8 collectors (counters, gauges, histograms, pulling gauges, vectors with 0-4 children) grouped in "
            "1-3 families that share name/help/label names and differ in constant-label values, updates them, registers the same set "
            "in different orders on 2-3 fresh registries with the same prefix and 0-4 common labels, and gathers all registries back "
            "to back (1-3 rounds; between rounds more children / updates, a vector reset or a child removed by value list or by label map; after an "
            "unregister a newcomer of the same name with another help / label set, which must be refused, and optionally the old collector coming back); non-trivial = at least two gathers and at least two samples gathered; distinct = distinct scenario text")
    assumptions = ["HashMap iteration order is exercised through fresh maps (fresh RandomState) per registry / vector, not controlled",
                   "collectors of different kinds under one name are C14's known finding; C07's generator does not produce them "
                   "(the C14 witness in the corpus is checked for everything but the family type)",
                   "the samples each registered collector exposes at gather time are taken from the model (collect, before merging); "
                   "model = implementation is the correspondence check of the same run"]
    corpus = [c14_witness(True)]

    def gen(self, r, tier):
        n = 400 if tier == "quick" else 4000
        out = [many_labels_scenario(r) for _ in range(4 if tier == "quick" else 20)]
        while len(out) < n:
            g = GatherGen(r)
            ops = g.run()
            if g.is_mixed: continue
            out.append(ops)
        return out

    def nontrivial(self, ops, o):
        return o.count("OFams") >= 2 and o.count("(mkMetric") >= 2
