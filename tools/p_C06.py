"""C06  Registry admission is exact; a failed registration leaves no trace."""
from props import *

# Small pools with a lot of overlap: names that are prefixes of each other and that can also be
# produced through namespace_subsystem_name; two or three helps; constant labels whose values
# shift boundaries; variable labels that may also occur as constant labels.
NAMES = ["x", "y", "x_total", "xy", "a:b", "t", "g", "f"]        # x/y, g/f differ in one low bit
NS_FORMS = {"x_total": ("x", "", "total"), "xy": ("", "", "xy"), "x": ("", "", "x")}
HELPS = ["h", "help A", "help B"]
CKEYS = ["a", "b", "k"]
CVALS = ["1", "2", "3", "", "ab", "a"]                            # "2"/"3" differ in one low bit
VKEYS = ["v", "w", "a"]
COMMON = ["env", "zone", "dc"]
COLL1 = "indbfqeysbnpsf"          # FNV-1a-64 collision pair of valid metric names
COLL2 = "ivltldgmoctybd"


def dkey(d):
    """structural identity of a descriptor written as (name, help, vars, consts)"""
    m = {}
    for k, v in d[3]: m[k] = v
    return (d[0], tuple(v for _, v in sorted(m.items())))


def sample_family(d, val, kind="G"):
    """what a custom collector exposes for one of its descriptors: one sample of the kind every collector of that name has
    (mixed kinds under one name are C14's known finding, not C06's business), carrying a value that identifies the collector"""
    m = {}
    for k, v in d[3]: m[k] = v
    labels = sorted(m.items()) + [(v, "c") for v in d[2]]
    if kind == "C": return mk_family(d[0], d[1], "COUNTER", [mk_metric(labels=labels, counter=f64(val))])
    if kind == "H": return mk_family(d[0], d[1], "HISTOGRAM", [mk_metric(labels=labels, hist=dict(count=1, sum=f64(val), b=[(1, f64(100.0))]))])
    return mk_family(d[0], d[1], "GAUGE", [mk_metric(labels=labels, gauge=f64(val))])


class RegGen:
    """One scenario: 1-2 registries, a pool of collectors over a small universe of descriptors, then a
    history of register / unregister calls, with a gather after most of them."""

    def __init__(self, r, collision=False):
        self.r = r
        self.s = Slots()
        self.cols = []           # dicts: slot, descs [(name, help, vars, consts)], kind
        self.regs = []           # registry slots
        self.state = {}          # reg slot -> list of collector indices the generator believes registered (steering only)
        self.names = r.sample(NAMES, r.choice([2, 2, 3, 3, 4])) + ([COLL1, COLL2] if collision else [])
        self.canon = {}          # name -> (help, const keys, var keys) most descriptors of that name use
        for n in self.names:
            self.canon[n] = (r.choice(HELPS), tuple(sorted(r.sample(CKEYS, r.choice([0, 0, 1, 1, 2])))),
                             tuple(r.sample(VKEYS[:2], r.choice([0, 0, 0, 1]))), r.choice("CCGGH"))
        self.ncalls = 0
        self.uid = 0

    # ---- descriptors
    def desc(self, name=None, deviate=0.2):
        r = self.r
        name = name or r.choice(self.names)
        help_, ck, vk, _ = self.canon_of(name)
        ck = list(ck); vk = list(vk)
        if r.random() < deviate:
            k = r.random()
            if k < 0.4: help_ = r.choice([h for h in HELPS if h != help_])
            elif k < 0.6: ck = sorted(set(ck + [r.choice(CKEYS)]))
            elif k < 0.75 and ck: ck = ck[1:]
            elif k < 0.9: vk = vk + [r.choice([v for v in VKEYS if v not in vk and v not in ck] or ["w2"])]
            elif vk: vk = vk[:-1]
        consts = [(k, r.choice(CVALS[:4]) if r.random() < 0.8 else r.choice(CVALS)) for k in ck]
        r.shuffle(consts)
        return (name, help_, vk, consts)

    def canon_of(self, name):
        if name not in self.canon: self.canon[name] = (self.r.choice(HELPS), (), (), self.r.choice("CCGGH"))
        return self.canon[name]

    def kind_of(self, name): return self.canon_of(name)[3]

    def fresh_desc(self, help_=None):
        self.uid += 1
        return ("fresh%d" % self.uid, help_ or self.r.choice(HELPS), [], [])

    # ---- collectors
    def add(self, kind, slot, descs):
        self.cols.append(dict(kind=kind, slot=slot, descs=descs))
        return len(self.cols) - 1

    def real(self, d=None):
        """a library collector whose single descriptor is d, of the kind all collectors of that name have"""
        r = self.r; s = self.s
        d = d or self.desc()
        name, help_, vk, consts = d
        ns, sub, nm = "", "", name
        if name in NS_FORMS and r.random() < 0.4: ns, sub, nm = NS_FORMS[name]
        elif "_" in name and r.random() < 0.3:
            ns, nm = name.split("_", 1)
        o = mkopts(nm, help_, ns, sub, consts)
        self.uid += 1
        if vk:
            kind = self.kind_of(name) + "V"
            if kind == "CV": slot = s.emit("OpCounterVec", r.choice(["NF", "NU"]), o, list(vk))
            elif kind == "GV": slot = s.emit("OpGaugeVec", r.choice(["NF", "NI"]), o, list(vk))
            else: slot = s.emit("OpHistVec", dict(opts=o, buckets=gens.good_buckets(r)), list(vk))
            i = self.add(kind, slot, [d])
            if r.random() < 0.7:
                ch = s.emit("OpWith", slot, [r.choice(["", "a", "b"]) for _ in vk])
                if kind == "CV" and r.random() < 0.5: s.emit("OpInc", ch)
                if r.random() < 0.15: self.add("child", ch, [d])           # a child is a collector of its own, same descriptor
            return i
        kind = self.kind_of(name)
        if kind == "G" and not (consts or ns or sub) and r.random() < 0.3: kind = "P"
        if kind == "C":
            nk = r.choice(["NF", "NU"]); slot = s.emit("OpCounter", nk, o)
            s.emit("OpIncBy", slot, ("VF", f64(float(self.uid))) if nk == "NF" else ("VU", self.uid))
        elif kind == "G":
            nk = r.choice(["NF", "NI"]); slot = s.emit("OpGauge", nk, o)
            s.emit("OpSet", slot, ("VF", f64(float(self.uid))) if nk == "NF" else ("VI", self.uid))
        elif kind == "H":
            slot = s.emit("OpHistogram", dict(opts=o, buckets=gens.good_buckets(r)))
            if r.random() < 0.5: s.emit("OpObserve", slot, f64(float(self.uid)))
        else:
            slot = s.emit("OpPulling", name, help_, f64(float(self.uid)))
        i = self.add(kind, slot, [d])
        if r.random() < 0.06:
            self.add(kind, s.emit("OpClone", slot), [d])                    # a clone: the same collector under another slot
        return i

    def custom(self, descs=None):
        r = self.r
        if descs is None:
            descs = [self.desc() for _ in range(r.choice([1, 2, 2, 3, 3, 4]))]
            k = r.random()
            if k < 0.12 and descs:
                descs.insert(r.randint(0, len(descs)), r.choice(descs))    # one descriptor listed twice
            elif k < 0.2 and descs:
                d = r.choice(descs)                                        # same identity, other help: listed twice AND disagreeing
                descs.append((d[0], r.choice(HELPS), d[2], d[3]))
            elif k < 0.3:
                descs.insert(r.randint(0, len(descs)), self.fresh_desc())
        self.uid += 1
        fams = [sample_family(d, self.uid + i / 8.0, self.kind_of(d[0])) for i, d in enumerate(descs) if r.random() < 0.85]
        if r.random() < 0.1:                           # exposes something it did not describe
            fams.append(mk_family("other", "h", "GAUGE", [mk_metric(labels=[("u", str(self.uid))], gauge=f64(float(self.uid)))]))
        slot = self.s.emit("OpCustom", descs, fams)
        return self.add("custom", slot, descs)

    def lowbit_pair(self):
        """two custom collectors {n1{k=d1}, n2}, {n1{k=d2}, n2'} over letters / digits that differ in low bits: four different
        descriptors whose ids have nearly the same bits (the pre-edcf206 registry filed collectors under the SUM of the ids)"""
        r = self.r
        n1 = r.choice("fgxy")
        n2, n2b = r.sample([c for c in "fgxy" if c != n1], 2)
        d1, d2 = r.sample("0123", 2)
        for n in (n1, n2, n2b):
            if n not in self.canon: self.canon[n] = ("h", ("k",) if n == n1 else (), (), "G")
        h1, h2, h2b = self.canon[n1][0], self.canon[n2][0], self.canon[n2b][0]
        return [self.custom([(n1, h1, [], [("k", d1)]), (n2, h2, [], [])]),
                self.custom([(n1, h1, [], [("k", d2)]), (n2b, h2b, [], [])])]

    def registered_descs(self, reg):
        return [d for i in self.state.get(reg, []) for d in self.cols[i]["descs"]]

    def failing_late(self, reg):
        """a custom collector whose first descriptor(s) are fine and fresh and whose 2nd or 3rd is refused"""
        r = self.r
        taken = self.registered_descs(reg)
        fresh = [self.fresh_desc(help_="help A") for _ in range(r.choice([1, 1, 2]))]
        k = r.random()
        if taken and k < 0.45:
            bad = r.choice(taken)                                           # equal to a registered one -> AlreadyReg
        elif taken and k < 0.8:
            t = r.choice(taken)                                             # same name, other help, other constant values -> Msg
            bad = (t[0], r.choice([h for h in HELPS if h != t[1]]), t[2], [(k_, v + "z") for k_, v in t[3]] or [])
            if not t[3]: bad = (t[0], bad[1], t[2] + ["w9"], [])
        elif k < 0.9:
            bad = fresh[0]                                                  # listed twice
        else:
            bad = (fresh[0][0], "help B", [], [("k", "1")])                 # disagrees with its own first descriptor
        tail = [self.fresh_desc()] if r.random() < 0.3 else []
        i = self.custom(fresh + [bad] + tail)
        return i, fresh

    # ---- registries
    def registry(self):
        r = self.r
        prefix = r.choice(["p", "x", "ns"]) if r.random() < 0.25 else None
        labels = None
        if r.random() < 0.3:
            pool = COMMON + (["a", "v"] if r.random() < 0.5 else [])        # "a" / "v" clash with the collectors' own labels
            labels = [(n, r.choice(["1", "eu", ""])) for n in r.sample(pool, r.choice([1, 2, 2, 3]))]
        reg = self.s.emit("OpRegistry", prefix, labels)
        self.regs.append(reg); self.state[reg] = []
        return reg

    # ---- calls
    def call(self, what, reg, i):
        self.s.emit(what, reg, self.cols[i]["slot"])
        self.ncalls += 1
        st = self.state[reg]
        if what == "OpRegister":
            if i not in st: st.append(i)          # optimistic: only steers later choices
        elif i in st:
            st.remove(i)
        if self.r.random() < 0.75:
            self.s.emit("OpGather", reg); self.ncalls += 1

    def run(self, ncalls):
        r = self.r
        for _ in range(r.choice([1, 1, 1, 2])): self.registry()
        for _ in range(r.randint(2, 5)):
            self.custom() if r.random() < 0.45 else self.real()
        while self.ncalls < ncalls:
            reg = r.choice(self.regs)
            st = self.state[reg]
            k = r.random()
            if k < 0.34:
                self.call("OpRegister", reg, r.randrange(len(self.cols)))
            elif k < 0.44 and st:
                self.call("OpRegister", reg, r.choice(st))                      # the same collector twice
            elif k < 0.58 and st:
                i = r.choice(st)
                self.call("OpUnregister", reg, i)
                if r.random() < 0.6: self.call("OpRegister", reg, i)           # ... and again
            elif k < 0.66:
                self.call("OpUnregister", reg, r.randrange(len(self.cols)))      # mostly not registered
            elif k < 0.80:
                i, fresh = self.failing_late(reg)
                self.call("OpRegister", reg, i)
                # the names of the descriptors that preceded the refused one must still be free, for any help
                f = r.choice(fresh)
                j = self.real((f[0], r.choice(HELPS), [], [])) if r.random() < 0.7 \
                    else self.custom([(f[0], "help B", [], [("k", "1")])])
                self.call("OpRegister", reg, j)
            elif k < 0.90:
                # a new collector close to a registered one: equal descriptor, or same name and another signature
                ds = self.registered_descs(reg)
                if ds and r.random() < 0.7:
                    d = r.choice(ds)
                    kk = r.random()
                    if kk < 0.35: nd = d
                    elif kk < 0.6: nd = (d[0], r.choice(HELPS), d[2], d[3])
                    elif kk < 0.8: nd = (d[0], d[1], d[2], [(k_, r.choice(CVALS)) for k_, _ in d[3]])
                    else: nd = self.desc(d[0], deviate=0.6)
                    i = self.real(nd) if r.random() < 0.6 else self.custom([nd] + ([self.desc()] if r.random() < 0.4 else []))
                else:
                    i = self.custom() if r.random() < 0.5 else self.real()
                self.call("OpRegister", reg, i)
            elif k < 0.96:
                i, j = self.lowbit_pair()
                self.call("OpRegister", reg, i); self.call("OpRegister", reg, j)
                self.call("OpUnregister", reg, r.choice([i, j]))
            else:
                self.s.emit("OpGather", reg); self.ncalls += 1
        for reg in self.regs: self.s.emit("OpGather", reg)
        return self.s.ops


# ---------------------------------------------------------------------------------------- corpus
def defect_b8e028c(second=("t", "h", [], []), help_b="help B"):
    """the defect repaired by b8e028c: a registration that fails on its 2nd descriptor must not pin the 1st descriptor's
    name to its help / label names"""
    s = Slots()
    reg = s.emit("OpRegistry", None, None)
    c0 = s.emit("OpCounter", "NF", mkopts("t", "h"))
    s.emit("OpIncBy", c0, ("VF", f64(1.0)))
    s.emit("OpRegister", reg, c0)
    first = ("fresh", "help A", [], [])
    cu = s.emit("OpCustom", [first, second], [sample_family(first, 7.0, "C")])
    s.emit("OpRegister", reg, cu)                   # refused on the 2nd descriptor
    s.emit("OpGather", reg)
    c1 = s.emit("OpCounter", "NF", mkopts("fresh", help_b))
    s.emit("OpIncBy", c1, ("VF", f64(2.0)))
    s.emit("OpRegister", reg, c1)                   # must be accepted
    s.emit("OpGather", reg)
    s.emit("OpUnregister", reg, c1)
    s.emit("OpRegister", reg, cu)                   # still refused (t is registered), still no trace
    c2 = s.emit("OpGauge", "NF", mkopts("fresh", "h", consts=[("k", "1")]))
    s.emit("OpRegister", reg, c2)                   # refused: fresh is now pinned to help B by the SUCCESSFUL registration
    s.emit("OpGather", reg)
    return s.ops


def collision_witness():
    """known finding C06-fnv-collision: two different valid metric names with the same FNV-1a-64 hash"""
    s = Slots()
    reg = s.emit("OpRegistry", None, None)
    a = s.emit("OpCounter", "NF", mkopts(COLL1, "h"))
    b = s.emit("OpCounter", "NF", mkopts(COLL2, "h"))
    s.emit("OpIncBy", a, ("VF", f64(1.0)))
    s.emit("OpIncBy", b, ("VF", f64(2.0)))
    s.emit("OpRegister", reg, a)
    s.emit("OpRegister", reg, b)                    # AlreadyReg although no equal descriptor is registered
    s.emit("OpGather", reg)
    s.emit("OpUnregister", reg, b)                  # Ok although b is not registered: removes a
    s.emit("OpGather", reg)
    s.emit("OpRegister", reg, b)
    s.emit("OpGather", reg)
    return s.ops


def split_obs(line):
    """the top-level elements of the harness's `[obs; obs; ...]` line"""
    line = (line or "").strip()
    if not (line.startswith("[") and line.endswith("]")): return []
    out, depth, cur = [], 0, []
    for ch in line[1:-1]:
        if ch in "([": depth += 1
        elif ch in ")]": depth -= 1
        if ch == ";" and depth == 0:
            out.append("".join(cur).strip()); cur = []
        else:
            cur.append(ch)
    if "".join(cur).strip(): out.append("".join(cur).strip())
    return out


def systematic(calls):
    """one history over the fixed 6-collector pool: `calls` = list of (is_register, collector index); a gather after every call.
    The pool realises every relation between two collectors the property distinguishes:
      A Counter x/h            B Counter x/help B (equal to A, other help)     C Counter x{k=1}/h (same name, other label names)
      D custom [y/h; x/h]      (2nd descriptor equal to A)
      E custom [y/help B; z/h] (1st descriptor disagrees with D's 1st)         F Counter y/h (equal to D's 1st descriptor)"""
    s = Slots()
    reg = s.emit("OpRegistry", None, None)
    pool = [s.emit("OpCounter", "NU", mkopts("x", "h")), s.emit("OpCounter", "NU", mkopts("x", "help B")),
            s.emit("OpCounter", "NU", mkopts("x", "h", consts=[("k", "1")]))]
    dy, dx, dy2, dz = ("y", "h", [], []), ("x", "h", [], []), ("y", "help B", [], []), ("z", "h", [], [])
    pool.append(s.emit("OpCustom", [dy, dx], [sample_family(dy, 4.0, "C"), sample_family(dx, 4.5, "C")]))
    pool.append(s.emit("OpCustom", [dy2, dz], [sample_family(dy2, 5.0, "C"), sample_family(dz, 5.5, "C")]))
    pool.append(s.emit("OpCounter", "NU", mkopts("y", "h")))
    for i in (0, 1, 2, 5): s.emit("OpIncBy", pool[i], ("VU", i + 1))
    for is_reg, i in calls:
        s.emit("OpRegister" if is_reg else "OpUnregister", reg, pool[i])
        s.emit("OpGather", reg)
    return s.ops


def all_histories(maxlen):
    import itertools
    alphabet = [(k, i) for k in (True, False) for i in range(6)]
    for n in range(1, maxlen + 1):
        for calls in itertools.product(alphabet, repeat=n):
            yield list(calls)


def sum_witness_unregister():
    """the defect repaired by edcf206 (collectors filed under the wrapping sum of their descriptor ids):
    A = [x{k="3"}; y] and B = [x{k="2"}; x] had the same sum, so unregister(B) - B was never registered, it disagrees with
    itself - answered Ok and removed A"""
    s = Slots()
    reg = s.emit("OpRegistry", None, None)
    da = [("x", "help B", [], [("k", "3")]), ("y", "h", [], [])]
    db = [("x", "help B", [], [("k", "2")]), ("x", "h", [], [])]
    a = s.emit("OpCustom", da, [sample_family(d, 1.0 + i) for i, d in enumerate(da)])
    b = s.emit("OpCustom", db, [sample_family(d, 3.0 + i) for i, d in enumerate(db)])
    s.emit("OpRegister", reg, a)                    # Ok
    s.emit("OpRegister", reg, b)                    # Msg: x with and without k
    s.emit("OpGather", reg)
    s.emit("OpUnregister", reg, b)                  # must fail
    s.emit("OpGather", reg)                         # A is still there
    s.emit("OpUnregister", reg, a)                  # Ok
    s.emit("OpGather", reg)
    return s.ops


def sum_witness_register():
    """C1 = [g{k="1"}; y] and C2 = [g{k="2"}; x]: four different descriptors, the same sum of ids: register(C2) after
    register(C1) answered AlreadyReg"""
    s = Slots()
    reg = s.emit("OpRegistry", None, None)
    d1 = [("g", "h", [], [("k", "1")]), ("y", "h", [], [])]
    d2 = [("g", "h", [], [("k", "2")]), ("x", "h", [], [])]
    c1 = s.emit("OpCustom", d1, [sample_family(d, 1.0 + i) for i, d in enumerate(d1)])
    c2 = s.emit("OpCustom", d2, [sample_family(d, 3.0 + i) for i, d in enumerate(d2)])
    s.emit("OpRegister", reg, c1); s.emit("OpRegister", reg, c2)      # both Ok
    s.emit("OpGather", reg)
    s.emit("OpUnregister", reg, c1); s.emit("OpGather", reg)
    s.emit("OpUnregister", reg, c2); s.emit("OpGather", reg)
    s.emit("OpRegister", reg, c2); s.emit("OpRegister", reg, c1); s.emit("OpGather", reg)
    return s.ops


class C06(SeqProp):
    pid = "C06"
    spec_import = "Require Import PV.Spec.SpecC06.\nRequire PV.Proofs.C06Spec."
    dom_fn = "(fun ops => andb (PV.Proofs.C06Spec.in_domain ops) (PV.Proofs.C06Spec.no_collision ops))"     # the domain of the uniform spec-of-model theorem (counted in the evidence)
    spec_fn = "spec_c06"
    known_fn = "known_c06"
    rule = ("each scenario: 1-2 registries (some with a prefix / common labels, some of which clash with a collector's own label names), "
            "a pool of library collectors (counters, gauges, histograms, pulling gauges, vectors, vector children, clones) and custom "
            "collectors with 1-4 descriptors over 2-4 overlapping names, 3 helps, 3 constant keys x 5 values, 3 variable labels; then "
            "3-25 register / unregister / gather calls: arbitrary pairs, the same collector twice, unregister + register again, "
            "unregister of unregistered collectors, collectors listing a descriptor twice, multi-descriptor collectors refused on their "
            "2nd or 3rd descriptor, pairs of two-descriptor collectors {n1{k=d}, n2} over letters / digits that differ in low bits (sums of "
            "their ids coincide: the defect repaired by edcf206), multi-descriptor collectors refused late followed by a registration that reuses the name of a descriptor preceding the refused one with any "
            "help; a gather follows 3 calls in 4; in addition every history of <= 2 calls (thorough: <= 3, 1884 histories) and a "
            "sample of longer ones over a fixed pool of 6 collectors that realises every relation the property distinguishes (equal "
            "descriptor with the same / another help, same name with other label names, multi-descriptor collectors whose 1st or 2nd "
            "descriptor is equal to / disagrees with another collector's), with a gather after every call; non-trivial = at least one refused registration that is followed by an accepted "
            "register or unregister call; distinct = distinct scenario text")
    assumptions = ["descriptor identity and signature agreement are decided by 64-bit FNV-1a hashes: the iff holds on every pool of "
                   "descriptors without hash collision (hypotheses ids_exact_on / dims_exact_on / cids_exact_on of the theorems, which "
                   "follow from injectivity of FNV-1a on the serialised identities: c06_ids_exact_from_fnv, c06_dims_exact_from_fnv); "
                   "a concrete collision between two valid metric names is the known finding C06-fnv-collision (c06_refuted_collision)",
                   "a collector has no identity beyond the set of its descriptors (the API consumes a Box<dyn Collector> per call)",
                   "the text is silent on collectors that list one descriptor twice, that disagree with themselves, or whose label names "
                   "clash with the registry's common labels (commit c627cf3): they are refused; when a collector has both a descriptor "
                   "equal to a registered one and another objectionable descriptor, either error kind is accepted by the executable spec "
                   "(the theorems state the exact kind: that of the first objectionable descriptor in the collector's order)",
                   "the samples a registered collector exposes at gather time are taken from the model's world (one collect per "
                   "collector); which collectors are registered is tracked by the spec from the implementation's own answers",
                   "HashMap iteration order is exercised through fresh maps per registry, not controlled"]
    corpus = [defect_b8e028c(), defect_b8e028c(second=("t", "other help", [], [("k", "1")])),
              defect_b8e028c(second=("fresh", "help A", [], [])), collision_witness(),
              sum_witness_unregister(), sum_witness_register()]

    def gen(self, r, tier):
        n = 300 if tier == "quick" else 3000
        # every history of <= 2 (quick) / <= 3 (thorough) calls over the fixed 6-collector pool, plus a sample of length 4 / 5
        out = [systematic(c) for c in all_histories(2 if tier == "quick" else 3)]
        alphabet = [(k, i) for k in (True, False) for i in range(6)]
        for _ in range(40 if tier == "quick" else 1500):
            out.append(systematic([r.choice(alphabet) for _ in range(r.choice([3, 4]) if tier == "quick" else r.choice([4, 4, 5]))]))
        for _ in range(n):
            g = RegGen(r, collision=r.random() < 0.01)
            out.append(g.run(r.randint(3, 25)))
        return out

    def nontrivial(self, ops, o):
        calls = [(op[0], ob) for op, ob in zip(ops, split_obs(o)) if op[0] in ("OpRegister", "OpUnregister")]
        seen_refusal = False
        for name, ob in calls:
            if seen_refusal and ob.startswith("ORes (Ok"): return True
            if name == "OpRegister" and ob.startswith("ORes (Err"): seen_refusal = True
        return False

    def run(self, tier, seed, replay=None):
        """the sequential part (SeqProp.run) and then the concurrent part (tools/p_C06conc.py: histories of register /
        unregister / gather issued from several threads); one VIOLATION line if either fails; the concurrent counts go
        into the evidence file under the key `concurrent`"""
        import p_C06conc
        if replay and json.load(open(replay)).get("part") == "concurrent":
            rc2, conc, line = p_C06conc.run_concurrent_part(tier, seed, replay=replay)
            if line: print(line)
            return rc2
        rc = SeqProp.run(self, tier, seed, replay)
        if replay: return rc
        rc2, conc, line = p_C06conc.run_concurrent_part(tier, seed)
        if line and rc != 1: print(line)
        ep = os.path.join(EVID, "%s.json" % self.pid)
        try:
            ev = json.load(open(ep))
            ev["coverage"]["concurrent"] = conc
            ev["coverage"]["obligations"] += conc.get("obligations", 0); ev["coverage"]["discharged"] += conc.get("discharged", 0)
            ev["assumptions"] = ev.get("assumptions", []) + p_C06conc.ASSUMPTIONS
            ev["violations"] = 1 if 1 in (rc, rc2) else 0
            ev["wall_s"] = round(ev.get("wall_s", 0) + conc.get("wall_s", 0), 2)
            with open(ep, "w") as f: json.dump(ev, f, indent=1, sort_keys=True, default=str)
        except Exception as e:
            print("[%s] could not extend the evidence file: %s" % (self.pid, e))
        return rc if rc != 0 else rc2
