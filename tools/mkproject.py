#!/usr/bin/env python3
"""Regenerates coq/_CoqProject from the .v files present (Base, Model, Proofs, Spec, Props, gen) and, if the
list changed, the Makefile.  Dependencies are computed by coqdep, so order does not matter."""
import os, subprocess, sys
COQ = os.path.join(os.path.dirname(os.path.dirname(os.path.abspath(__file__))), "coq")
HEAD = "-Q . PV\n-arg -w -arg -notation-overridden,-deprecated-syntactic-definition,-deprecated-hint-rewrite-without-locality,-deprecated-instance-without-locality,-ambiguous-paths\n"


def main():
    files = []
    for d in ("Base", "Model", "Proofs", "Spec", "Props", "gen"):
        p = os.path.join(COQ, d)
        if os.path.isdir(p):
            for root, _, fs in os.walk(p):
                for fn in sorted(fs):
                    if fn.endswith(".v") and not fn.startswith("."):
                        files.append(os.path.relpath(os.path.join(root, fn), COQ))
    txt = HEAD + "\n".join(sorted(files)) + "\n"
    cp = os.path.join(COQ, "_CoqProject")
    old = open(cp).read() if os.path.exists(cp) else ""
    if old != txt or not os.path.exists(os.path.join(COQ, "Makefile")):
        open(cp, "w").write(txt)
        subprocess.check_call(["coq_makefile", "-f", "_CoqProject", "-o", "Makefile"], cwd=COQ)
        return True
    return False


if __name__ == "__main__":
    print("regenerated" if main() else "unchanged")
