"""Shared machinery of the C01 (counters) and C11 (gauges) checks: scenarios on ONE shared 64-bit cell.

A scenario = object (`ctr NF|NU`, `gauge NF|NI`), one program per thread, one schedule.  The harness (`C` lines,
harness/src/conc.rs) runs the real Counter / IntCounter / Gauge / IntGauge with real OS threads, one atomic operation
(or call / return marker) per grant of the schedule; the reported trace is
  - validated event by event against the executable model (Model/AtomicConc.aexec: kind, value before, value after, success
    flag of every atomic operation, returned value of every call; all threads must have returned), and
  - judged by the executable spec written from the property text on the call / return markers only (Spec/SpecC01, SpecC11).

Schedules are produced with a small Python re-implementation of the thread programs' step structure (`Sim`), so that
  - targeted schedules can preempt a thread exactly between the load and the compare-exchange of the float loop (the
    lost-update window), let the other thread complete a write there, and come back;
  - exhaustive enumeration (thorough tier) visits every interleaving of the atomic steps of small configurations;
  - spurious failures are placed on compare-exchange grants.
If the simulation ever disagreed with the implementation the harness would fall back to round-robin for grants that are not
enabled; nothing depends on the simulation being right except the coverage statistics, which are measured on the real trace."""
import struct, re as _re
from concprop import *

IMPORTS = "Require Import PV.Model.AtomicConc PV.Spec.SpecC01 PV.Spec.SpecC11."
M64 = (1 << 64) - 1


def fbits(x):
    return struct.unpack("<Q", struct.pack("<d", x))[0]


def bitsf(b):
    return struct.unpack("<d", struct.pack("<Q", b & M64))[0]


def fhex(x):
    return "%016x" % fbits(x)


# ---------------------------------------------------------------- wire format of one op
def op_wire(op):
    k = op[0]
    if k in ("inc", "get", "reset", "dec"): return k
    if k in ("incbyf", "setf", "addf", "subf"): return "%s %s" % (k, fhex(op[1]) if not isinstance(op[1], int) else "%016x" % op[1])
    if k in ("incbyu",): return "%s %d" % (k, op[1])
    if k in ("seti", "addi", "subi"): return "%s %d" % (k, op[1])
    if k == "lflushf": return "lflushf %d %s" % (len(op[1]), " ".join(fhex(v) for v in op[1]))
    if k == "lflushu": return "lflushu %d %s" % (len(op[1]), " ".join(str(v) for v in op[1]))
    raise ValueError(op)


def fval(v):
    """float operand: a Python float, or an int = raw bit pattern (NaN payloads, -0.0 ...)"""
    return bitsf(v) if isinstance(v, int) else v


# ---------------------------------------------------------------- simulation of the step structure
class Sim:
    """per-thread micro state: (op index, phase); phases: 'call' (the call marker is next), 'rmw' (one-step operation is
    next), 'load' / 'cas' (float loop), 'ret' (the return marker is next), done when op index == len(prog)"""

    def __init__(self, isf, progs):
        self.isf = isf
        self.progs = progs
        self.pc = [0] * len(progs)
        self.ph = ["call"] * len(progs)
        self.cur = [None] * len(progs)        # loaded bit pattern
        self.cell = 0                         # bit pattern
        self.writes = 0                       # number of writes so far (to detect "a write landed in the window")
        self.seen = [0] * len(progs)          # writes count at the time of the load

    def clone(self):
        s = Sim.__new__(Sim)
        s.isf, s.progs = self.isf, self.progs
        s.pc, s.ph, s.cur, s.seen = list(self.pc), list(self.ph), list(self.cur), list(self.seen)
        s.cell, s.writes = self.cell, self.writes
        return s

    def done(self, t): return self.pc[t] >= len(self.progs[t])
    def all_done(self): return all(self.done(t) for t in range(len(self.progs)))
    def enabled(self): return [t for t in range(len(self.progs)) if not self.done(t)]

    def delta(self, op):
        """(kind, amount) kind in noop / add / set / get; amounts: int flavour ints mod 2^64, float flavour floats"""
        k = op[0]
        if self.isf:
            if k == "inc": return ("add", 1.0)
            if k == "dec": return ("add", -1.0)
            if k in ("incbyf", "addf"): return ("add", fval(op[1]))
            if k == "subf": return ("add", -fval(op[1]))
            if k == "setf": return ("set", fbits(fval(op[1])) if not isinstance(op[1], int) else op[1])
            if k == "reset": return ("set", 0)
            if k == "get": return ("get", None)
            if k == "lflushf":
                acc = 0.0
                for v in op[1]: acc += fval(v)
                return ("noop", None) if acc == 0.0 else ("add", acc)
        else:
            if k == "inc": return ("add", 1)
            if k == "dec": return ("add", M64)
            if k in ("incbyu", "addi"): return ("add", op[1] & M64)
            if k == "subi": return ("add", (-op[1]) & M64)
            if k == "seti": return ("set", op[1] & M64)
            if k == "reset": return ("set", 0)
            if k == "get": return ("get", None)
            if k == "lflushu":
                acc = sum(op[1]) & M64
                return ("noop", None) if acc == 0 else ("add", acc)
        raise ValueError(op)

    def next_kind(self, t):
        """what the next grant of thread t is: 'call' | 'ret' | 'load' | 'cas' | 'rmw' (a one-step atomic operation)"""
        return self.ph[t]

    def step(self, t, spur=False):
        """one grant; returns a label: call / ret / load / cas_ok / cas_fail / write / read"""
        op = self.progs[t][self.pc[t]]
        kind, amt = self.delta(op)
        ph = self.ph[t]
        if ph == "call":
            if kind == "noop": self.ph[t] = "ret"
            elif kind == "add" and self.isf: self.ph[t] = "load"
            else: self.ph[t] = "rmw"
            return "call"
        if ph == "ret":
            self.pc[t] += 1; self.ph[t] = "call"
            return "ret"
        if ph == "rmw":
            self.ph[t] = "ret"
            if kind == "get": return "read"
            if kind == "set": self.cell = amt
            else: self.cell = (self.cell + amt) & M64
            self.writes += 1
            return "write"
        if ph == "load":
            self.cur[t] = self.cell; self.seen[t] = self.writes; self.ph[t] = "cas"
            return "load"
        if ph == "cas":
            if spur or self.cell != self.cur[t]:
                self.ph[t] = "load"
                return "cas_fail"
            self.cell = fbits(bitsf(self.cur[t]) + amt)
            self.writes += 1; self.ph[t] = "ret"
            return "cas_ok"
        raise ValueError(ph)

    def in_window(self, t):
        return self.ph[t] == "cas"


def tok(t, spur=False): return "%d%s" % (t, "s" if spur else "")


# ---------------------------------------------------------------- schedule styles (all complete: they run every thread to the end)
def sched_random(r, sim, style):
    """uniform / bursty / pct-like priorities; spurious failures with small probability"""
    n = len(sim.progs)
    out = []
    prio = list(range(n)); r.shuffle(prio)
    cur = r.randrange(n)
    changes = r.randint(1, 4)
    while not sim.all_done():
        en = sim.enabled()
        if style == "uniform":
            t = r.choice(en)
        elif style == "bursty":
            if cur not in en or r.random() < 0.18: cur = r.choice(en)
            t = cur
        else:
            if changes and r.random() < 0.12:
                prio.append(prio.pop(0)); changes -= 1
            t = [p for p in prio if p in en][0] if r.random() < 0.9 else r.choice(en)
        sp = sim.next_kind(t) == "cas" and r.random() < 0.06
        sim.step(t, sp); out.append(tok(t, sp))
    return out


def sched_preempt_after_load(r, sim, p_spur=0.03):
    """forced preemption right after every load of the float loop: the loader is parked inside its window, another thread
    runs until it has written (or finished), then a random thread continues - usually the parked one, whose compare-exchange
    now fails because the cell changed"""
    out = []
    while not sim.all_done():
        en = sim.enabled()
        t = r.choice(en)
        sp = sim.next_kind(t) == "cas" and r.random() < p_spur
        lab = sim.step(t, sp); out.append(tok(t, sp))
        if lab == "load":
            others = [u for u in sim.enabled() if u != t]
            if others:
                u = r.choice(others)
                w0 = sim.writes
                k = 0
                while not sim.done(u) and sim.writes == w0 and k < 12:
                    sim.step(u); out.append(tok(u)); k += 1
                if r.random() < 0.7 and not sim.done(t):
                    # back to the parked thread: its compare-exchange
                    sim.step(t); out.append(tok(t))
    return out


def sched_spurious(r, sim):
    """every compare-exchange fails spuriously once or twice before it is allowed to succeed"""
    out = []
    budget = {}
    while not sim.all_done():
        t = r.choice(sim.enabled())
        sp = False
        if sim.next_kind(t) == "cas":
            key = (t, sim.pc[t])
            left = budget.setdefault(key, r.randint(1, 2))
            if left > 0:
                sp = True; budget[key] = left - 1
        sim.step(t, sp); out.append(tok(t, sp))
    return out


def sched_rounds(r, sim):
    """all threads invoke, then all perform their first atomic step, ...: maximal overlap of the calls"""
    out = []
    while not sim.all_done():
        order = sim.enabled(); r.shuffle(order)
        for t in order:
            if not sim.done(t):
                sim.step(t); out.append(tok(t))
    return out


STYLES = ["preempt", "preempt", "preempt", "uniform", "bursty", "pct", "spurious", "rounds"]


def make_schedule(r, isf, progs, style):
    sim = Sim(isf, progs)
    if style == "preempt": toks = sched_preempt_after_load(r, sim)
    elif style == "spurious": toks = sched_spurious(r, sim)
    elif style == "rounds": toks = sched_rounds(r, sim)
    else: toks = sched_random(r, sim, style)
    return " ".join(toks)


# ---------------------------------------------------------------- exhaustive enumeration
def enumerate_schedules(isf, progs, tight=True, max_spur=0, limit=200000):
    """every maximal schedule of the configuration.  tight: the call marker is granted immediately before the call's first
    atomic step and the return marker immediately after its last one (the tightest real-time windows), so the enumeration
    is over interleavings of ATOMIC steps; otherwise markers are scheduled like any other step."""
    out = []

    def macro(sim, t, spur):
        """advance thread t by one atomic step (tight mode: with its adjacent markers); returns tokens"""
        toks = []
        if sim.next_kind(t) == "call":
            sim.step(t); toks.append(tok(t))
            if sim.next_kind(t) == "ret":          # no-op flush
                sim.step(t); toks.append(tok(t))
                return toks
        lab = sim.step(t, spur and sim.next_kind(t) == "cas"); toks.append(tok(t, spur and lab == "cas_fail"))
        if sim.next_kind(t) == "ret":
            sim.step(t); toks.append(tok(t))
        return toks

    def rec(sim, acc, spur_left):
        if len(out) >= limit: return
        if sim.all_done():
            out.append(" ".join(acc)); return
        for t in sim.enabled():
            choices = [False]
            # a spurious failure is a choice only where the compare-exchange would otherwise succeed
            nk = sim.next_kind(t)
            if spur_left > 0 and ((nk == "cas" and sim.cell == sim.cur[t])):
                choices.append(True)
            for sp in choices:
                s2 = sim.clone()
                if tight:
                    toks = macro(s2, t, sp)
                else:
                    s2.step(t, sp); toks = [tok(t, sp)]
                rec(s2, acc + toks, spur_left - (1 if sp else 0))
    rec(Sim(isf, progs), [], max_spur)
    return out


# ---------------------------------------------------------------- facts measured on the REAL trace
EV_RE = _re.compile(r"(ECall|ERet|EAt) (\d+)(?: (\d+) (K\w+) (\w+) (\(Some \w+\)|None) (\d+) (\d+) (true|false))?")


def trace_facts(out):
    """windows entered and orderings seen in the implementation's trace"""
    f = collections.Counter(); ords = collections.defaultdict(set)
    pending = set(); loaded = {}; writes = 0
    for m in EV_RE.finditer(out):
        ev, t = m.group(1), int(m.group(2))
        if ev == "ECall":
            if pending - {t}: f["overlapping_calls"] += 1
            pending.add(t)
        elif ev == "ERet":
            pending.discard(t)
        else:
            kind, o, o2, before, after, ok = m.group(4), m.group(5), m.group(6), int(m.group(7)), int(m.group(8)), m.group(9) == "true"
            ords[kind].add(o + ("/" + o2[6:-1] if o2 != "None" else ""))
            if kind == "KLoad": loaded[t] = (before, writes)
            if kind == "KCasWeak":
                lb, lw = loaded.get(t, (None, None))
                if not ok:
                    if lb is not None and lb == before: f["cas_fail_spurious"] += 1
                    else: f["cas_fail_cell_changed"] += 1
                elif lw is not None and writes > lw: f["cas_ok_after_benign_write_in_window"] += 1
                if lw is not None and writes > lw: f["write_landed_between_load_and_cas"] += 1
            if kind in ("KStore", "KFetchAdd", "KFetchSub", "KSwap") or (kind == "KCasWeak" and ok):
                writes += 1
    return f, ords


PINNED_ORDS = {"KLoad": {"Relaxed", "Acquire"}, "KStore": {"Relaxed"}, "KFetchAdd": {"Relaxed"}, "KFetchSub": {"Relaxed"},
               "KCasWeak": {"Release/Relaxed"}}


class AtomicProp(ConcProp):
    imports = IMPORTS
    case_type = "flavour * list event"
    chk_def = "Definition chk (c : flavour * list event) : bool := trace_ok_fl c."
    obj = "ctr"

    def __init__(self):
        self._facts = collections.Counter(); self._ords = collections.defaultdict(set); self._kinds = collections.Counter()

    def scenario(self, isf, progs, sched, kind):
        objw = "%s %s" % (self.obj, "NF" if isf else ("NU" if self.obj == "ctr" else "NI"))
        line = "C %s | %s | S %s" % (objw, " | ".join(", ".join(op_wire(o) for o in p) for p in progs), sched)
        return dict(line=line, isf=isf, kind=kind, nthreads=len(progs), ncalls=sum(len(p) for p in progs))

    def case_term(self, sc, out):
        return "(%s, %s)" % ("FlFloat" if sc["isf"] else "FlInt", out)

    def nontrivial(self, sc, out):
        f, o = trace_facts(out)
        for k, v in f.items():
            if v: self._facts[k] += 1
        for k, v in o.items(): self._ords[k] |= v
        self._kinds[sc.get("kind", "?") + ("/f64" if sc["isf"] else "/int")] += 1
        bad = any(w in out for w in ("EPanic", "EStuck", "EDeadlock", "ELivelock", "ENoHooks"))
        return (not bad) and (f["overlapping_calls"] > 0)

    def explain(self, case):
        path = os.path.join(BUILD, "cases", self.pid + "_explain.v")
        os.makedirs(os.path.dirname(path), exist_ok=True)
        with open(path, "w") as fh:
            fh.write(CONC_HDR % self.imports)
            fh.write("Definition c : %s := %s.\n" % (self.case_type, case))
            fh.write("Eval vm_compute in (first_reject c, nth_error (snd c) (match first_reject c with Some i => N.to_nat i | None => 0%nat end)).\n")
        rc, out = sh(["timeout", "120", "coqc", "-noglob", "-Q", COQ, "PV", path])
        return out.strip()[-600:]

    def run(self, tier, seed, replay=None):
        rc = ConcProp.run(self, tier, seed, replay)
        ev_path = os.path.join(EVID, "%s.json" % self.pid)
        try:
            ev = json.load(open(ev_path))
            ev["coverage"]["windows_entered"] = dict(self._facts)
            ev["coverage"]["schedule_kinds"] = dict(self._kinds)
            ev["coverage"]["runtime_orderings"] = {k: sorted(v) for k, v in self._ords.items()}
            dev = {k: sorted(v - PINNED_ORDS.get(k, set())) for k, v in self._ords.items() if v - PINNED_ORDS.get(k, set())}
            ev["coverage"]["orderings_not_in_pinned_source"] = dev
            ev["coverage"]["orderings_note"] = ("informational: memory orderings are recorded but are not part of the acceptance condition "
                                                "of the trace validator (one cell: every ordering gives the same behaviours in the interleaving model)")
            json.dump(ev, open(ev_path, "w"), indent=1, sort_keys=True, default=str)
            if dev:
                print("[%s] note: orderings differ from the pinned source (informational): %s" % (self.pid, dev))
        except OSError:
            pass
        return rc
