"""Shared machinery of the checks: scenario values -> harness wire format and Gallina terms,
building the Coq development and the Rust harness, running scenarios on the implementation,
comparing inside Coq, verdicts, evidence."""
import hashlib, json, os, re, shutil, subprocess, sys, time
from collections import namedtuple

VERIF = os.path.dirname(os.path.dirname(os.path.abspath(__file__)))
REPO = os.environ.get("PV_REPO", "/repo")      # PV_REPO: run the checks against a scratch copy of the repository
COQ = os.path.join(VERIF, "coq")
# a run against a scratch copy of the repository (PV_REPO) works in its own build directory, so that it can run next to a
# run against /repo without sharing case files, replays or cargo target directories
BUILD = os.path.join(VERIF, "build") if REPO == "/repo" else os.path.join(VERIF, "build", "scratch-" + hashlib.sha1(REPO.encode()).hexdigest()[:10])
HARNESS = os.path.join(VERIF, "harness")
# evidence/ holds what the checks found on /repo itself; a run against a scratch copy (PV_REPO) writes elsewhere
EVID = os.path.join(VERIF, "evidence") if REPO == "/repo" else os.path.join(BUILD, "evidence")
NPROC = 16

F = namedtuple("F", "bits")          # an f64 by bit pattern


def f64(x):
    import struct
    return F(struct.unpack("<Q", struct.pack("<d", x))[0])


NAN = F(0x7ff8000000000000)
PINF = F(0x7ff0000000000000)
NINF = F(0xfff0000000000000)
NZERO = F(0x8000000000000000)

# ---------------------------------------------------------------- type-directed rendering
def hexs(s):
    return s.encode("utf-8").hex() if s else "-"


# UNSET: in a MetricFamily literal, "do not call the setter of this field" (harness token `~`); the model sees the
# data model's default value (empty string, 0, +0.0, COUNTER).  Only family / payload fields accept it.
UNSET = "~unset~"


def w_str(s): return ["~"] if s == UNSET else [hexs(s)]
def c_str(s): return "[]" if s == UNSET else "[" + ";".join(str(ord(ch)) for ch in s) + "]"
def w_f64(x): return ["~"] if x == UNSET else ["%016x" % x.bits]
def c_f64(x): return "(bits2f 0x0000000000000000)" if x == UNSET else "(bits2f 0x%016x)" % x.bits
def w_n(n): return ["~"] if n == UNSET else [str(n)]
def c_n(n): return "0" if n == UNSET else str(n)
def c_cnt(n): return 0 if n == UNSET else n
def c_nat(n): return "%d%%nat" % n
def c_z(z): return ("(%d)%%Z" % z) if z < 0 else ("%d%%Z" % z)


def w_list(f):
    return lambda l: [str(len(l))] + [t for x in l for t in f(x)]


def c_list(f):
    return lambda l: "[" + ";".join(f(x) for x in l) + "]"


def w_opt(f):
    return lambda o: ["0"] if o is None else ["1"] + f(o)


def c_opt(f):
    return lambda o: "None" if o is None else "(Some %s)" % f(o)


def w_pair(f, g):
    return lambda p: f(p[0]) + g(p[1])


def c_pair(f, g):
    return lambda p: "(%s,%s)" % (f(p[0]), g(p[1]))


w_strs = w_list(w_str); c_strs = c_list(c_str)
w_pairs = w_list(w_pair(w_str, w_str)); c_pairs = c_list(c_pair(c_str, c_str))


def w_num(v): return [v[0]] + (w_f64(v[1]) if v[0] == "VF" else [str(v[1])])
def c_num(v):
    if v[0] == "VF": return "(VF %s)" % c_f64(v[1])
    if v[0] == "VU": return "(VU %d)" % v[1]
    return "(VI %s)" % c_z(v[1])


def mkopts(name, help_="h", ns="", sub="", consts=(), vars_=()):
    return dict(ns=ns, sub=sub, name=name, help=help_, consts=list(consts), vars=list(vars_))


def w_opts(o): return w_str(o["ns"]) + w_str(o["sub"]) + w_str(o["name"]) + w_str(o["help"]) + w_pairs(o["consts"]) + w_strs(o["vars"])
def c_opts(o):
    return "(mkOpts %s %s %s %s (amap_of %s) %s)" % (c_str(o["ns"]), c_str(o["sub"]), c_str(o["name"]), c_str(o["help"]),
                                                    c_pairs(o["consts"]), c_strs(o["vars"]))


def w_hopts(h): return w_opts(h["opts"]) + w_list(w_f64)(h["buckets"])
def c_hopts(h): return "(mkHOpts %s %s)" % (c_opts(h["opts"]), c_list(c_f64)(h["buckets"]))


# MetricFamily literals: dicts
def mk_metric(labels=(), gauge=None, counter=None, summary=None, untyped=None, hist=None, ts=None):
    return dict(labels=list(labels), gauge=gauge, counter=counter, summary=summary, untyped=untyped, hist=hist, ts=ts)


def w_summary(s): return w_n(s["count"]) + w_f64(s["sum"]) + w_list(w_pair(w_f64, w_f64))(s["q"])
def c_summary(s): return "(mkSummary %d %s %s)" % (c_cnt(s["count"]), c_f64(s["sum"]), c_list(lambda q: "(mkQuantile %s %s)" % (c_f64(q[0]), c_f64(q[1])))(s["q"]))
def w_hist(h): return w_n(h["count"]) + w_f64(h["sum"]) + w_list(lambda b: w_n(b[0]) + w_f64(b[1]))(h["b"])
def c_hist(h): return "(mkHist %d %s %s)" % (c_cnt(h["count"]), c_f64(h["sum"]), c_list(lambda b: "(mkBucket %d %s)" % (c_cnt(b[0]), c_f64(b[1])))(h["b"]))


def w_metric(m):
    return (w_pairs(m["labels"]) + w_opt(w_f64)(m["gauge"]) + w_opt(w_f64)(m["counter"]) + w_opt(w_summary)(m["summary"])
            + w_opt(w_f64)(m["untyped"]) + w_opt(w_hist)(m["hist"]) + w_opt(lambda z: [str(z)])(m["ts"]))


def c_metric(m):
    return "(mkMetric %s %s %s %s %s %s %s)" % (
        c_list(lambda p: "(mkLP %s %s)" % (c_str(p[0]), c_str(p[1])))(m["labels"]), c_opt(c_f64)(m["gauge"]), c_opt(c_f64)(m["counter"]),
        c_opt(c_summary)(m["summary"]), c_opt(c_f64)(m["untyped"]), c_opt(c_hist)(m["hist"]), c_opt(c_z)(m["ts"]))


def mk_family(name, help_, typ, metrics): return dict(name=name, help=help_, type=typ, metrics=list(metrics))
def w_family(f): return w_str(f["name"]) + w_str(f["help"]) + (["~"] if f["type"] == UNSET else [f["type"]]) + w_list(w_metric)(f["metrics"])
def c_family(f): return "(mkMF %s %s %s %s)" % (c_str(f["name"]), c_str(f["help"]), "COUNTER" if f["type"] == UNSET else f["type"], c_list(c_metric)(f["metrics"]))


w_descargs = w_list(lambda d: w_str(d[0]) + w_str(d[1]) + w_strs(d[2]) + w_pairs(d[3]))
c_descargs = c_list(lambda d: "(%s,%s,%s,%s)" % (c_str(d[0]), c_str(d[1]), c_strs(d[2]), c_pairs(d[3])))

TY = {
    "str": (w_str, c_str), "strs": (w_strs, c_strs), "pairs": (w_pairs, c_pairs),
    "f64": (w_f64, c_f64), "n": (w_n, c_n), "slot": (w_n, c_nat), "num": (w_num, c_num),
    "kind": (lambda k: [k], lambda k: k), "opts": (w_opts, c_opts), "hopts": (w_hopts, c_hopts),
    "ostr": (w_opt(w_str), c_opt(c_str)), "opairs": (w_opt(w_pairs), c_opt(c_pairs)),
    "fams": (w_list(w_family), c_list(c_family)), "descargs": (w_descargs, c_descargs),
    "tmode": (lambda k: [k], lambda k: k),
}

OPS = {
    "OpDesc": ["str", "str", "strs", "pairs"], "OpFqName": ["str", "str", "str"],
    "OpCounter": ["kind", "opts"], "OpGauge": ["kind", "opts"], "OpHistogram": ["hopts"],
    "OpCounterVec": ["kind", "opts", "strs"], "OpGaugeVec": ["kind", "opts", "strs"], "OpHistVec": ["hopts", "strs"],
    "OpWith": ["slot", "strs"], "OpWithMap": ["slot", "pairs"], "OpRemove": ["slot", "strs"], "OpRemoveMap": ["slot", "pairs"],
    "OpReset": ["slot"], "OpInc": ["slot"], "OpIncBy": ["slot", "num"], "OpDec": ["slot"], "OpAdd": ["slot", "num"],
    "OpSub": ["slot", "num"], "OpSet": ["slot", "num"], "OpGet": ["slot"], "OpObserve": ["slot", "f64"],
    "OpSampleSum": ["slot"], "OpSampleCount": ["slot"], "OpLocal": ["slot"], "OpFlush": ["slot"], "OpClear": ["slot"],
    "OpClone": ["slot"], "OpDrop": ["slot"], "OpLvInc": ["slot", "strs", "num"], "OpLvObserve": ["slot", "strs", "f64"],
    "OpLvRemove": ["slot", "strs"], "OpTimer": ["slot"], "OpTimerStop": ["slot", "tmode", "n", "n"], "OpClosure": ["slot", "n", "n"],
    "OpRegistry": ["ostr", "opairs"], "OpRegister": ["slot", "slot"], "OpUnregister": ["slot", "slot"], "OpGather": ["slot"],
    "OpCustom": ["descargs", "fams"], "OpPulling": ["str", "str", "f64"], "OpCollect": ["slot"], "OpDescOf": ["slot"],
    "OpLinearBuckets": ["f64", "f64", "n"], "OpExpBuckets": ["f64", "f64", "n"],
}
# ops that append a slot (so generators can track slot numbers)
CTOR_OPS = {"OpCounter", "OpGauge", "OpHistogram", "OpCounterVec", "OpGaugeVec", "OpHistVec", "OpWith", "OpWithMap", "OpLocal",
            "OpClone", "OpTimer", "OpRegistry", "OpCustom", "OpPulling"}


def op_wire(op):
    toks = [op[0]]
    for ty, a in zip(OPS[op[0]], op[1:]):
        toks += TY[ty][0](a)
    if len(op) > 1 + len(OPS[op[0]]):      # extra raw tokens (harness-only modifiers)
        toks += list(op[1 + len(OPS[op[0]]):])
    return " ".join(toks)


def op_coq(op):
    args = [TY[ty][1](a) for ty, a in zip(OPS[op[0]], op[1:])]
    return "(" + " ".join([op[0]] + args) + ")" if args else op[0]


def scen_wire(ops): return "S | " + " | ".join(op_wire(o) for o in ops)
def scen_coq(ops): return "[" + ";\n   ".join(op_coq(o) for o in ops) + "]"


class Slots:
    """tracks slot numbers while a generator emits ops"""
    def __init__(self): self.ops = []; self.n = 0
    def emit(self, *op):
        self.ops.append(tuple(op))
        if op[0] in CTOR_OPS:
            self.n += 1
            return self.n - 1
        return None


# ---------------------------------------------------------------- building
def sh(cmd, cwd=None, timeout=None, env=None, check=False, input=None):
    e = dict(os.environ)
    e.update({"CARGO_NET_OFFLINE": "true"})
    if env: e.update(env)
    p = subprocess.run(cmd, cwd=cwd, shell=isinstance(cmd, str), stdout=subprocess.PIPE, stderr=subprocess.STDOUT, text=True,
                       timeout=timeout, env=e, input=input)
    if check and p.returncode != 0:
        raise RuntimeError("command failed: %s\n%s" % (cmd, p.stdout[-4000:]))
    return p.returncode, p.stdout


def coq_make(targets, timeout=1500):
    """full .vo build of the given targets (never -vos); returns (ok, output)"""
    import mkproject
    mkproject.main()
    rc, out = sh(["timeout", str(timeout), "make", "-j%d" % NPROC, "COQC=timeout 900 coqc"] + targets, cwd=COQ)   # per-file cap: a runaway tactic must not eat the whole budget
    return rc == 0, out


def harness_build(features_default=True, timeout=1500, release=False):
    """(re)builds the harness against the repository's current working tree with the hooks on.
    With PV_REPO set to a scratch copy, a copy of the harness crate pointing at it is built in its own directories."""
    suffix = "" if features_default else "-plain"
    if release: suffix += "-release"
    hdir = HARNESS
    if REPO != "/repo":
        tag = hashlib.sha1(REPO.encode()).hexdigest()[:10]
        hdir = os.path.join(BUILD, "harness-src-" + tag)
        if os.path.exists(hdir): shutil.rmtree(hdir)
        shutil.copytree(HARNESS, hdir, ignore=shutil.ignore_patterns("target"))
        ct = open(os.path.join(hdir, "Cargo.toml")).read().replace('path = "/repo"', 'path = "%s"' % REPO)
        open(os.path.join(hdir, "Cargo.toml"), "w").write(ct)
        suffix += "-" + tag
    tdir = os.path.join(BUILD, "harness-target" + suffix)
    os.makedirs(tdir, exist_ok=True)
    lock = os.path.join(hdir, "Cargo.lock")
    if not os.path.exists(lock):
        shutil.copy(os.path.join(REPO, "Cargo.lock"), lock)
    cmd = ["timeout", str(timeout), "cargo", "build", "--offline", "--target-dir", tdir]
    if not features_default:
        cmd += ["--no-default-features"]
    if release:
        cmd += ["--release"]
    rc, out = sh(cmd, cwd=hdir, env={"RUSTFLAGS": "--cfg prometheus_verif"})
    return rc == 0, out, os.path.join(tdir, "release" if release else "debug", "pv")


HUNG_MARKS = ("OHung", "EStuck", "ELivelock", "EDeadlock")


def run_harness(binpath, lines, timeout_ms=5000, wall=600, retry=True):
    """runs the lines through the harness; a line that produced no output or a watchdog verdict (the machine may simply be
    overloaded) is re-run once, alone, with a six times longer watchdog - a real hang hangs again and is reported as before"""
    out = run_harness_once(binpath, lines, timeout_ms, wall)
    if retry:
        again = [i for i, o in enumerate(out) if o is None or any(m in o for m in HUNG_MARKS)]
        for i in again[:40]:
            o2 = run_harness_once(binpath, [lines[i]], timeout_ms * 6, 240)
            if o2 and o2[0] is not None:
                out[i] = o2[0]
    return out


def run_harness_once(binpath, lines, timeout_ms=5000, wall=600):
    """runs scenario lines through the harness (sharded over processes); returns list of output lines (None if missing)"""
    if not lines: return []
    nsh = min(NPROC, max(1, len(lines) // 20))
    shards = [lines[i::nsh] for i in range(nsh)]
    procs = []
    for s in shards:
        p = subprocess.Popen([binpath, "--timeout-ms", str(timeout_ms)], stdin=subprocess.PIPE, stdout=subprocess.PIPE,
                             stderr=subprocess.DEVNULL, text=True)
        procs.append(p)
    outs = []
    import threading
    res = [None] * nsh
    def work(i):
        try:
            o, _ = procs[i].communicate("\n".join(shards[i]) + "\n", timeout=wall)
            res[i] = o.split("\n")
        except subprocess.TimeoutExpired:
            procs[i].kill(); res[i] = []
    ths = [threading.Thread(target=work, args=(i,)) for i in range(nsh)]
    for t in ths: t.start()
    for t in ths: t.join()
    out = [None] * len(lines)
    for i in range(nsh):
        for j, l in enumerate(res[i] or []):
            idx = i + j * nsh
            if idx < len(lines) and l.strip():
                out[idx] = l.strip()
    return out


# ---------------------------------------------------------------- comparing inside Coq
COQ_HDR = """Require Import PV.Base.Prelude PV.Base.F64 PV.Model.Proto PV.Model.Desc PV.Model.Value PV.Model.Hist PV.Model.Vec PV.Model.Registry PV.Model.World.
%s
Open Scope N_scope.
Set Printing Width 1000000.
Set Printing Depth 1000000.
"""


def coqc_file(path, timeout=900):
    rc, out = sh(["timeout", str(timeout), "coqc", "-noglob", "-Q", COQ, "PV", path])
    return rc, out


def parse_nlist(out):
    """parses the `= [a; b]%N : list N` answers of Eval vm_compute; returns list of lists"""
    res = []
    for m in re.finditer(r"=\s*(\[[^\]]*\]|nil)(%N)?\s*:\s*list N", out):
        body = m.group(1)
        res.append([int(x) for x in re.findall(r"\d+", body)] if body != "nil" else [])
    return res


def compare_cases(prop, cases, extra_imports="", chk_def=None, case_type="list op * list obs", tag="cases"):
    """cases: list of (scenario_coq_term, impl_obs_term). Writes shards, evaluates
    `failing chk` in Coq. Returns (failing_indices, errors)."""
    d = os.path.join(BUILD, "cases", prop)
    shutil.rmtree(d, ignore_errors=True); os.makedirs(d)
    n = len(cases)
    nsh = min(NPROC, max(1, (n + 39) // 40))
    per = (n + nsh - 1) // nsh if n else 1
    if chk_def is None:
        chk_def = "Definition chk (c : list op * list obs) : bool := match first_diff 0 (run world0 (fst c)) (snd c) with None => true | Some _ => false end."
    files = []
    for k in range(nsh):
        lo, hi = k * per, min(n, (k + 1) * per)
        if lo >= hi: continue
        path = os.path.join(d, "%s_%d.v" % (tag, k))
        with open(path, "w") as f:
            f.write(COQ_HDR % extra_imports)
            f.write("Definition cases : list (%s) := [\n" % case_type)
            f.write(";\n".join("(%s,\n  %s)" % (s, o) for s, o in cases[lo:hi]))
            f.write("].\n%s\nEval vm_compute in failing chk %d cases.\n" % (chk_def, lo))
        files.append(path)
    procs = [subprocess.Popen(["timeout", "900", "coqc", "-noglob", "-Q", COQ, "PV", p], stdout=subprocess.PIPE, stderr=subprocess.STDOUT, text=True) for p in files]
    failing, errors = [], []
    for p, path in zip(procs, files):
        out = p.communicate()[0]
        if p.returncode != 0:
            errors.append((path, out[-3000:]))
            continue
        for l in parse_nlist(out): failing += l
    return sorted(failing), errors


def explain_case(prop, scen_term, obs_term, extra_imports=""):
    """prints where model and implementation diverge for one case"""
    d = os.path.join(BUILD, "cases", prop); os.makedirs(d, exist_ok=True)
    path = os.path.join(d, "explain.v")
    with open(path, "w") as f:
        f.write(COQ_HDR % extra_imports)
        f.write("Definition sc : list op := %s.\nDefinition im : list obs := %s.\n" % (scen_term, obs_term))
        f.write("Eval vm_compute in first_diff 0 (run world0 sc) im.\n")
        f.write("Eval vm_compute in match first_diff 0 (run world0 sc) im with Some i => (nth_error (run world0 sc) (N.to_nat i), nth_error im (N.to_nat i)) | None => (None, None) end.\n")
    rc, out = coqc_file(path)
    return out


# ---------------------------------------------------------------- proofs
AXIOM_ALLOW = [
    # FloatAxioms (standard library: specification of the primitive floats)
    "Prim2SF_valid", "SF2Prim_Prim2SF", "Prim2SF_SF2Prim", "Prim2SF_inj", "opp_spec", "abs_spec", "eqb_spec", "ltb_spec", "leb_spec",
    "compare_spec", "mul_spec", "add_spec", "sub_spec", "div_spec", "sqrt_spec", "of_uint63_spec", "normfr_mantissa_spec",
    "frshiftexp_spec", "ldshiftexp_spec", "next_up_spec", "next_down_spec", "classify_spec", "Leibniz.equal_spec",
    # classical / real-number axioms of the standard library (reached through Flocq)
    "Classical_Prop.classic", "classic", "FunctionalExtensionality.functional_extensionality_dep", "functional_extensionality_dep",
    "ClassicalDedekindReals.sig_forall_dec", "sig_forall_dec", "ClassicalDedekindReals.sig_not_dec", "sig_not_dec",
    "ProofIrrelevance.proof_irrelevance", "proof_irrelevance", "Eqdep.Eq_rect_eq.eq_rect_eq", "eq_rect_eq", "JMeq.JMeq_eq", "JMeq_eq",
    # primitive types and operations (kernel primitives declared with `Primitive`, listed by Print Assumptions; not assumptions)
    "PrimFloat.float", "float", "PrimInt63.int", "int",
    "add", "sub", "mul", "div", "sqrt", "opp", "abs", "eqb", "ltb", "leb", "compare", "classify", "of_uint63", "normfr_mantissa",
    "frshiftexp", "ldshiftexp", "next_up", "next_down", "lsl", "lsr", "land", "lor", "lxor", "mod", "divs", "mods", "asr",
    "addc", "addcarryc", "subc", "subcarryc", "mulc", "diveucl", "diveucl_21", "addmuldiv", "head0", "tail0", "ltsb", "lesb", "compares",
]
PRIM_PREFIXES = ("PrimInt63.", "PrimFloat.", "Uint63.", "Sint63.", "CarryType.", "FloatOps.")
FORBIDDEN = re.compile(r"\b(Admitted|admit|Axiom|Parameter|Conjecture|Unset Guard|bypass_check|Admit Obligations|type-in-type|impredicative-set)\b")


def scan_forbidden():
    bad = []
    for root, _, fs in os.walk(COQ):
        for fn in fs:
            if fn.endswith(".v"):
                p = os.path.join(root, fn)
                src = open(p).read()
                # strip comments (non-nested approximation good enough: we never write these words in comments)
                for i, line in enumerate(src.split("\n")):
                    if FORBIDDEN.search(line):
                        bad.append("%s:%d: %s" % (p, i + 1, line.strip()))
    return bad


def check_props(prop, extra_targets=()):
    """builds Props/<prop>.vo (full proof check), inspects Print Assumptions.
    returns dict(ok, obligations, discharged, theorems, axioms, log)"""
    target = "Props/%s.vo" % prop
    src = os.path.join(COQ, "Props", "%s.v" % prop)
    # 1. bring Props/<prop>.vo and everything it depends on up to date (full .vo build; nothing is deleted, so checks of
    #    different properties can run side by side);
    # 2. re-check the pinned statements themselves on every run with a private output file, which also yields their
    #    Print Assumptions output: Props/<prop>.v and, if present, Proofs/<prop>SpecPinned.v (the uniform "the executable
    #    spec holds of the model" theorems, required by the Props file).
    pinned = os.path.join(COQ, "Proofs", "%sSpecPinned.v" % prop)
    ok, out = coq_make(list(extra_targets) + [target])
    text = ""
    outdir = os.path.join(BUILD, "props", "%s-%d" % (prop, os.getpid())); os.makedirs(outdir, exist_ok=True)
    for f in ([pinned] if os.path.exists(pinned) else []) + [src]:
        if not os.path.exists(f): ok = False; continue
        text += "\n" + open(f).read()
        if ok:
            rc, o2 = sh(["timeout", "900", "coqc", "-q", "-w", "-notation-overridden,-deprecated-syntactic-definition,-deprecated-hint-rewrite-without-locality,-deprecated-instance-without-locality,-ambiguous-paths",
                         "-Q", COQ, "PV", "-o", os.path.join(outdir, os.path.basename(f) + "o"), f])
            out += "\n" + o2
            if rc != 0: ok = False
    shutil.rmtree(outdir, ignore_errors=True)
    theorems = re.findall(r"^\s*(?:Theorem|Lemma|Corollary|Example)\s+(\w+)", text, re.M)
    axioms = set()
    closed = 0
    for m in re.finditer(r"Closed under the global context", out): closed += 1
    # "Axioms:" blocks
    for blk in re.finditer(r"Axioms:\n((?:.+\n?)+?)(?=\n\S|\Z|COQC|make)", out):
        for l in blk.group(1).split("\n"):
            mm = re.match(r"^(\S+)\s*:", l)
            if mm and mm.group(1) != "Axioms": axioms.add(mm.group(1))
    bad_axioms = sorted(a for a in axioms if a not in AXIOM_ALLOW and a.split(".")[-1] not in AXIOM_ALLOW and not a.startswith(PRIM_PREFIXES))
    forb = scan_forbidden()
    good = ok and not bad_axioms and not forb
    failed_thm = None
    if not ok:
        m = re.search(r'File "([^"]+)", line (\d+)', out)
        if m:
            failed_thm = "%s:%s" % (os.path.relpath(m.group(1), COQ) if os.path.isabs(m.group(1)) else m.group(1), m.group(2))
    return dict(ok=good, make_ok=ok, obligations=len(theorems), discharged=len(theorems) if good else 0, theorems=theorems,
                axioms=sorted(axioms), bad_axioms=bad_axioms, forbidden=forb, log=out[-6000:], failed_at=failed_thm)


# ---------------------------------------------------------------- evidence / verdict
def write_evidence(prop, tier, seed, coverage, assumptions, wall_s, violations):
    os.makedirs(EVID, exist_ok=True)
    ev = dict(property_id=prop, tier=tier, seed=seed, level="proof", coverage=coverage, assumptions=assumptions,
              wall_s=round(wall_s, 2), violations=violations)
    with open(os.path.join(EVID, "%s.json" % prop), "w") as f:
        json.dump(ev, f, indent=1, sort_keys=True, default=str)


def write_replay(prop, seed, idx, payload):
    d = os.path.join(BUILD, "replays"); os.makedirs(d, exist_ok=True)
    p = os.path.join(d, "%s-%d-%d.json" % (prop, seed, idx))
    with open(p, "w") as f:
        json.dump(payload, f, indent=1, default=str)
    return p


def harness_broken(prop, tier, seed, log):
    """the correspondence harness does not compile against the repository's working tree: a public signature it uses has
    changed, so the model can no longer be compared with the code and the property is no longer shown to hold"""
    p = write_replay(prop, seed, 0, dict(property=prop, tier=tier, seed=seed, kind="no-failing-input-found",
                                         broken="the correspondence harness (harness/, built with --cfg prometheus_verif against the repository's working tree) does not "
                                                "compile: the public API it drives has changed, the correspondence between model and code cannot be established",
                                         build_log=(log or "")[-4000:]))
    print("VIOLATION property=%s replay=%s no-failing-input-found" % (prop, p))
    return 1


def load_known():
    p = os.path.join(VERIF, "known_findings.json")
    return json.load(open(p)) if os.path.exists(p) else []
