"""C15  Descriptor identity is structural."""
from props import *


# ------------------------------------------------------------------------------------ C15
class C15(SeqProp):
    pid = "C15"
    spec_import = "Require Import PV.Spec.SpecC15.\nRequire PV.Proofs.C15Spec."
    dom_fn = "PV.Proofs.C15Spec.dom15"     # the domain of the uniform spec-of-model theorem (counted in the evidence)
    spec_fn = "spec_c15"
    rule = ("each scenario is a group of 2-6 Desc::new calls over adversarial string pools (shared prefixes/suffixes, empty strings, "
            "boundary-shifted name/value splits, reordered constant labels, the FNV collision pair); non-trivial = at least two "
            "descriptors were accepted; distinct = distinct scenario text")
    assumptions = ["equality of identities is up to collisions of the 64-bit hash (granted by the property)",
                   "HashMap iteration order is exercised through fresh maps per call, not controlled"]

    def gen(self, r, tier):
        n = 400 if tier == "quick" else 4000
        out = []
        for _ in range(n):
            ops = []
            base_name = gens.metric_name(r, 0.95)
            base_help = gens.help_text(r, 0.95)
            keys = [gens.label_name(r, 0.95) for _ in range(r.randint(0, 3))]
            vals = [gens.label_value(r) for _ in keys]
            vars_ = [gens.label_name(r, 0.95) for _ in range(r.randint(0, 3))]
            base = (base_name, base_help, vars_, list(zip(keys, vals)))
            ops.append(("OpDesc",) + base)
            for _ in range(r.randint(1, 5)):
                name, help_, vs, cs = base[0], base[1], list(base[2]), list(base[3])
                k = r.random()
                if k < 0.2:
                    r.shuffle(cs)                                  # same descriptor, another insertion order
                elif k < 0.4 and cs:
                    # shift a boundary between name and first value / between two values (in name order)
                    cs_sorted = sorted(cs)
                    if r.random() < 0.5 or len(cs_sorted) < 2:
                        j = name + cs_sorted[0][1]
                        a, b = r.choice(gens.split_variants(j))
                        name = a; cs_sorted[0] = (cs_sorted[0][0], b)
                    else:
                        i = r.randrange(len(cs_sorted) - 1)
                        j = cs_sorted[i][1] + cs_sorted[i + 1][1]
                        a, b = r.choice(gens.split_variants(j))
                        cs_sorted[i] = (cs_sorted[i][0], a); cs_sorted[i + 1] = (cs_sorted[i + 1][0], b)
                    cs = cs_sorted; r.shuffle(cs)
                elif k < 0.5:
                    r.shuffle(vs)                                  # variable names as a set
                elif k < 0.6 and (vs or cs):
                    # move a name between the constant and the variable labels
                    if vs and r.random() < 0.5:
                        v = vs.pop(r.randrange(len(vs))); cs.append((v, gens.label_value(r)))
                    elif cs:
                        c = cs.pop(r.randrange(len(cs))); vs.append(c[0])
                elif k < 0.7:
                    # shift the help / first-name boundary of the dimension signature
                    names = sorted([c[0] for c in cs])
                    if names:
                        j = help_ + names[0]
                        a, b = r.choice(gens.split_variants(j))
                        help_ = a
                        cs = [((b if c[0] == names[0] else c[0]), c[1]) for c in cs]
                elif k < 0.8:
                    help_ = gens.help_text(r, 0.95)
                elif k < 0.9:
                    if cs:
                        i = r.randrange(len(cs)); cs[i] = (cs[i][0], gens.label_value(r))
                    else:
                        name = gens.metric_name(r, 0.95)
                else:
                    name = r.choice(["indbfqeysbnpsf", "ivltldgmoctybd"]); cs = []
                ops.append(("OpDesc", name, help_, vs, cs))
            out.append(ops)
        return out

    def nontrivial(self, ops, o):
        return o.count("ODesc (Some") >= 2
