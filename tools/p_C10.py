"""C10  Concurrent use of a metric vector is linearizable.

Scenarios: one IntCounterVec with 1-2 label names, 2-3 threads, 1-4 calls each over 2-3 distinct label-value tuples
(`withinc` = with_label_values(k).inc_by(d) with a scenario-wide distinct power of two d, `remove`, `vreset`, `vcollect`, a few
calls with the wrong number of label values), run by the harness one lock attempt / release / atomic operation / marker at a
time under a schedule.  Schedules: targeted preemption between the read-unlock and the write-lock of racing first requests,
uniform / bursty / PCT-like random schedules, and (thorough tier) every interleaving of two single-call threads plus every
schedule with at most three preemptions of two threads with two calls each.
chk  = the trace is accepted event by event by the executable model VecConc.vexec and ends with every thread idle, lock free;
spec = SpecC10.spec_c10_strict (the property text read literally: ONE linearisation of all calls, collect as one atomic action with
keys and values) on the call / return markers of the same trace.  A strict failure is a failing input unless the case is in the class
`known_c10` of the known finding C10-collect-values-not-snapshot (strict fails, the relaxed spec - atomic key set + one linearised read
per child - holds, a collection overlaps updates to two different tuples) AND known_findings.json lists that finding with status
known; then `KNOWN-FINDING: property=C10 C10-collect-values-not-snapshot: ...` is printed.  An exhausted search budget counts as pass
and is reported in the evidence (strict_budget_exhausted)."""
import itertools
from concprop import *

LETTERS = ["a", "b", "c"]


def wkey(k):
    return "%d %s" % (len(k), " ".join(hexs(x) for x in k))


def op_wire(op):
    if op[0] == "withinc": return "withinc %s %d" % (wkey(op[1]), op[2])
    if op[0] == "remove": return "remove %s" % wkey(op[1])
    return op[0]


def op_steps(op):
    """upper bound on the number of scheduled steps of a call that is never blocked"""
    if op[0] == "withinc": return 7
    if op[0] == "vcollect": return 4 + 3
    return 4


def mk(nl, progs, sched, kind):
    line = "C vec %d | %s | S %s" % (nl, " | ".join(", ".join(op_wire(o) for o in p) for p in progs), sched)
    return dict(line=line, nl=nl, nth=len(progs), kind=kind, ncalls=sum(len(p) for p in progs))


def key_pool(r, nl, n):
    """n distinct tuples of nl values that overlap in their components"""
    if nl == 1:
        vals = [[x] for x in LETTERS]
    else:
        vals = [[x, y] for x in LETTERS[:2] for y in LETTERS[:2]]
    r.shuffle(vals)
    return vals[:n]


class Dist:
    """hands out distinct powers of two"""
    def __init__(self): self.i = 0
    def next(self):
        d = 1 << self.i; self.i += 1; return d


def rand_prog(r, keys, nl, dist, n, mix):
    p = []
    for _ in range(n):
        x = r.random()
        k = r.choice(keys)
        if x < mix[0]: p.append(("withinc", k, dist.next()))
        elif x < mix[1]: p.append(("remove", k))
        elif x < mix[2]: p.append(("vreset",))
        elif x < mix[3]: p.append(("vcollect",))
        else:
            bad = k + ["z"] if r.random() < 0.5 else k[:-1]
            p.append(("withinc", bad, dist.next()) if r.random() < 0.5 else ("remove", bad))
    return p


def race_schedule(r, nth, rounds=1):
    """every thread runs call marker, read-lock, read-unlock and is then preempted: all racing creators have missed
    before the first of them takes the write lock"""
    order = list(range(nth)); r.shuffle(order)
    s = []
    for t in order: s += [t] * 3
    # then let them go one after the other, or interleaved
    if r.random() < 0.5:
        for t in order: s += [t] * 5
    else:
        s += [r.choice(order) for _ in range(8 * nth)]
    return s


def preemption_schedules(total, maxp, first_threads=(0, 1)):
    """all schedules of two threads with at most maxp switch points inside the first `total` grants"""
    out = []
    for first in first_threads:
        for p in range(maxp + 1):
            for cuts in itertools.combinations(range(1, total), p):
                s = []; cur = first; prev = 0
                for c in list(cuts) + [total]:
                    s += [cur] * (c - prev); prev = c; cur = 1 - cur
                out.append(s)
    return out


class C10(ConcProp):
    pid = "C10"
    imports = "Require Import PV.Model.VecConc PV.Spec.SpecC10 PV.Proofs.VecConcSpec."
    case_type = "nat * nat * list event"
    chk_def = ("Definition chk (c : nat * nat * list event) : bool := "
               "vcheck (fst (fst c)) (snd (fst c)) (snd c) && in_domain (snd (fst c)) (snd c).   (* in_domain: the domain of c10_relaxed_spec_of_validated_partial *)")
    spec_def = "Definition chk_spec (c : nat * nat * list event) : bool := spec_c10_strict (fst (fst c)) (snd c)."
    known_id = "C10-collect-values-not-snapshot"
    rule = ("one IntCounterVec (1-2 labels), 2-3 threads, 1-4 calls each over 2-3 overlapping label-value tuples, distinct power-of-two "
            "increments; schedules: targeted preemption between read-unlock and write-lock of racing first requests, uniform / bursty / "
            "PCT-like random, thorough: all interleavings of 2 threads x 1 call and all schedules with <= 3 preemptions of 2 threads x 2 calls; "
            "a scenario is non-trivial when its trace contains a blocked lock attempt, or two threads' calls overlap in time on the vector "
            "(a call marker of one thread between the call and return markers of another); distinct = distinct harness lines")
    assumptions = [
        "hand-written model coq/Model/VecConc.v of src/vec.rs (RwLock word, key->child map touched only by silent steps between lock "
        "acquisition and release, one u64 atomic per child); tied to the code by validating every event of the implementation's traces",
        "keys are the label-value tuples themselves: that the 64-bit FNV key identifies tuples is C05 (hash collisions are its known finding)",
        "the shim's try_read / try_write report Blocked exactly when parking_lot's word has a writer / has a writer or readers; "
        "no thread parks inside parking_lot under the scheduler",
        "the HashMap operations between lock acquisition and release perform no shim event; data races inside HashMap are excluded by "
        "Rust's type system (the guard types), not by the model",
        "one global sequentially consistent memory for the lock word and the child cells (the child update is a Relaxed fetch_add on a "
        "single cell; cross-cell staleness of Relaxed loads in collect is not exhibited)",
        "the values of one collection are read child by child: what is proved is an atomic key set plus one linearised read per child; "
        "the literal statement (collect as one atomic action with values) is refuted (c10_strict_refuted) and recorded as known finding "
        "C10-collect-values-not-snapshot; cases in its class (known_c10) are excluded from violations",
        "the linearisation searches are budgeted (30000 nodes per trace): an exhausted budget counts as pass (strict_budget_exhausted in the evidence)",
    ]

    # fixed scenarios that always run first: the two-creator race, three creators, a handle used after removal, recreate after
    # removal between two collections, remove racing with a creator
    corpus = [
        # witness of the known finding C10-collect-values-not-snapshot (Props/C10.v c10_strict_refuted)
        mk(1, [[("withinc", ["a"], 4), ("withinc", ["b"], 8), ("withinc", ["a"], 1), ("withinc", ["b"], 2)], [("vcollect",)]],
           " ".join(["0"] * 14 + ["1"] * 3 + ["0"] * 10 + ["1"] * 10), "known-witness"),
        mk(1, [[("withinc", ["a"], 1), ("vcollect",)], [("withinc", ["a"], 2)]], "0 0 0 1 1 1 1 0 1 1 1 0 0 0 0 0 0 0 0 0", "corpus"),
        mk(1, [[("withinc", ["a"], 1)], [("withinc", ["a"], 2)], [("withinc", ["a"], 4), ("vcollect",)]],
           "0 0 0 1 1 1 2 2 2 2 1 0 2 2 1 0 1 0 1 0 2 2 2 2 2 2 2", "corpus"),
        mk(1, [[("withinc", ["a"], 1), ("vcollect",)], [("remove", ["a"]), ("vcollect",)]], "0 0 0 0 0 1 1 1 1 0 0 0 0 0 0 0 1 1 1 1", "corpus"),
        mk(1, [[("withinc", ["a"], 1), ("remove", ["a"]), ("withinc", ["a"], 2), ("vcollect",)], [("vcollect",), ("vcollect",)]],
           "0 0 0 0 0 0 0 1 1 1 1 1 0 0 0 0 0 0 0 0 0 0 0 1 1 1 1 1 0 0 0 0 0", "corpus"),
        mk(2, [[("withinc", ["a", "b"], 1), ("vreset",)], [("withinc", ["a", "b"], 2), ("vcollect",)], [("remove", ["a", "b"]), ("withinc", ["a", "b"], 4)]],
           "0 1 2 0 1 2 0 1 2 0 1 2 0 1 2 0 1 2 0 1 2 0 1 2 0 1 2 0 1 2", "corpus"),
    ]

    # ---------------------------------------------------------------- generation
    def gen(self, r, tier):
        scs = []
        quick = tier != "thorough"
        # 1. targeted: racing first requests of one key (the window the second lookup exists for)
        for i in range(150 if quick else 300):
            nl = r.choice([1, 2]); nth = r.choice([2, 2, 3])
            keys = key_pool(r, nl, r.choice([2, 3])); dist = Dist()
            k0 = keys[0]
            progs = []
            for t in range(nth):
                p = [("withinc", k0, dist.next())]
                p += rand_prog(r, keys, nl, dist, r.randint(0, 2), (0.45, 0.6, 0.7, 0.97))
                if r.random() < 0.7: p.append(("vcollect",))
                progs.append(p[:4])
            sched = race_schedule(r, nth) + [r.randrange(nth) for _ in range(30)]
            scs.append(mk(nl, progs, " ".join(map(str, sched)), "race"))
        # 2. random programs and schedules
        for i in range(1400 if quick else 6000):
            nl = r.choice([1, 1, 2]); nth = r.choice([2, 2, 3])
            keys = key_pool(r, nl, r.choice([2, 3])); dist = Dist()
            mix = r.choice([(0.5, 0.7, 0.78, 0.97), (0.4, 0.65, 0.8, 0.98), (0.6, 0.75, 0.8, 0.99), (0.35, 0.5, 0.6, 0.95)])
            progs = [rand_prog(r, keys, nl, dist, r.randint(1, 4), mix) for _ in range(nth)]
            n = sum(op_steps(o) for p in progs for o in p) + 6
            style = r.choice(["uniform", "bursty", "pct", "race"])
            if style == "race":
                sched = " ".join(map(str, race_schedule(r, nth) + [r.randrange(nth) for _ in range(n)]))
            else:
                sched = gen_schedule(r, nth, n, style).replace("s", "")
            scs.append(mk(nl, progs, sched, style))
        # 3. remove / recreate / collect ping-pong on one key (removed-not-collected, recreated-is-fresh, handle survives removal)
        for i in range(250 if quick else 800):
            nl = 1; keys = key_pool(r, 1, 2); dist = Dist(); k0 = keys[0]
            a = [("withinc", k0, dist.next()), r.choice([("remove", k0), ("vreset",)]), ("withinc", k0, dist.next()), ("vcollect",)]
            b = [("withinc", k0, dist.next()), ("vcollect",), r.choice([("remove", k0), ("withinc", keys[1], dist.next())]), ("vcollect",)]
            progs = [a[:r.randint(2, 4)], b[:r.randint(2, 4)]]
            if r.random() < 0.3: progs.append([("vcollect",), ("vcollect",)])
            r.shuffle(progs)
            n = sum(op_steps(o) for p in progs for o in p) + 6
            scs.append(mk(nl, progs, gen_schedule(r, len(progs), n).replace("s", ""), "pingpong"))
        # 3b. a collection preempted between its per-child loads while another thread updates two children in turn
        #     (the shape of the known finding C10-collect-values-not-snapshot; whether it is hit depends on HashMap iteration order)
        for i in range(40 if quick else 300):
            keys = key_pool(r, 1, 3); dist = Dist(); ka, kb = keys[0], keys[1]
            if r.random() < 0.5: ka, kb = kb, ka
            a = [("withinc", ka, dist.next()), ("withinc", kb, dist.next()), ("withinc", ka, dist.next()), ("withinc", kb, dist.next())]
            b = [("vcollect",)] + ([("vcollect",)] if r.random() < 0.3 else [])
            sched = [0] * 14 + [1] * r.choice([3, 3, 4]) + [0] * r.choice([5, 10, 10]) + [r.randrange(2) for _ in range(20)]
            scs.append(mk(1, [a, b], " ".join(map(str, sched)), "snapshot"))
        # 4. sequential histories: one thread
        for i in range(100 if quick else 400):
            nl = r.choice([1, 2]); keys = key_pool(r, nl, 3); dist = Dist()
            scs.append(mk(nl, [rand_prog(r, keys, nl, dist, r.randint(2, 8), (0.45, 0.65, 0.72, 0.95))], "", "sequential"))
        if not quick:
            scs += self.exhaustive(r)
        return scs

    def exhaustive(self, r):
        scs = []
        ka, kb = ["a"], ["b"]
        # all interleavings of two threads with one call each (7 + 7 grants cover the longest pair)
        singles = [("withinc", ka, 1), ("remove", ka), ("vreset",), ("vcollect",)]
        for x in singles:
            for y in [("withinc", ka, 2), ("withinc", kb, 2), ("remove", ka), ("vreset",), ("vcollect",)]:
                a, b = op_steps(x), op_steps(y)
                for zeros in itertools.combinations(range(a + b), a):
                    zs = set(zeros)
                    s = [0 if i in zs else 1 for i in range(a + b)]
                    scs.append(mk(1, [[x], [y]], " ".join(map(str, s)), "all-interleavings"))
        # two calls each, at most three preemptions
        pairs = [
            ([("withinc", ka, 1), ("vcollect",)], [("withinc", ka, 2), ("vcollect",)]),
            ([("withinc", ka, 1), ("remove", ka)], [("withinc", ka, 2), ("vcollect",)]),
            ([("withinc", ka, 1), ("withinc", ka, 4)], [("remove", ka), ("vcollect",)]),
            ([("withinc", ka, 1), ("vcollect",)], [("vreset",), ("withinc", ka, 2)]),
            ([("withinc", ka, 1), ("withinc", kb, 2)], [("withinc", kb, 4), ("withinc", ka, 8)]),
        ]
        for pa, pb in pairs:
            total = sum(op_steps(o) for o in pa) + sum(op_steps(o) for o in pb)
            for s in preemption_schedules(total, 3):
                scs.append(mk(1, [pa, pb], " ".join(map(str, s)), "preemption-bounded"))
        return scs

    # ---------------------------------------------------------------- comparison with the known-finding class
    def known_entry(self):
        return [k for k in load_known() if k.get("property") == self.pid and k.get("id") == self.known_id and k.get("status") == "known"]

    def compare(self, cases, tag="cases"):
        """as ConcProp.compare, but the spec side is one pass of SpecC10.classify per case (proved equal to spec_c10_strict / known_c10 /
        strict_unknown: Props/C10.v c10_classifier_is_spec); cases of the known class are not spec failures while the finding is listed"""
        d = os.path.join(BUILD, "cases", self.pid if tag == "cases" else self.pid + "_" + tag)
        shutil.rmtree(d, ignore_errors=True); os.makedirs(d)
        n = len(cases)
        nsh = min(NPROC, max(1, (n + 19) // 20))
        per = (n + nsh - 1) // nsh if n else 1
        files = []
        for k in range(nsh):
            lo, hi = k * per, min(n, (k + 1) * per)
            if lo >= hi: continue
            path = os.path.join(d, "cases_%d.v" % k)
            with open(path, "w") as f:
                f.write(CONC_HDR % self.imports)
                f.write("Definition cases : list (%s) := [\n" % self.case_type)
                f.write(";\n".join(cases[lo:hi]))
                f.write("].\n%s\nEval vm_compute in failing chk %d cases.\n" % (self.chk_def, lo))
                f.write("Definition cls : list N := Eval vm_compute in map (fun c : %s => classify (fst (fst c)) (snd c)) cases.\n" % self.case_type)
                f.write("Eval vm_compute in failing (fun x => negb ((x =? 1) || (x =? 2))) %d cls.\n" % lo)   # strict spec fails
                f.write("Eval vm_compute in failing (fun x => negb (x =? 1)) %d cls.\n" % lo)                  # in the known class
                f.write("Eval vm_compute in failing (fun x => negb (x =? 3)) %d cls.\n" % lo)                  # strict search out of budget
            files.append(path)
        procs = [subprocess.Popen(["timeout", "900", "coqc", "-noglob", "-Q", COQ, "PV", p], stdout=subprocess.PIPE, stderr=subprocess.STDOUT, text=True) for p in files]
        a, b, kn, bu, errors = [], [], [], [], []
        for p, path in zip(procs, files):
            out = p.communicate()[0]
            if p.returncode != 0:
                errors.append((path, out[-3000:])); continue
            ls = parse_nlist(out)
            if len(ls) > 0: a += ls[0]
            if len(ls) > 1: b += ls[1]
            if len(ls) > 2: kn += ls[2]
            if len(ls) > 3: bu += ls[3]
        listed = bool(self.known_entry())
        if tag == "cases":
            self.strict_failures = sorted(b); self.known_cases = sorted(kn); self.budget_cases = sorted(bu); self.known_listed = listed
        if listed:
            b = [i for i in b if i not in set(kn)]
        return sorted(a), sorted(b), errors

    def run(self, tier, seed, replay=None):
        self.strict_failures, self.known_cases, self.budget_cases, self.known_listed = [], [], [], False
        rc = ConcProp.run(self, tier, seed, replay)
        if self.known_listed and self.known_cases:
            for k in self.known_entry():
                print("KNOWN-FINDING: property=%s %s: %s" % (self.pid, k["id"], k["what"]))
        # extra evidence keys
        ep = os.path.join(EVID, "%s.json" % self.pid)
        try:
            ev = json.load(open(ep))
            ev["coverage"]["strict_spec_failures"] = len(self.strict_failures)
            ev["coverage"]["known_finding_cases"] = len(self.known_cases)
            ev["coverage"]["known_finding_listed"] = self.known_listed
            ev["coverage"]["strict_budget_exhausted"] = len(self.budget_cases)
            with open(ep, "w") as f:
                json.dump(ev, f, indent=1, sort_keys=True, default=str)
        except Exception as e:
            print("[%s] could not extend the evidence file: %s" % (self.pid, e))
        print("[%s] strict_failures=%d known_class=%d (listed=%s) strict_budget_exhausted=%d" % (
            self.pid, len(self.strict_failures), len(self.known_cases), self.known_listed, len(self.budget_cases)))
        return rc

    # ---------------------------------------------------------------- terms / bookkeeping
    def case_term(self, sc, out):
        return "(%d%%nat, %d%%nat, %s)" % (sc["nl"], sc["nth"], out)

    def nontrivial(self, sc, out):
        if "LRead false" in out or "LWrite false" in out: return True
        # overlapping calls of different threads
        open_ = set()
        for m in re.finditer(r"E(Call|Ret) (\d+)", out):
            t = int(m.group(2))
            if m.group(1) == "Call":
                if open_ - {t}: return True
                open_.add(t)
            else:
                open_.discard(t)
        return False

    def explain(self, case):
        d = os.path.join(BUILD, "cases", self.pid); os.makedirs(d, exist_ok=True)
        path = os.path.join(d, "explain.v")
        with open(path, "w") as f:
            f.write(CONC_HDR % self.imports)
            f.write("Definition c : %s := %s.\n" % (self.case_type, case))
            f.write("Eval vm_compute in (fst (validate vexec (vinit (fst (fst c))) 0 (snd c)), "
                    "match fst (validate vexec (vinit (fst (fst c))) 0 (snd c)) with Some i => nth_error (snd c) (N.to_nat i) | None => None end, "
                    "(classify (fst (fst c)) (snd c), spec_c10_strict (fst (fst c)) (snd c), spec_c10_relaxed (fst (fst c)) (snd c), known_c10 (fst (fst c)) (snd c))).\n")
        rc, out = coqc_file(path)
        return out[-1500:]
