#!/usr/bin/env python3
"""Confirms a seeded property-breaking change and runs checks against it.

  tools/seedtest.py <patch.diff> <demo.rs> <out-dir> Cxx [Cyy ...]

1. makes a scratch worktree of /repo's HEAD under /tmp/pvscratch/<name>;
2. confirms: the demo test passes on the unchanged tree, the patch applies and compiles, the whole
   existing test suite passes with it, the demo fails with it;
3. runs `tools/check.py Cxx` (quick) for the listed properties with PV_REPO=<scratch> and records exit
   code + VIOLATION line for each;
4. writes <out-dir>/meta.json (+ copies patch.diff and the demo there) and removes the scratch worktree
   and the harness build directories made for it.
Nothing is ever applied to /repo itself."""
import hashlib, json, os, re, shutil, subprocess, sys, time

VERIF = os.path.dirname(os.path.dirname(os.path.abspath(__file__)))


def sh(cmd, cwd=None, env=None, timeout=3600):
    e = dict(os.environ); e["CARGO_NET_OFFLINE"] = "true"
    if env: e.update(env)
    p = subprocess.run(cmd, cwd=cwd, shell=True, stdout=subprocess.PIPE, stderr=subprocess.STDOUT, text=True, env=e, timeout=timeout)
    return p.returncode, p.stdout


def test_summary(out):
    ok = sum(int(m.group(1)) for m in re.finditer(r"test result: \w+\. (\d+) passed", out))
    failed = sum(int(m.group(1)) for m in re.finditer(r"test result: \w+\. \d+ passed; (\d+) failed", out))
    return ok, failed


def main():
    patch, demo, outdir = [os.path.abspath(x) for x in sys.argv[1:4]]
    props = sys.argv[4:]
    name = hashlib.sha1((patch + str(time.time())).encode()).hexdigest()[:8]
    scratch = "/tmp/pvscratch/" + name
    os.makedirs("/tmp/pvscratch", exist_ok=True)
    meta = dict(patch=os.path.basename(patch), demo=os.path.basename(demo), base_commit=sh("git -C /repo rev-parse --short HEAD")[1].strip(), ran=[])
    rc, out = sh("git -C /repo worktree add --detach %s HEAD" % scratch)
    assert rc == 0, out
    try:
        dname = "seed_demo_" + name
        # SEED_DEMO_DIR / SEED_PKG: demos for the static-metric crate live in static-metric/tests and run with -p
        ddir = os.path.join(scratch, os.environ.get("SEED_DEMO_DIR", "tests"))
        os.makedirs(ddir, exist_ok=True)
        shutil.copy(demo, os.path.join(ddir, dname + ".rs"))
        pkg = os.environ.get("SEED_PKG")
        cmd_demo = "cargo test --offline %s--test %s 2>&1 | tail -25" % (("-p %s " % pkg) if pkg else "", dname)
        rc, out = sh(cmd_demo, cwd=scratch)
        ok, failed = test_summary(out)
        meta["demo_without_change"] = dict(passed=ok, failed=failed, ok=(ok > 0 and failed == 0))
        meta["ran"].append("unchanged tree: " + cmd_demo + " -> %d passed, %d failed" % (ok, failed))
        rc, out = sh("git apply %s" % patch, cwd=scratch)
        if rc != 0:
            # the patch was made against an earlier HEAD of /repo (later fix: / hook commits touched the same file):
            # three-way merge using the blob ids recorded in the patch
            rc, out = sh("git apply --3way %s" % patch, cwd=scratch)
            meta["applied_with_3way"] = (rc == 0)
            if rc != 0:
                raise SystemExit("patch does not apply, even with --3way:\n" + out[-800:])
        meta["patch_applies"] = rc == 0
        if rc != 0: meta["apply_error"] = out[-500:]
        rc, out = sh(cmd_demo, cwd=scratch)
        ok, failed = test_summary(out)
        meta["demo_with_change"] = dict(passed=ok, failed=failed, fails=(failed > 0 or "panicked" in out or "error[" in out), tail=out[-600:])
        meta["ran"].append("with the change: " + cmd_demo + " -> %d passed, %d failed" % (ok, failed))
        os.remove(os.path.join(ddir, dname + ".rs"))
        # the repository's baseline command (BASELINE.json): nextest, one process per test
        cmd_suite = "cargo nextest run --workspace --no-fail-fast --offline --test-threads 8 2>&1 | tail -15"
        rc, out = sh(cmd_suite, cwd=scratch)
        m = re.search(r"(\d+) tests? run: (\d+) passed(?:[^\n]*?(\d+) failed)?", out)
        ok, failed = (int(m.group(2)), int(m.group(3) or 0)) if m else (0, -1)
        meta["suite_with_change"] = dict(passed=ok, failed=failed, ok=(failed == 0 and ok >= 96))
        meta["ran"].append("with the change: cargo nextest run --workspace --no-fail-fast --offline --test-threads 8 -> %d passed, %d failed" % (ok, failed))
        shutil.rmtree(os.path.join(scratch, "target"), ignore_errors=True)
        meta["checks"] = {}
        for p in props:
            t0 = time.time()
            rc, out = sh("python3 tools/check.py %s --tier quick" % p, cwd=VERIF, env={"PV_REPO": scratch}, timeout=3000)
            viol = [l for l in out.split("\n") if l.startswith("VIOLATION")]
            meta["checks"][p] = dict(exit=rc, violation=viol[:2], caught=(rc == 1 and bool(viol)), wall_s=round(time.time() - t0, 1), tail=out[-400:])
            meta["ran"].append("PV_REPO=<scratch with the change> python3 tools/check.py %s --tier quick -> exit %d %s" % (p, rc, viol[:1]))
    finally:
        sh("git -C /repo worktree remove --force %s" % scratch)
        shutil.rmtree(scratch, ignore_errors=True)
        tag = hashlib.sha1(scratch.encode()).hexdigest()[:10]
        sb = os.path.join(VERIF, "build", "scratch-" + tag)
        # keep the replay files of this run next to the result, drop the rest (cargo target directories, case files)
        rep = os.path.join(sb, "replays")
        if os.path.isdir(rep):
            os.makedirs(os.path.join(outdir, "replays"), exist_ok=True)
            for f in sorted(os.listdir(rep))[:6]: shutil.copy(os.path.join(rep, f), os.path.join(outdir, "replays", f))
        shutil.rmtree(sb, ignore_errors=True)
    os.makedirs(outdir, exist_ok=True)
    for src, dst in ((patch, os.path.join(outdir, "patch.diff")), (demo, os.path.join(outdir, "demo.rs"))):
        if os.path.abspath(src) != os.path.abspath(dst): shutil.copy(src, dst)
    json.dump(meta, open(os.path.join(outdir, "result.json"), "w"), indent=1)
    print(json.dumps({k: meta[k] for k in meta if k != "ran"}, indent=1)[:3000])


if __name__ == "__main__":
    main()
