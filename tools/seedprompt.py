#!/usr/bin/env python3
"""prints the prompt given to an independent sub-agent that seeds a property-breaking change (nothing from /verif but the property text)"""
import json, sys
pid = sys.argv[1]
# round 2: `seedprompt.py Cxx avoid` appends the ideas earlier (independent) agents already produced, so that new ones differ
avoid = ""
if len(sys.argv) > 2:
    import glob, os
    ideas = []
    for m in sorted(glob.glob('/verif/seeded/*/meta.json')):
        d = json.load(open(m))
        if d.get("breaks_property") == pid: ideas.append("  - " + d["change"])
    if ideas:
        if sys.argv[2] == "avoid3":
            avoid += ("\nThis time prefer a change in code the property depends on INDIRECTLY rather than in the function everyone looks at first: helper functions, " +
                      "Clone / Drop / Default / From impls, builder methods (Opts / HistogramOpts: namespace, subsystem, const_label(s), variable_label(s), buckets, From<Opts>), " +
                      "the accessor layer of the data model (src/plain_model.rs and src/proto_ext.rs must stay in step), value.rs / metrics.rs / desc.rs helpers, " +
                      "label-pair construction and sorting, the local (unsync) variants, vector `remove` / `reset` paths, or the order of two steps that only matters in a longer history.\n")
        if sys.argv[2] == "avoid4":
            avoid += ("\nThis time look for changes whose effect depends on HOW a value travels across API boundaries: conversions (From / Into / Deref / AsRef), " +
                      "default values and empty collections (0 labels, 0 buckets, 0 children, empty strings), boundary sizes (exactly one element, the last element, " +
                      "the first call after construction), error paths that return early after a partial update, operations repeated twice (idempotence), the interplay of " +
                      "two public types that share a helper (Counter/Gauge over Value, Histogram/LocalHistogram over the same core, vectors over MetricVecCore, the two " +
                      "encoders over check_metric_family, plain_model vs proto_ext), and re-use of an object after an operation that should have reset it.\n")
        if sys.argv[2] == "avoid5":
            avoid += ("\nThis time act as a developer making a PERFORMANCE OPTIMISATION or a CLEAN-UP that is subtly wrong: caching a computed value (label pairs, a hash, a " +
                      "descriptor, a formatted string) that can go stale, a fast path / early exit for the 'common case' or for 'nothing changed', avoiding a clone or an " +
                      "allocation by sharing or re-using a buffer, shrinking the scope of a lock or splitting one critical section in two, replacing a stable sort by an " +
                      "unstable one or a full comparison by a cheaper key, replacing a collection type (HashMap / BTreeMap / Vec / HashSet, dedup), weakening an atomic " +
                      "ordering or replacing a read-modify-write by load + store, merging two loops or two passes into one, hoisting a check out of a loop, or replacing " +
                      "hand-written code by a derive / a std helper with slightly different semantics.\n")
        avoid += "\nOther developers already tried the following ideas; yours must be DIFFERENT in kind (another code site or another mechanism), and at least one of your two changes should involve " + \
                "either two cooperating sites that each look fine alone or a multi-step history / particular interleaving:\n" + "\n".join(ideas) + "\n"
for l in open('/verif/properties.jsonl'):
    p = json.loads(l)
    if p['id'] == pid: break
print(f"""You are given a git worktree of the Rust crate tikv/rust-prometheus (a Prometheus client library) at /tmp/seed/{pid}. Do ALL your work inside /tmp/seed/{pid} and write your results to /tmp/seed/{pid}.out/ ; do not read or touch /repo, /verif or any other directory outside those two (apart from the cargo registry, read-only). The sandbox is offline: always run cargo with `CARGO_NET_OFFLINE=true cargo ... --offline`. Ignore (do not modify) src/verif_sync.rs and anything under `cfg(prometheus_verif)`: that is test instrumentation.

A semantic property of this library that should always hold:

  {p['id']}: {p['title']}
  Statement: {p['statement']}
  Quantified over: {p['quantifier']['text']}
  Why the existing tests cannot settle it: {p['why_tests_cant']}

{avoid}
Your task: act as a developer who introduces a REALISTIC bug. Produce TWO different, independent source changes (to the library sources under src/ or static-metric/src/, not to tests), each of which
  (1) still compiles, and the ENTIRE existing test suite still passes with it: `CARGO_NET_OFFLINE=true cargo test --workspace --offline` (run it; all tests must pass), and
  (2) BREAKS the property above, and
  (3) needs something specific to manifest - a particular interleaving of threads, a multi-step sequence of operations, an unusual input (special characters, special float values, boundary sizes), or two cooperating code sites that each look fine alone - rather than something ordinary use would expose at once. Plausible-looking refactorings, "optimisations", off-by-one errors, wrong comparison operators, weakened conditions, wrongly ordered steps are the kind of change wanted. Do not add dead code, environment checks, magic constants or anything a reviewer would find contrived.
For each change also write a demonstration: a Rust integration test file (e.g. tests/seed_demo1.rs using only the crate's public API; for thread interleavings you may use barriers/loops that make the failure very likely, or argue deterministically) that FAILS with the change applied and PASSES on the unchanged worktree. Verify both facts yourself by running it both ways (`cargo test --offline --test seed_demo1`).

Deliver in /tmp/seed/{pid}.out/ :
  patch1.diff, patch2.diff   - `git diff` of the library source change ONLY (no demo files), applicable with `git apply` on the unchanged worktree
  demo1.rs, demo2.rs         - the demonstration test files (to be copied into tests/)
  notes.md                   - per change: what it is, why it breaks the property, what it needs in order to manifest, the exact commands you ran and their outcome (test suite pass count with the change; demo fails with / passes without).
Leave the worktree itself with NO source changes at the end (git checkout -- . ; remove your demo files from tests/), and remove the `target` directory of the worktree when you are done (rm -rf /tmp/seed/{pid}/target). Do not commit anything. Work autonomously; do not ask questions. Your final message: a 10-line summary of the two changes.""")
