#!/bin/bash
# runs every claimed check (quick tier by default) on /repo and prints one line per check; validates the evidence files
cd "$(dirname "$0")/.."
TIER="${1:-quick}"
rc_all=0
for p in $(python3 -c "import json; print(' '.join(c['property_id'] for c in json.load(open('MANIFEST.json'))['checks']))"); do
  s=$(date +%s)
  out=$(python3 tools/check.py $p --tier $TIER 2>&1); rc=$?
  e=$(( $(date +%s) - s ))
  echo "$p rc=$rc ${e}s $(echo "$out" | grep -c '^VIOLATION') violation-lines $(echo "$out" | grep -c '^KNOWN-FINDING') known-finding-lines"
  [ $rc -ne 0 ] && { rc_all=1; echo "$out" | tail -5; }
done
python3-vt - <<'PY'
import json, jsonschema, glob
sch = json.load(open('/root/.vp/EVIDENCE.schema.json'))
bad = 0
for c in json.load(open('MANIFEST.json'))['checks']:
    try:
        ev = json.load(open(c['evidence_file'])); jsonschema.validate(ev, sch)
        cov = ev['coverage']
        assert ev['level'] == 'proof' and cov.get('obligations', 0) >= 1 and cov.get('discharged') == cov.get('obligations'), (cov.get('obligations'), cov.get('discharged'))
        assert ev.get('violations', 0) == 0
    except Exception as e:
        bad += 1; print("EVIDENCE PROBLEM", c['property_id'], repr(e)[:200])
print("evidence files valid" if not bad else "%d evidence problems" % bad)
PY
exit $rc_all
