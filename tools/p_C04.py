"""C04  Text exposition is a faithful, parseable rendering of the gathered state.

Flow of one run (same verdict / evidence conventions as props.SeqProp.run):
 1. proofs: make Props/C04.vo + Spec/SpecC04.vo, Print Assumptions allowlist, forbidden-word scan;
 2. harness against the repository's working tree;
 3. generated lists of families -> five `E` lines each (encode / encode_utf8 with an empty and a pre-filled
    buffer, encode_to_string) + one `F` and one `I` line (Rust's to_string of every number involved);
 4. case files under build/cases/C04/ (<= 16 coqc processes).  Inside Coq, per scenario:
      contract_ok   every number token reads back bit-exactly (exact decimal -> binary64 parser) and is one token
      model_agrees  Model/Text.v produces the implementation's bytes on all five runs
      spec_c04      the independent parser reads the IMPLEMENTATION's bytes back as `view fams`, line count by
                    shape, append-only, three entry points equal, Err iff
 5. verdict."""
from props import *
import collections, shutil, subprocess

COQ_HDR_C04 = """Require Import PV.Base.Prelude PV.Base.F64 PV.Base.Utf8 PV.Model.Proto PV.Model.Desc PV.Model.Value PV.Model.Text PV.Model.TextParse PV.Spec.SpecC04.
Open Scope N_scope.
Set Printing Width 1000000.
Set Printing Depth 1000000.
"""

# ------------------------------------------------------------------------------------ pools
LABEL_VALUES = ["", "a", "ab", "x y", "\\", "\"", "\n", "\r", "\t", "\r\n", "é", "ÿ", "😀", "日本", "\\n", "\\\\n", "a\\", "\\\"", "\"\n\\",
                "a\nb", "q\"q", "\\nx", "x\\", "\u0085", " ", "\u000b", "\u0000", "\u007f", "{}", "a=\"b\",c", "} 1 2", " ", "  lead", "# HELP x y",
                "a\n# TYPE a counter\na 1", "퟿", "\U0010ffff", "+Inf", "NaN", "n", "\\x", "tail\\n"]
HELPS = ["h", "help", "help text", "h\\n", "multi\nline", "ünï", "\"q\"", " lead", "trail ", "\\", "h\\", "\\n", "a\\\\nb", "\n", "\r\n", "x\ty",
         "😀 é", "# TYPE x counter", "a\nx 1\n", "\\\"", "back\\slash", "  two", "\u0085 ", "tab\t", "n", "\\x41"]
GOOD_FIRST = "abcxyzABZ_"
GOOD_REST = "abcxyz_019AZ"


def bits_of(x):
    return f64(x)


FLOATS_COMMON = [f64(0.0), NZERO, f64(1.0), f64(-1.0), f64(0.5), f64(0.1), f64(0.2), f64(0.3), f64(2.5), f64(0.005), f64(0.01), f64(10.0),
                 f64(100.0), f64(3.0), f64(1e16), f64(1.0000000000000002), F(0x3fefffffffffffff), f64(123456.789), f64(-0.1), PINF, NINF, NAN,
                 f64(0.30000000000000004), f64(1e15), f64(1e17), f64(123456789.125), f64(4.35), f64(1e-7), f64(9007199254740992.0), f64(42.0),
                 f64(0.25), f64(0.75), f64(0.99), f64(0.999), f64(1e21), f64(1e22), f64(1e23), f64(-1e21), f64(1.5e-5)]
FLOATS_LONG = [f64(1e300), f64(-1e300), f64(5e-324), F(0x000fffffffffffff), f64(1e-310), f64(1e308), f64(1.7976931348623157e308),
               f64(2.2250738585072014e-308), F(0x8000000000000001), f64(-1.7976931348623157e308), f64(1e-300)]
COUNTS = [0, 1, 2, 3, 5, 10, 100, 12345, 2 ** 32, 2 ** 53, 2 ** 53 + 1, 2 ** 53 + 3, 2 ** 63, 2 ** 64 - 1, 2 ** 64 - 1025, 999999999999]
TIMESTAMPS = [None, None, None, 0, 0, 1, 5, -1, -5, 1700000000000, -1700000000000, 2 ** 63 - 1, -2 ** 63, 10, 100]
PREFILLS_U = ["", "x", "abc\n", "é😀", "# HELP", "a 1\n", "\n", "partial line", "\\", "\""]
PREFILLS_T = [b"\xff\xfe", b"\x80", b"\x00\x01", b"\xc3"]


def some_float(r, long_p=0.04):
    k = r.random()
    if k < long_p: return r.choice(FLOATS_LONG)
    if k < 0.8: return r.choice(FLOATS_COMMON)
    if k < 0.9: return gens.nextafter_bits(r.choice(FLOATS_COMMON), r.random() < 0.5)
    return f64(r.choice([1, -1]) * r.random() * 10 ** r.randint(-5, 5))


def long_text(r):
    """>= 1 KiB after escaping: longer than any buffer an encoder is likely to use for one token"""
    unit = r.choice(["a", "ab", "x\\", "é", "q\"", "line\n", "0123456789"])
    return (unit * (r.randint(1024, 1400) // len(unit) + 1)) + r.choice(["", "z", "\n"])


def label_value(r):
    k = r.random()
    if k < 0.015: return long_text(r)
    if k < 0.75: return r.choice(LABEL_VALUES)
    return "".join(r.choice(["a", "b", "é", "😀", "", "1", "\\", "\"", "\n", "n", "\r", " ", "\t"]) for _ in range(r.randint(0, 5)))


def help_text(r):
    k = r.random()
    if k < 0.02: return long_text(r)
    if k < 0.12: return ""
    if k < 0.8: return r.choice(HELPS)
    return "".join(r.choice(["a", " ", "é", "\\", "\"", "\n", "n", "\t", "#"]) for _ in range(r.randint(1, 6)))


def good_label_name(r):
    k = r.random()
    if k < 0.05: return "le"
    if k < 0.1: return "quantile"
    return r.choice(GOOD_FIRST) + "".join(r.choice(GOOD_REST) for _ in range(r.randint(0, 3)))


def good_metric_name(r, taken):
    k = r.random()
    if taken and k < 0.12: return r.choice(taken)                                     # duplicate family name
    if taken and k < 0.3: return r.choice(taken) + r.choice(["_bucket", "_sum", "_count", "_total", ":x", "_"])
    return r.choice(GOOD_FIRST + ":") + "".join(r.choice(GOOD_REST + ":") for _ in range(r.randint(0, 4)))


BAD_NAMES = ["", "9x", "a b", "é", "a\nb", "a{b", "a-b", "a\"", " a", "a ", "a=b", "a,b", "a}", "#a", "a\\"]


def gen_labels(r, typ, strict):
    n = r.choice([0, 0, 1, 1, 2, 2, 3, 4])
    out = []
    for _ in range(n):
        nm = good_label_name(r)
        if strict and ((typ == "HISTOGRAM" and nm == "le") or (typ == "SUMMARY" and nm == "quantile")):
            nm = nm + "_"
        out.append((nm, label_value(r)))
    if out and r.random() < 0.04:
        out.append((out[0][0], label_value(r)))                                       # a repeated label name
    return out


def gen_hist(r):
    nb = r.choice([0, 1, 1, 2, 3, 4])
    k = r.random()
    if k < 0.6:
        bounds = sorted((some_float(r, 0.02) for _ in range(nb)), key=lambda b: (struct_val(b)))
    else:
        bounds = [some_float(r, 0.02) for _ in range(nb)]
    if r.random() < 0.3:
        bounds.insert(r.choice([len(bounds), len(bounds), r.randint(0, len(bounds))]), PINF)  # an explicit +inf bucket
    cum = 0
    bs = []
    for b in bounds:
        cum = r.choice(COUNTS) if r.random() < 0.3 else cum + r.randint(0, 5)
        bs.append((min(cum, 2 ** 64 - 1), b))
    count = r.choice(COUNTS) if r.random() < 0.5 else min(cum + r.randint(0, 3), 2 ** 64 - 1)
    return dict(count=count, sum=some_float(r), b=bs)


def struct_val(b):
    import struct
    x = struct.unpack("<d", struct.pack("<Q", b.bits))[0]
    return (x != x, x if x == x else 0.0)


def gen_summary(r):
    nq = r.choice([0, 1, 2, 3])
    return dict(count=r.choice(COUNTS), sum=some_float(r), q=[(some_float(r, 0.02), some_float(r)) for _ in range(nq)])


def gen_metric(r, typ, strict):
    labels = gen_labels(r, typ, strict)
    ts = r.choice(TIMESTAMPS)
    m = dict(labels=labels, gauge=None, counter=None, summary=None, untyped=None, hist=None, ts=ts)
    k = r.random()
    present = k < 0.9            # the payload that matches the family type is present
    if typ == "COUNTER" and present: m["counter"] = some_float(r)
    if typ == "GAUGE" and present: m["gauge"] = some_float(r)
    if typ == "HISTOGRAM" and present: m["hist"] = gen_hist(r)
    if typ == "SUMMARY" and present: m["summary"] = gen_summary(r)
    if typ == "UNTYPED" and present: m["untyped"] = some_float(r)
    if r.random() < 0.08:        # an extra payload of another kind (ignored by the text encoder)
        other = r.choice(["counter", "gauge", "untyped", "hist", "summary"])
        if m[other] is None:
            m[other] = gen_hist(r) if other == "hist" else gen_summary(r) if other == "summary" else some_float(r)
    return m


def gen_family(r, taken, strict, err_p):
    k = r.random()
    typ = r.choice(["COUNTER", "GAUGE", "HISTOGRAM", "SUMMARY"])
    name = good_metric_name(r, taken)
    if not strict and r.random() < 0.5:
        name = r.choice(BAD_NAMES[1:])
    nm = r.choice([1, 1, 1, 2, 2, 3])
    if k < err_p:
        e = r.random()
        if e < 0.4: typ = "UNTYPED"
        elif e < 0.7: nm = 0
        elif e < 0.9: name = ""
        else: nm = 0; name = ""
    metrics = [gen_metric(r, typ, strict) for _ in range(nm)]
    if not strict and metrics and r.random() < 0.5:
        m = r.choice(metrics)
        m["labels"].append((r.choice(BAD_NAMES + ["le", "quantile"]), label_value(r)))
    taken.append(name) if name else None
    return mk_family(name, help_text(r), typ, metrics)


def gen_scenario(r):
    strict = r.random() < 0.93          # inside the theorem's hypotheses (valid names, no own le / quantile label)
    err_p = 0.5 if r.random() < 0.15 else 0.0
    nf = r.choice([0, 1, 1, 1, 2, 2, 3])
    taken = []
    fams = [gen_family(r, taken, strict, err_p) for _ in range(nf)]
    pu = r.choice(PREFILLS_U).encode("utf-8")
    pt = r.choice(PREFILLS_T) if r.random() < 0.3 else r.choice(PREFILLS_U[1:]).encode("utf-8")
    return dict(fams=fams, pt=pt.hex(), pu=pu.hex())


# ------------------------------------------------------------------------------------ numbers of a scenario
def scenario_numbers(sc):
    fl, zs = set(), set()
    for f in sc["fams"]:
        for m in f["metrics"]:
            for k in ("gauge", "counter", "untyped"):
                if m[k] is not None: fl.add(m[k].bits)
            fl.add(0)      # the defaulting getters
            if m["hist"] is not None:
                h = m["hist"]
                fl.add(h["sum"].bits); fl.add(f64(float(h["count"])).bits)
                for c, b in h["b"]:
                    fl.add(b.bits); fl.add(f64(float(c)).bits)
            if m["summary"] is not None:
                s = m["summary"]
                fl.add(s["sum"].bits); fl.add(f64(float(s["count"])).bits)
                for q, v in s["q"]:
                    fl.add(q.bits); fl.add(v.bits)
            if m["ts"] is not None:
                zs.add(m["ts"])
    return fl, zs


def canon(bits):
    # the harness answers with one NaN pattern
    e = (bits >> 52) & 0x7ff
    if e == 0x7ff and (bits & ((1 << 52) - 1)) != 0: return 0x7ff8000000000000
    return bits


def hexarg(h): return h if h else "-"
def c_bytes(h): return "[" + ";".join(str(b) for b in bytes.fromhex(h)) + "]"


def e_lines(sc):
    fams = " ".join(w_list(w_family)(sc["fams"]))
    return ["E text -1 - " + fams, "E text -1 %s %s" % (hexarg(sc["pt"]), fams), "E utf8 -1 - " + fams,
            "E utf8 -1 %s %s" % (hexarg(sc["pu"]), fams), "E string -1 - " + fams]


def parse_table(line):
    """`[(k,[c;c]);(k,[])]` -> list of (key text, list text)"""
    out = []
    for m in re.finditer(r"\((\(-?\d+\)%Z|-?\d+%Z|\d+),(\[[\d;]*\])\)", line or ""):
        out.append((m.group(1), m.group(2)))
    return out


def key_int(k):
    return int(re.sub(r"[()%Z]", "", k))


def decode_eres(o):
    """harness answer -> (kind, bytes) for humans"""
    if not o: return ("missing", b"")
    m = re.match(r"^(EOk|EErr \w+) \[([\d;]*)\]$", o)
    if not m: return (o, b"")
    return (m.group(1), bytes(int(x) for x in m.group(2).split(";") if x))


class C04:
    pid = "C04"
    rule = ("each scenario is a list of 0-3 metric families (all five types, 0-4 labels with values from an adversarial pool: backslash, "
            "quote, LF, CR, TAB, multi-byte, lone backslash before n, empty; every f64 class; counts up to 2^64-1; timestamps absent/0/+/-; "
            "explicit +inf buckets; empty help; 2 % help texts / 1.5 % label values of 1-1.4 KiB; Err paths) encoded through encode / encode_utf8 (empty and pre-filled buffer) and "
            "encode_to_string; non-trivial = at least one sample line was written; distinct = distinct scenario text")
    assumptions = [
        "f64::to_string / i64::to_string (Rust std) are oracles: their contract (token reads back bit-exactly under an exact decimal->binary64 "
        "parser; token consists of [0-9a-zA-Z.+-]) is a hypothesis of the theorems and is checked in Coq on every number of every scenario",
        "reading of format 0.0.4: after `# HELP name` exactly one blank separates the doc string, which is taken verbatim (the Go reference "
        "parser additionally strips leading blanks of the doc string, which no encoder could protect)",
        "the read-back theorem assumes valid metric / label names and that a histogram (summary) metric has no label of its own called le (quantile)",
        "the writer passed to encode never fails (fail_after = -1); failing writers belong to C17",
        "on Err the encoder may already have written the HELP/TYPE header of the failing (UNTYPED) family: the read-back of the families before it "
        "is claimed when that header is readable too (valid name, help made of scalar values)",
        "proved for ALL inputs in Coq (Props/C04.v): c04_roundtrip, c04_line_count, c04_append_only, c04_entry_points, c04_utf8, c04_err_iff and "
        "c04_spec_model (spec_c04 holds of the model's answers for every family list under the oracle contract alone); the per-run part ties the "
        "model to the implementation's bytes and re-checks the oracle contract on every number",
    ]
    quick_n = 600
    thorough_n = 6000

    # -------------------------------------------------------------------------------- generation
    def gen(self, r, tier):
        n = self.quick_n if tier == "quick" else self.thorough_n
        return [gen_scenario(r) for _ in range(n)]

    # -------------------------------------------------------------------------------- one evaluation round
    def evaluate(self, binp, scs, tag="C04"):
        """returns dict(outs, contract, corr, spec, errors, missing)"""
        lines = []
        for sc in scs: lines += e_lines(sc)
        fl, zs = set(), set()
        per = []
        for sc in scs:
            a, b = scenario_numbers(sc)
            per.append((a, b)); fl |= a; zs |= b
        fl = sorted(fl); zs = sorted(zs)
        # number lines are split so that no single line gets huge
        nl = []
        for i in range(0, len(fl), 200):
            ch = fl[i:i + 200]; nl.append("F %d %s" % (len(ch), " ".join("%016x" % b for b in ch)))
        nfl = len(nl)
        for i in range(0, len(zs), 200):
            ch = zs[i:i + 200]; nl.append("I %d %s" % (len(ch), " ".join(str(z) for z in ch)))
        outs = run_harness(binp, lines + nl)
        eo = outs[:len(lines)]
        ftab, ztab = {}, {}
        for o in outs[len(lines):len(lines) + nfl]:
            for k, v in parse_table(o): ftab[int(k)] = v
        for o in outs[len(lines) + nfl:]:
            for k, v in parse_table(o): ztab[key_int(k)] = v
        d = os.path.join(BUILD, "cases", tag)
        shutil.rmtree(d, ignore_errors=True); os.makedirs(d)
        n = len(scs)
        nsh = min(NPROC, max(1, (n + 39) // 40))
        per_sh = (n + nsh - 1) // nsh if n else 1
        files = []
        missing = []
        for k in range(nsh):
            lo, hi = k * per_sh, min(n, (k + 1) * per_sh)
            if lo >= hi: continue
            sf, sz = set(), set()
            for i in range(lo, hi):
                sf |= per[i][0]; sz |= per[i][1]
            path = os.path.join(d, "cases_%d.v" % k)
            with open(path, "w") as f:
                f.write(COQ_HDR_C04)
                f.write("Definition ftab : list (N * str) := [%s].\n" % ";\n".join(
                    "(%d,%s)" % (canon(b), ftab[canon(b)]) for b in sorted(set(canon(x) for x in sf)) if canon(b) in ftab))
                f.write("Definition ztab : list (Z * str) := [%s].\n" % ";\n".join("(%s,%s)" % (c_z(z), ztab[z]) for z in sorted(sz) if z in ztab))
                f.write("Definition show := tab_show ftab.\nDefinition showz := tab_showz ztab.\n")
                f.write("Definition cases : list c04_case := [\n")
                cs = []
                for i in range(lo, hi):
                    rs = []
                    for j in range(5):
                        o = eo[5 * i + j]
                        if o is None or not re.match(r"^(EOk \[[\d;]*\]|EErr \w+ \[[\d;]*\]|EPanic)$", o):
                            missing.append(i); o = "EPanic"
                        rs.append("(%s)" % o)
                    sc = scs[i]
                    cs.append("mkCase %s\n  %s %s\n  %s" % (c_list(c_family)(sc["fams"]), c_bytes(sc["pt"]), c_bytes(sc["pu"]), "\n  ".join(rs)))
                f.write(";\n".join(cs))
                f.write("].\n")
                f.write("Eval vm_compute in failing (contract_ok show showz) %d cases.\n" % lo)
                f.write("Eval vm_compute in failing (model_agrees show showz) %d cases.\n" % lo)
                f.write("Eval vm_compute in failing spec_c04 %d cases.\n" % lo)
            files.append(path)
        procs = [subprocess.Popen(["timeout", "900", "coqc", "-noglob", "-Q", COQ, "PV", p], stdout=subprocess.PIPE, stderr=subprocess.STDOUT, text=True)
                 for p in files]
        a, b, c, errors = [], [], [], []
        for p, path in zip(procs, files):
            out = p.communicate()[0]
            if p.returncode != 0 and not re.search(r"Error", out):
                # killed without a Coq error (memory pressure when many checks share the machine): once more, alone
                p2 = subprocess.run(["timeout", "900", "coqc", "-noglob", "-Q", COQ, "PV", path], stdout=subprocess.PIPE, stderr=subprocess.STDOUT, text=True)
                p, out = p2, p2.stdout
            if p.returncode != 0:
                errors.append((path, out[-3000:])); continue
            ls = parse_nlist(out)
            if len(ls) != 3:
                errors.append((path, "expected three answers\n" + out[-2000:])); continue
            a += ls[0]; b += ls[1]; c += ls[2]
        return dict(outs=eo, contract=sorted(a), corr=sorted(b), spec=sorted(c), errors=errors, missing=sorted(set(missing)),
                    ftab=ftab, ztab=ztab)

    def explain(self, sc, res_outs, ftab, ztab):
        """model output vs implementation output of the first run (empty Vec), as text"""
        d = os.path.join(BUILD, "cases", "C04"); os.makedirs(d, exist_ok=True)
        path = os.path.join(d, "explain.v")
        fl, zs = scenario_numbers(sc)
        with open(path, "w") as f:
            f.write(COQ_HDR_C04)
            f.write("Definition ftab : list (N * str) := [%s].\n" % ";".join("(%d,%s)" % (b, ftab[b]) for b in sorted(set(canon(x) for x in fl)) if b in ftab))
            f.write("Definition ztab : list (Z * str) := [%s].\n" % ";".join("(%s,%s)" % (c_z(z), ztab[z]) for z in sorted(zs) if z in ztab))
            f.write("Definition fams := %s.\n" % c_list(c_family)(sc["fams"]))
            f.write("Eval vm_compute in encode (tab_show ftab) (tab_showz ztab) [] fams.\n")
        rc, out = coqc_file(path)
        m = re.search(r"=\s*(EOk|EErr \w+)\s*(\[[^\]]*\]|nil)", out)
        model = None
        if m:
            model = (m.group(1), bytes(int(x) for x in re.findall(r"\d+", m.group(2))))
        impl = decode_eres(res_outs[0])
        txt = lambda b: b.decode("utf-8", "backslashreplace")
        return dict(model=None if model is None else [model[0], txt(model[1])], impl=[impl[0], txt(impl[1])],
                    impl_other_runs=[[decode_eres(o)[0], txt(decode_eres(o)[1])] for o in res_outs[1:]])

    def nontrivial(self, sc, outs):
        k, b = decode_eres(outs[0])
        return any(not l.startswith(b"#") and l for l in b.split(b"\n"))

    def dist(self, scs, outs):
        c = collections.Counter()
        for i, sc in enumerate(scs):
            c["families"] += len(sc["fams"])
            k = decode_eres(outs[5 * i])[0]
            c["result " + k] += 1
            for f in sc["fams"]:
                c["type " + f["type"]] += 1
                if not f["help"]: c["empty help"] += 1
                if not f["metrics"]: c["no metrics"] += 1
                if not f["name"]: c["empty name"] += 1
                for m in f["metrics"]:
                    c["metrics"] += 1
                    c["labels %d" % min(len(m["labels"]), 4)] += 1
                    for _, v in m["labels"]:
                        for ch, nm in (("\\", "backslash"), ("\"", "quote"), ("\n", "LF"), ("\r", "CR"), ("\t", "TAB")):
                            if ch in v: c["label value with " + nm] += 1
                        if any(ord(x) > 127 for x in v): c["label value multi-byte"] += 1
                    if m["ts"] is None: c["ts absent"] += 1
                    elif m["ts"] == 0: c["ts zero"] += 1
                    else: c["ts " + ("positive" if m["ts"] > 0 else "negative")] += 1
                    if m["hist"] is not None:
                        c["hist buckets %d" % min(len(m["hist"]["b"]), 4)] += 1
                        if any(b.bits == PINF.bits for _, b in m["hist"]["b"]): c["explicit +inf bucket"] += 1
        return dict(c)

    # -------------------------------------------------------------------------------- the check
    def run(self, tier, seed, replay=None):
        t0 = time.time()
        pid = self.pid
        print("[%s] tier=%s seed=%d" % (pid, tier, seed))
        proof = check_props(pid, ["Spec/SpecC04.vo"])
        print("[%s] proofs: make_ok=%s theorems=%d axioms=%s bad=%s forbidden=%d" % (
            pid, proof["make_ok"], proof["obligations"], proof["axioms"], proof["bad_axioms"], len(proof["forbidden"])))
        if not proof["make_ok"]:
            print(proof["log"][-2500:])
        ok_h, out_h, binp = harness_build()
        if not ok_h:
            print(out_h[-3000:])
            print("[%s] ERROR: the harness does not build against the repository's working tree" % pid)
            write_evidence(pid, tier, seed, dict(obligations=proof["obligations"], discharged=0, checker_cmd="make Props/%s.vo" % pid,
                                                 trusted_base=TRUSTED, evaluations=0, distinct_nontrivial=0, rule=self.rule, samples=[],
                                                 explanation="harness build failed"), self.assumptions, time.time() - t0, 1)
            return harness_broken(pid, tier, seed, out_h)
        if not os.path.exists(os.path.join(COQ, "Spec", "SpecC04.vo")):
            print("[%s] ERROR: Spec/SpecC04.vo was not built" % pid)
            print(proof["log"][-2500:])
            return 2
        r = random.Random(seed)
        if replay:
            rp = json.load(open(replay))
            scs = [de_json([rp["scenario"]])[0]] if rp.get("scenario") else []
        else:
            scs = self.gen(r, tier)
        ev = self.evaluate(binp, scs)
        outs = ev["outs"]
        if ev["errors"]:
            for p, e in ev["errors"][:2]: print("COQ ERROR in", p, e[-1500:])
        nontriv = set()
        for i, sc in enumerate(scs):
            if outs[5 * i] and self.nontrivial(sc, outs[5 * i:5 * i + 5]):
                nontriv.add(hashlib.sha1(json.dumps(to_json([sc]), sort_keys=True).encode()).hexdigest())
        rc = 0
        proof_broken = not proof["ok"]

        def dump(i, kind, broken=None):
            sc = scs[i] if i is not None else None
            detail = self.explain(sc, outs[5 * i:5 * i + 5], ev["ftab"], ev["ztab"]) if i is not None else None
            payload = dict(property=pid, tier=tier, seed=seed, kind=kind, scenario_index=i,
                           scenario=to_json([sc])[0] if sc is not None else None,
                           scenario_wire=e_lines(sc) if sc is not None else None,
                           impl_obs=outs[5 * i:5 * i + 5] if i is not None else None, model_vs_impl=detail, broken=broken,
                           explanation="replay with: python3 tools/check.py %s --replay <this file>" % pid)
            return write_replay(pid, seed, i if i is not None else 0, payload)

        spec_f, corr_f, missing = ev["spec"], ev["corr"], ev["missing"]
        if spec_f:
            i = spec_f[0]
            p = dump(i, "failing-input", "spec_c04 is false on the implementation's output (parse back / line count / append-only / entry points / Err iff)")
            print("VIOLATION property=%s replay=%s" % (pid, p)); rc = 1
        elif corr_f or proof_broken or missing:
            found = None
            if not replay:
                found = self.search(binp, seed, tier)
            if found:
                p = write_replay(pid, seed, 0, found)
                print("VIOLATION property=%s replay=%s" % (pid, p)); rc = 1
            else:
                if corr_f:
                    p = dump(corr_f[0], "no-failing-input-found", "correspondence Model/Text.v encode = implementation bytes differs on this scenario")
                elif missing:
                    p = dump(missing[0], "no-failing-input-found", "the implementation produced no answer for this scenario (crash / hang / panic)")
                else:
                    p = dump(None, "no-failing-input-found", "proof obligation no longer checks: %s; bad axioms %s; forbidden %s" % (
                        proof.get("failed_at"), proof["bad_axioms"], proof["forbidden"][:3]))
                print("VIOLATION property=%s replay=%s no-failing-input-found" % (pid, p)); rc = 1
        if ev["contract"] and rc == 0:
            i = ev["contract"][0]
            print("[%s] ERROR: the to_string contract (reads back bit-exactly, one token) fails on a number of scenario %d: %s" % (
                pid, i, json.dumps(to_json([scs[i]]))[:600]))
            rc = 2
        if ev["errors"] and rc == 0:
            print("[%s] ERROR: Coq could not evaluate some case files" % pid)
            rc = 2
        cov = dict(obligations=proof["obligations"], discharged=proof["discharged"],
                   checker_cmd="make -C coq Props/%s.vo Spec/SpecC04.vo (coqc 8.16.1, full .vo) + Print Assumptions allowlist + forbidden-word scan" % pid,
                   trusted_base=TRUSTED + ["axioms used: %s" % (", ".join(proof["axioms"]) or "none (closed under the global context)")],
                   theorems=proof["theorems"], evaluations=len(scs) * 5, scenarios=len(scs), distinct_nontrivial=len(nontriv), rule=self.rule,
                   samples=[(e_lines(scs[i])[0][:500] + " => " + (outs[5 * i] or "")[:500]) for i in range(min(3, len(scs)))],
                   traces_validated_against_impl=len(scs) - len(corr_f) - len(missing),
                   correspondence_mismatches=len(corr_f), spec_failures=len(spec_f), contract_failures=len(ev["contract"]),
                   number_tokens_checked=len(ev["ftab"]) + len(ev["ztab"]), known_finding_cases=0,
                   input_distribution=self.dist(scs, outs), exhaustive=False)
        write_evidence(pid, tier, seed, cov, self.assumptions, time.time() - t0, 1 if rc == 1 else 0)
        print("[%s] scenarios=%d runs=%d nontrivial=%d mismatches=%d spec_failures=%d contract_failures=%d wall=%.1fs rc=%d" % (
            pid, len(scs), 5 * len(scs), len(nontriv), len(corr_f), len(spec_f), len(ev["contract"]), time.time() - t0, rc))
        return rc

    def search(self, binp, seed, tier, budget_s=60):
        """looks for a scenario on which the executable spec fails on the implementation's output"""
        t0 = time.time()
        k = 0
        while time.time() - t0 < budget_s:
            k += 1
            r = random.Random(seed * 1000 + k)
            scs = [gen_scenario(r) for _ in range(600)]
            ev = self.evaluate(binp, scs, tag="C04_search")
            if ev["spec"]:
                i = ev["spec"][0]
                return dict(property=self.pid, tier=tier, seed=seed, kind="failing-input", scenario=to_json([scs[i]])[0],
                            scenario_wire=e_lines(scs[i]), impl_obs=ev["outs"][5 * i:5 * i + 5],
                            broken="spec_c04 false on the implementation's output (found by widened search, round %d)" % k)
        return None
