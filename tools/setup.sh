#!/bin/bash
# Builds the framework from files on disk only (offline): the Coq development (full .vo build)
# and the Rust harness against /repo's working tree with the hooks on.
set -e
export CARGO_NET_OFFLINE=true
V="$(cd "$(dirname "$0")/.." && pwd)"
cd "$V/coq"
python3 "$V/tools/mkproject.py"
# -k: a file of a check still under construction must not stop the others; every check re-runs its own targeted make
timeout 3000 make -j16 -k COQC="timeout 900 coqc" || echo "setup: some Coq files did not compile (see above); each check reports on its own targets"
cd "$V/harness"
[ -f Cargo.lock ] || cp /repo/Cargo.lock .
mkdir -p "$V/build/harness-target"
RUSTFLAGS="--cfg prometheus_verif" timeout 3000 cargo build --offline --target-dir "$V/build/harness-target"
echo "setup done"
