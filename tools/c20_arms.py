"""C20: the table of public macro arms exercised by harness/src/mac.rs (one entry per arm x trailing comma x arity),
shared by tools/p_C20.py (scenario rendering, Coq cases) and used to generate the `arm!` lines of mac.rs
(`python3 tools/c20_arms.py` prints them; p_C20 checks on every run that mac.rs contains exactly these lines)."""

# macro, arm index, Rust handle type, options form, argument atoms
#   options form: N = name/help, V = an Opts value, HN = name/help (histogram), HB = name/help/buckets, HV = a HistogramOpts value
REG_FAMILIES = [
    # (macro stem, type, first arm index of the (OPTS) arm)
    ("register_counter", "Counter", 1), ("register_int_counter", "IntCounter", 0),
    ("register_gauge", "Gauge", 0), ("register_int_gauge", "IntGauge", 0),
]
VEC_FAMILIES = [("register_counter_vec", "CounterVec"), ("register_int_counter_vec", "IntCounterVec"),
                ("register_gauge_vec", "GaugeVec"), ("register_int_gauge_vec", "IntGaugeVec")]


def _arms():
    out = []
    for stem, ty, a0 in REG_FAMILIES:
        out.append((stem, a0, ty, "V", ["OPTS"]))
        out.append((stem, a0 + 1, ty, "N", ["NAME", "HELP"]))
        out.append((stem + "_with_registry", a0, ty, "V", ["OPTS", "REG"]))
        out.append((stem + "_with_registry", a0 + 1, ty, "N", ["NAME", "HELP", "REG"]))
    for stem, ty in VEC_FAMILIES:
        out.append((stem, 0, ty, "V", ["OPTS", "LABELS"]))
        out.append((stem, 1, ty, "N", ["NAME", "HELP", "LABELS"]))
        out.append((stem + "_with_registry", 0, ty, "V", ["OPTS", "LABELS", "REG"]))
        out.append((stem + "_with_registry", 1, ty, "N", ["NAME", "HELP", "LABELS", "REG"]))
    out += [
        ("register_histogram", 0, "Histogram", "HN", ["NAME", "HELP"]),
        ("register_histogram", 1, "Histogram", "HB", ["NAME", "HELP", "BUCKETS"]),
        ("register_histogram", 2, "Histogram", "HV", ["HOPTS"]),
        ("register_histogram_with_registry", 0, "Histogram", "HN", ["NAME", "HELP", "REG"]),
        ("register_histogram_with_registry", 1, "Histogram", "HB", ["NAME", "HELP", "BUCKETS", "REG"]),
        ("register_histogram_with_registry", 2, "Histogram", "HV", ["HOPTS", "REG"]),
        ("register_histogram_vec", 0, "HistogramVec", "HV", ["HOPTS", "LABELS"]),
        ("register_histogram_vec", 1, "HistogramVec", "HN", ["NAME", "HELP", "LABELS"]),
        ("register_histogram_vec", 2, "HistogramVec", "HB", ["NAME", "HELP", "LABELS", "BUCKETS"]),
        ("register_histogram_vec_with_registry", 0, "HistogramVec", "HV", ["HOPTS", "LABELS", "REG"]),
        ("register_histogram_vec_with_registry", 1, "HistogramVec", "HN", ["NAME", "HELP", "LABELS", "REG"]),
        ("register_histogram_vec_with_registry", 2, "HistogramVec", "HB", ["NAME", "HELP", "LABELS", "BUCKETS", "REG"]),
    ]
    return out


RUST_ARG = {"NAME": "cx.name.clone()", "HELP": "cx.help.clone()", "OPTS": "cx.opts.clone()", "HOPTS": "cx.hopts.clone()",
            "LABELS": "&lr[..]", "BUCKETS": "cx.buckets.clone()", "REG": "r"}
MAX_REP = 3      # labels! pairs / opts! maps exercised by the compiled harness: 0..MAX_REP

ARMS = []        # dicts: id, macro, arm, natoms, comma, kind ('reg'|'labels'|'opts'|'hopts'), ty, form, atoms, wr, vec, rep


def _build():
    i = 0
    for macro, arm, ty, form, atoms in _arms():
        for comma in (False, True):
            ARMS.append(dict(id=i, macro=macro, arm=arm, natoms=len(atoms), comma=comma, kind="reg", ty=ty, form=form, atoms=atoms,
                             wr=macro.endswith("_with_registry"), vec=ty.endswith("Vec"), rep=None))
            i += 1
    for n in range(MAX_REP + 1):
        for comma in (False, True):
            ARMS.append(dict(id=i, macro="labels", arm=0, natoms=2 * n, comma=comma, kind="labels", ty=None, form=None, atoms=None,
                             wr=False, vec=False, rep=n)); i += 1
    for n in range(MAX_REP + 1):
        for comma in (False, True):
            ARMS.append(dict(id=i, macro="opts", arm=0, natoms=2 + n, comma=comma, kind="opts", ty=None, form=None, atoms=None,
                             wr=False, vec=False, rep=n)); i += 1
    for arm, atoms in ((0, ["NAME", "HELP"]), (1, ["NAME", "HELP", "BUCKETS"]), (2, ["NAME", "HELP", "BUCKETS", "CL"])):
        for comma in (False, True):
            ARMS.append(dict(id=i, macro="histogram_opts", arm=arm, natoms=len(atoms), comma=comma, kind="hopts", ty=None, form=None,
                             atoms=atoms, wr=False, vec=False, rep=None)); i += 1


_build()


def rust_line(a):
    c = "," if a["comma"] else ""
    if a["kind"] == "reg":
        args = ", ".join(RUST_ARG[x] for x in a["atoms"])
        tgt = "Named" if a["wr"] else "Default"
        return "    arm!(out, cx, lr, %d, %s, Target::%s, Form::%s, |r| %s!(%s%s));" % (a["id"], a["ty"], tgt, a["form"], a["macro"], args, c)
    if a["kind"] == "labels":
        n = a["rep"]
        inner = ", ".join("cx.lp[%d].0.clone() => cx.lp[%d].1.clone()" % (k, k) for k in range(n))
        return "    val!(out, cx, %d, cx.lp.len() == %d, map_obs(&labels!{%s%s}), map_obs(&twin_labels(&cx.lp)));" % (a["id"], n, inner, c)
    if a["kind"] == "opts":
        n = a["rep"]
        args = ", ".join(["cx.name.clone()", "cx.help.clone()"] + ["ms[%d].clone()" % k for k in range(n)])
        return "    val!(out, cx, %d, ms.len() == %d, opts_obs(&opts!(%s%s)), opts_obs(&twin_opts(cx)));" % (a["id"], n, args, c)
    if a["kind"] == "hopts":
        ra = {"NAME": "cx.name.clone()", "HELP": "cx.help.clone()", "BUCKETS": "cx.buckets.clone()", "CL": "cl.clone()"}
        args = ", ".join(ra[x] for x in a["atoms"])
        return "    val!(out, cx, %d, true, hopts_obs(&histogram_opts!(%s%s)), hopts_obs(&twin_hopts(cx, %d)));" % (a["id"], args, c, a["arm"])


def rust_block():
    return "\n".join(rust_line(a) for a in ARMS)


if __name__ == "__main__":
    print(rust_block())
