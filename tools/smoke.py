import sys, random, time
sys.path.insert(0, "/verif/tools")
from pvlib import *
import gens
seed = int(sys.argv[1]) if len(sys.argv) > 1 else 1
n = int(sys.argv[2]) if len(sys.argv) > 2 else 200
r = random.Random(seed)
scs = gens.gen_smoke(r, n)
ok, out, binp = harness_build()
assert ok, out[-3000:]
t0 = time.time()
outs = run_harness(binp, [scen_wire(s) for s in scs])
t1 = time.time()
cases = [(scen_coq(s), o if o else "[OBad]") for s, o in zip(scs, outs)]
failing, errors = compare_cases("smoke", cases)
t2 = time.time()
print("scenarios", n, "harness %.1fs coq %.1fs" % (t1 - t0, t2 - t1), "failing", failing[:20], "errors", len(errors))
for p, e in errors[:2]: print(p, e[-1500:])
for i in failing[:3]:
    print("---- case", i)
    print(explain_case("smoke", cases[i][0], cases[i][1])[-3000:])
    print(scen_wire(scs[i])[:100])
import collections
cnt = collections.Counter()
for o in outs:
    for m in re.finditer(r"(?:^\[|; )(O\w+(?: \((?:Ok|Err \(?\w+))?)", o or ""):
        cnt[m.group(1)] += 1
print(sorted(cnt.items(), key=lambda x: -x[1]))
