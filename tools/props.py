"""Per-property check definitions."""
import os, random, sys, time, json, hashlib, re
from pvlib import *
import gens

TRUSTED = [
    "Coq 8.16.1 kernel + vm_compute (no native_compute)",
    "hand-written Gallina model (coq/Model/*.v) tied to /repo by the correspondence check of this run",
    "Rust harness (harness/), Python driver (tools/), sync shim src/verif_sync.rs in /repo",
    "Rust std / fnv / parking_lot / rust-protobuf: modelled, not verified",
]


class SeqProp:
    """A property decided by theorems about the sequential world model + correspondence."""
    pid = None
    spec_import = ""          # extra Require lines for the cases files
    spec_fn = None            # Gallina: list op -> list obs -> bool, evaluated on the IMPLEMENTATION's observations
    known_fn = None           # Gallina: list op -> list obs -> bool, true = case belongs to a recorded known finding
    dom_fn = None             # optional (needs spec_fn): Gallina list op -> bool, the domain of the uniform "spec holds of the
                              # model" theorem; scenarios inside / outside are counted in the evidence, nothing is decided by it
    rule = ""
    assumptions = []
    corpus = []               # scenarios that always run first (minimised past failures, known-finding witnesses)
    quick_n = 300
    thorough_n = 3000

    def gen(self, r, tier):
        raise NotImplementedError

    def nontrivial(self, ops, obs_line):
        return True

    def dist(self, scs, outs):
        import collections
        c = collections.Counter()
        for s in scs:
            for o in s: c[o[0]] += 1
        oc = collections.Counter()
        for o in outs:
            for m in re.finditer(r"(?:^\[|; )(O\w+(?: \((?:Ok|Err \(?\w+))?)", o or ""):
                oc[m.group(1)] += 1
        return dict(ops=dict(c), observations=dict(oc))

    def run(self, tier, seed, replay=None):
        t0 = time.time()
        pid = self.pid
        print("[%s] tier=%s seed=%d" % (pid, tier, seed))
        # 1. proofs
        extra_t = []
        m = re.search(r"PV\.Spec\.(\w+)", self.spec_import or "")
        if m: extra_t.append("Spec/%s.vo" % m.group(1))
        proof = check_props(pid, extra_t)
        print("[%s] proofs: make_ok=%s theorems=%d axioms=%s bad=%s forbidden=%d" % (
            pid, proof["make_ok"], proof["obligations"], proof["axioms"], proof["bad_axioms"], len(proof["forbidden"])))
        if not proof["make_ok"]:
            print(proof["log"][-2500:])
        # 2. harness
        ok_h, out_h, binp = harness_build()
        if not ok_h:
            print(out_h[-3000:])
            print("[%s] ERROR: the harness does not build against /repo's working tree" % pid)
            write_evidence(pid, tier, seed, dict(obligations=proof["obligations"], discharged=0, checker_cmd="make Props/%s.vo" % pid,
                                                 trusted_base=TRUSTED, evaluations=0, distinct_nontrivial=0, rule=self.rule, samples=[],
                                                 explanation="harness build failed"), self.assumptions, time.time() - t0, 1)
            return harness_broken(pid, tier, seed, out_h)
        # 3. scenarios
        r = random.Random(seed)
        if replay:
            rp = json.load(open(replay))
            scs = [de_json(rp["scenario_ops"])] if rp.get("scenario_ops") else []
        else:
            scs = [list(s) for s in self.corpus] + self.gen(r, tier)
        lines = [scen_wire(s) for s in scs]
        outs = run_harness(binp, lines)
        missing = [i for i, o in enumerate(outs) if o is None]
        cases = [(scen_coq(s), o if o else "[OHung]") for s, o in zip(scs, outs)]
        spec = self.spec_fn
        known = self.known_fn
        chk = "Definition chk (c : list op * list obs) : bool := match first_diff 0 (run world0 (fst c)) (snd c) with None => true | Some _ => false end."
        extra = ""
        if spec:
            extra += "\nDefinition chk_spec (c : list op * list obs) : bool := %s (fst c) (snd c).\nEval vm_compute in failing chk_spec LO cases." % spec
        if known:
            extra += "\nDefinition chk_known (c : list op * list obs) : bool := negb (%s (fst c) (snd c)).\nEval vm_compute in failing chk_known LO cases." % known
        if self.dom_fn and spec and not known:
            # keep the positions of the printed lists fixed: an empty third list
            extra += "\nDefinition chk_known (c : list op * list obs) : bool := true.\nEval vm_compute in failing chk_known LO cases."
        if self.dom_fn and spec:
            extra += "\nDefinition chk_dom (c : list op * list obs) : bool := %s (fst c).\nEval vm_compute in failing chk_dom LO cases." % self.dom_fn
        failing, spec_failing, known_cases, errors = compare_cases3(pid, cases, self.spec_import, chk, extra)
        outside_dom = list(LAST_FOURTH) if (self.dom_fn and spec) else None
        if errors:
            for p, e in errors[:2]: print("COQ ERROR in", p, e[-1500:])
        nontriv = set()
        for s, o in zip(scs, outs):
            if o and self.nontrivial(s, o):
                nontriv.add(hashlib.sha1(scen_wire(s).encode()).hexdigest())
        # 4. verdict
        kf = [k for k in load_known() if k["property"] == pid]
        violations = []
        known_hits = {}
        known_set = set(known_cases)
        for i in sorted(set(spec_failing) | set(failing)):
            if i in known_set:
                known_hits.setdefault("known", []).append(i)
                continue
            kind = "failing-input" if i in spec_failing else "correspondence"
            violations.append((i, kind))
        # a spec failure is a failing input; a bare correspondence mismatch triggers the search
        rc = 0
        replay_paths = []
        spec_v = [v for v in violations if v[1] == "failing-input"]
        corr_v = [v for v in violations if v[1] == "correspondence"]
        proof_broken = not proof["ok"]
        def dump(i, kind, broken=None):
            detail = explain_case(pid, cases[i][0], cases[i][1], self.spec_import) if i is not None else ""
            payload = dict(property=pid, tier=tier, seed=seed, kind=kind, scenario_index=i,
                           scenario_ops=to_json(scs[i]) if i is not None else None,
                           scenario_wire=lines[i] if i is not None else None,
                           impl_obs=outs[i] if i is not None else None, model_vs_impl=detail[-4000:], broken=broken,
                           explanation="replay with: python3 tools/check.py %s --replay <this file>" % pid)
            return write_replay(pid, seed, i if i is not None else 0, payload)
        if spec_v:
            i = spec_v[0][0]
            p = dump(i, "failing-input", "spec %s is false on the implementation's observations" % spec)
            print("VIOLATION property=%s replay=%s" % (pid, p)); rc = 1
        elif corr_v or proof_broken or missing:
            # search harder for a failing input before giving up
            found = None
            if spec and not replay:
                found = self.search(binp, seed, tier)
            if found:
                p = write_replay(pid, seed, 0, found)
                print("VIOLATION property=%s replay=%s" % (pid, p)); rc = 1
            else:
                if corr_v:
                    i = corr_v[0][0]
                    p = dump(i, "no-failing-input-found", "correspondence model_run = impl_obs (World.run) differs on this scenario")
                elif missing:
                    i = missing[0]
                    p = dump(i, "no-failing-input-found", "the implementation produced no observation for this scenario (crash / hang)")
                else:
                    p = dump(None, "no-failing-input-found", "proof obligation no longer checks: %s; bad axioms %s; forbidden %s" % (
                        proof.get("failed_at"), proof["bad_axioms"], proof["forbidden"][:3]))
                print("VIOLATION property=%s replay=%s no-failing-input-found" % (pid, p)); rc = 1
        for k in kf:
            if k.get("status") == "known":
                # the witness is part of the corpus; the finding is reported while its witness still fails
                if known_hits.get("known"):
                    print("KNOWN-FINDING: property=%s %s: %s" % (pid, k["id"], k["what"]))
        if errors and rc == 0:
            print("[%s] ERROR: Coq could not evaluate some case files" % pid)
            rc = 2
        cov = dict(obligations=proof["obligations"], discharged=proof["discharged"],
                   checker_cmd="make -C coq Props/%s.vo (coqc 8.16.1, full .vo) + Print Assumptions allowlist + forbidden-word scan" % pid,
                   trusted_base=TRUSTED + ["axioms used: %s" % (", ".join(proof["axioms"]) or "none (closed under the global context)")],
                   theorems=proof["theorems"], evaluations=len(scs), distinct_nontrivial=len(nontriv), rule=self.rule,
                   samples=[lines[i][:600] + " => " + (outs[i] or "")[:600] for i in range(min(3, len(lines)))],
                   traces_validated_against_impl=len(scs) - len(failing) - len(missing),
                   correspondence_mismatches=len(failing), spec_failures=len(spec_failing), known_finding_cases=len(known_cases),
                   input_distribution=self.dist(scs, outs), exhaustive=False)
        if outside_dom is not None:
            cov["in_uniform_theorem_domain"] = len(scs) - len(outside_dom)
            cov["outside_uniform_theorem_domain"] = len(outside_dom)
        write_evidence(pid, tier, seed, cov, self.assumptions, time.time() - t0, 1 if rc == 1 else 0)
        print("[%s] scenarios=%d nontrivial=%d mismatches=%d spec_failures=%d known=%d wall=%.1fs rc=%d" % (
            pid, len(scs), len(nontriv), len(failing), len(spec_failing), len(known_cases), time.time() - t0, rc))
        return rc

    def search(self, binp, seed, tier, budget_s=60):
        """looks for a scenario on which the executable spec fails on the implementation"""
        t0 = time.time()
        k = 0
        while time.time() - t0 < budget_s:
            k += 1
            r = random.Random(seed * 1000 + k)
            scs = self.gen(r, "thorough" if k > 1 else tier)[:600]
            lines = [scen_wire(s) for s in scs]
            outs = run_harness(binp, lines)
            cases = [(scen_coq(s), o if o else "[OHung]") for s, o in zip(scs, outs)]
            extra = "\nDefinition chk_spec (c : list op * list obs) : bool := %s (fst c) (snd c).\nEval vm_compute in failing chk_spec LO cases." % self.spec_fn
            if self.known_fn:
                extra += "\nDefinition chk_known (c : list op * list obs) : bool := negb (%s (fst c) (snd c)).\nEval vm_compute in failing chk_known LO cases." % self.known_fn
            _, sf, kn, errs = compare_cases3(self.pid + "_search", cases, self.spec_import,
                                             "Definition chk (c : list op * list obs) : bool := true.", extra)
            sf = [i for i in sf if i not in set(kn)]
            if sf:
                i = sf[0]
                return dict(property=self.pid, tier=tier, seed=seed, kind="failing-input", scenario_ops=to_json(scs[i]),
                            scenario_wire=lines[i], impl_obs=outs[i], broken="spec %s false on the implementation (found by widened search, round %d)" % (self.spec_fn, k))
        return None


def to_json(ops):
    def cv(x):
        if isinstance(x, F): return {"F": x.bits}
        if isinstance(x, tuple): return {"T": [cv(y) for y in x]}
        if isinstance(x, list): return [cv(y) for y in x]
        if isinstance(x, dict): return {"D": {k: cv(v) for k, v in x.items()}}
        return x
    return [cv(o) for o in ops]


def de_json(ops):
    def cv(x):
        if isinstance(x, dict):
            if "F" in x and len(x) == 1: return F(x["F"])
            if "T" in x and len(x) == 1: return tuple(cv(y) for y in x["T"])
            if "D" in x and len(x) == 1: return {k: cv(v) for k, v in x["D"].items()}
        if isinstance(x, list): return [cv(y) for y in x]
        return x
    return [cv(o) for o in ops]


def compare_cases3(prop, cases, imports, chk, extra):
    """like pvlib.compare_cases but with up to three Evals per shard: chk, chk_spec, chk_known"""
    import shutil, subprocess
    d = os.path.join(BUILD, "cases", prop)
    shutil.rmtree(d, ignore_errors=True); os.makedirs(d)
    n = len(cases)
    nsh = min(NPROC, max(1, (n + 39) // 40))
    per = (n + nsh - 1) // nsh if n else 1
    files = []
    for k in range(nsh):
        lo, hi = k * per, min(n, (k + 1) * per)
        if lo >= hi: continue
        path = os.path.join(d, "cases_%d.v" % k)
        with open(path, "w") as f:
            f.write(COQ_HDR % imports)
            f.write("Definition cases : list (list op * list obs) := [\n")
            f.write(";\n".join("(%s,\n  %s)" % (s, o) for s, o in cases[lo:hi]))
            f.write("].\n%s\nEval vm_compute in failing chk %d cases.\n%s\n" % (chk, lo, extra.replace("LO", str(lo))))
        files.append(path)
    procs = [subprocess.Popen(["timeout", "900", "coqc", "-noglob", "-Q", COQ, "PV", p], stdout=subprocess.PIPE, stderr=subprocess.STDOUT, text=True) for p in files]
    a, b, c, errors = [], [], [], []
    d = []
    for p, path in zip(procs, files):
        out = p.communicate()[0]
        if p.returncode != 0:
            # a shard killed under memory pressure / overload (no Coq error message) is re-run once, alone
            if "Error" not in out:
                p2 = subprocess.run(["timeout", "1800", "coqc", "-noglob", "-Q", COQ, "PV", path], stdout=subprocess.PIPE, stderr=subprocess.STDOUT, text=True)
                out = p2.stdout
                if p2.returncode == 0:
                    p.returncode = 0
        if p.returncode != 0:
            errors.append((path, out[-3000:])); continue
        ls = parse_nlist(out)
        if len(ls) > 0: a += ls[0]
        if len(ls) > 1: b += ls[1]
        if len(ls) > 2: c += ls[2]
        if len(ls) > 3: d += ls[3]
    LAST_FOURTH[:] = sorted(d)
    return sorted(a), sorted(b), sorted(c), errors


LAST_FOURTH = []


def get(pid):
    """each property lives in tools/p_<pid>.py and defines a class named <pid>"""
    import importlib
    m = importlib.import_module("p_" + pid)
    return getattr(m, pid)()
