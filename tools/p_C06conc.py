"""C06, concurrent part: register / unregister / gather issued from several threads behave as if executed one at a time.

Scenarios: one fresh Registry, 2-4 custom collectors with 1-3 descriptors each over a small pool that realises every relation the
property distinguishes (the same descriptor in two collectors, the same name with another help / other label names, compatible
descriptors of one name, disjoint names), 1-3 threads with 1-3 calls each (`register i`, `unregister i`, `gather`), run by the
harness (`C reg ...` lines, harness/src/concreg.rs) one lock attempt / release / desc() / collect() / marker at a time under a
schedule.  Schedules: targeted (a registration is preempted after its k-th step - after its first lock event, inside desc(),
before its unlock - and the other threads run), uniform / bursty / PCT-like random, sequential; thorough tier: every interleaving
of two single-call threads.
chk  = the trace is accepted event by event by the executable model RegConc.rexec and ends with every thread idle, lock free;
spec = SpecC06Conc.spec_c06conc (one order of the completed calls, consistent with program order and real time, that the abstract
       registry of Spec/SpecC06.v explains: structural admission rule, unregister exact, gather = names of the registered
       collectors) on the call / return markers of the same trace.  An exhausted search budget counts as pass (conc_unknown).

Used in two ways: `tools/check.py C06conc` (stand-alone, evidence/C06conc.json) and `run_concurrent_part(tier, seed)` called from
tools/p_C06.py so that `tools/check.py C06` runs the sequential part and then this part."""
import itertools
from concprop import *

# descriptor pool: (fq name, help, constant labels); identity = (name, constant values), signature = (help, label names)
D_X = ("x", "h", [])
POOL = [
    D_X,
    ("x", "help B", []),                    # equal to D_X (identity ignores help)
    ("x", "h", [("k", "1")]),               # same name as D_X, other label names: disagrees with D_X
    ("x", "h", [("k", "2")]),               # compatible with the previous one
    ("x", "help B", [("k", "2")]),          # equal to the previous one, other help
    ("x", "help B", [("k", "3")]),          # same name and label names, other help: disagrees with both k-descriptors
    ("y", "h", []),
    ("y", "help B", [("k", "1")]),          # disagrees with y/h
    ("z", "h", []),
]


def wdesc(d):
    return "%s %s %d %s" % (hexs(d[0]), hexs(d[1]), len(d[2]), " ".join(hexs(k) + " " + hexs(v) for k, v in d[2]))


def wcols(cols):
    return "%d %s" % (len(cols), " ".join("%d %s" % (len(c), " ".join(wdesc(d) for d in c)) for c in cols))


def c_cols(cols):
    return c_list(c_list(lambda d: "(%s,%s,[],%s)" % (c_str(d[0]), c_str(d[1]), c_pairs(d[2]))))(cols)


def op_wire(op):
    return op[0] if op[0] == "gather" else "%s %d" % op


def op_steps(op, ncols):
    """upper bound on the scheduled steps of a call that is never blocked (call, lock, desc()/collect() calls, unlock, return),
    with slack for a lock pattern that takes the lock twice"""
    if op[0] == "gather": return 4 + ncols
    return 6 + 3


def mk(cols, progs, sched, kind):
    line = "C reg %s | %s | S %s" % (wcols(cols), " | ".join(", ".join(op_wire(o) for o in p) for p in progs),
                                       sched if isinstance(sched, str) else " ".join(map(str, sched)))
    return dict(line=line, cols=cols, nth=len(progs), kind=kind, ncalls=sum(len(p) for p in progs))


def gen_cols(r, n=None):
    """n collectors; collector 0 and 1 always conflict with each other (common descriptor or disagreement on a name)"""
    n = n or r.choice([2, 3, 3, 4])
    cols = []
    d0 = r.choice(POOL[:6])
    rel = r.random()
    if rel < 0.45: d1 = d0                                                   # the same descriptor in two collectors
    elif rel < 0.6: d1 = (d0[0], "help B" if d0[1] == "h" else "h", d0[2])   # equal identity, other help
    else: d1 = r.choice([d for d in POOL[:6] if d != d0])                    # same name: equal / disagreeing / compatible
    def around(d):
        extra = [x for x in r.sample(POOL, r.choice([0, 0, 1, 1, 2])) if x != d]
        c = extra[:]
        c.insert(r.randint(0, len(c)), d)
        return c[:3]
    cols.append(around(d0)); cols.append(around(d1))
    while len(cols) < n:
        k = r.random()
        if k < 0.25: cols.append(list(r.choice(cols)))                      # the same collector again (another box of it)
        elif k < 0.3:
            d = r.choice(POOL); cols.append([d, r.choice(POOL), d][:r.choice([2, 3])])   # may list a descriptor twice
        else: cols.append(r.sample(POOL, r.choice([1, 1, 2, 3])))
    return cols


def rand_prog(r, ncols, n, mix=(0.6, 0.8)):
    p = []
    for _ in range(n):
        x = r.random()
        if x < mix[0]: p.append(("register", r.randrange(ncols)))
        elif x < mix[1]: p.append(("unregister", r.randrange(ncols)))
        else: p.append(("gather",))
    return p


def preempt_schedule(nth, first, k, rest_len, r=None):
    """thread `first` runs k steps, then the others run (round robin among them or one after the other), then everybody"""
    s = [first] * k
    others = [t for t in range(nth) if t != first]
    if r is not None and r.random() < 0.5:
        for t in others: s += [t] * 12
    else:
        for _ in range(12): s += others
    s += [first] * 12
    if r is not None: s += [r.randrange(nth) for _ in range(rest_len)]
    return s


CHK = "Definition chk (c : list (list qdesc) * nat * list revent) : bool := rcheck (fst (fst c)) (snd (fst c)) (snd c)."
CASE_T = "list (list qdesc) * nat * list revent"
HDR_IMPORTS = "Require Import PV.Model.RegConc PV.Spec.SpecC06Conc PV.Proofs.RegConcSpecSeq PV.Proofs.RegConcSpecOf."
PINNED = "Proofs/C06ConcPinned"
NOHOOK = "[RgNoHooks]"

ASSUMPTIONS = [
    "concurrent part: hand-written model coq/Model/RegConc.v of Registry::register / unregister / gather (RwLock word; tables "
    "= Model/Registry.v regcore, touched only by silent steps between lock acquisition and release; a registration = check step + "
    "commit step); tied to the code by validating every event of the implementation's traces (lock events of the sync shim on the "
    "registry's RwLock - needs the cfg(prometheus_verif) import switch in src/registry.rs -, desc()/collect() calls, call/return markers)",
    "concurrent part: a collector's desc() and collect() are pure (the scenario's custom collectors return fixed descriptors / one "
    "sample per descriptor); desc() may be called any number of times between a call's invocation and its unlock",
    "concurrent part: the shim's try_read / try_write report Blocked exactly when parking_lot's word has a writer / has a writer or "
    "readers; no thread parks inside parking_lot under the scheduler; one global sequentially consistent memory for the lock word",
    "concurrent part: the HashMap / HashSet operations between lock acquisition and release perform no shim event; data races on the "
    "tables are excluded by Rust's type system (the guard types), not by the model",
    "concurrent part: descriptor identity / signature agreement / the collector id are decided by FNV-1a-64 hashes in the code and the "
    "model and structurally in the spec; the scenarios' pool is collision-free (the sequential part owns the known finding C06-fnv-collision)",
    "concurrent part: the order search is budgeted (30000 nodes per trace): an exhausted budget counts as pass (conc_budget_exhausted in the evidence)",
]
RULE = ("concurrent part: one fresh Registry, 2-4 custom collectors (1-3 descriptors over a 9-descriptor pool: equal descriptors in two "
        "collectors, equal identity with another help, same name with other label names / another help, compatible descriptors of one name, "
        "disjoint names, a descriptor listed twice), 1-3 threads x 1-3 calls (register / unregister / gather); schedules: a registration "
        "preempted after its k-th step (k = 1..8: after the call marker, after its first lock event, inside desc(), before the unlock, "
        "between two critical sections if there are two) while the others run, uniform / bursty / PCT-like random, two threads "
        "unregistering the same registered collector at once, sequential; thorough: "
        "all interleavings (first 6+6 grants) of 2 threads x 1 call over 5x5 calls; non-trivial = the trace contains a blocked lock "
        "attempt or two threads' calls overlap in time; distinct = distinct harness lines")


def corpus():
    A = [D_X]; B = [("y", "h", []), D_X]; Cc = [("x", "help B", [("k", "1")])]; Dd = [("x", "h", [("k", "2")])]
    out = []
    # regression for the repaired defect found by this check (collectors were filed under the SUM of their descriptor ids; the sums of
    # SA and SB coincide; /repo commit edcf206; Proofs/C06ConcPinned.v c06_conc_regression_id_sum): unregister SB must be refused
    SA = [("x", "help B", [("k", "3")]), ("y", "h", [])]; SB = [("x", "help B", [("k", "2")]), ("x", "h", [])]
    out.append(mk([SA, SB], [[("register", 0), ("register", 1), ("unregister", 1), ("gather",)]], "", "regression-idsum"))
    # ... and with the unregistration racing against the registration it undoes
    out.append(mk([SA, SB], [[("register", 0), ("gather",)], [("unregister", 1), ("gather",)]], [0, 0, 1, 0, 1, 0, 1, 1, 0, 0, 1, 1, 0, 1] * 2, "regression-idsum"))
    # two threads race to register collectors with a common descriptor, preempted at every point of the first registration
    for k in range(1, 9):
        out.append(mk([A, B], [[("register", 0), ("gather",)], [("register", 1), ("gather",)]], preempt_schedule(2, 0, k, 0), "corpus-common"))
        out.append(mk([Cc, Dd], [[("register", 0), ("gather",)], [("register", 1), ("gather",)]], preempt_schedule(2, 1, k, 0), "corpus-disagree"))
    # the same collector registered by three threads at once
    out.append(mk([A, B], [[("register", 0)], [("register", 0)], [("register", 0), ("gather",)]], [0, 1, 2] * 12, "corpus-same"))
    # two threads unregister the same registered collector: exactly one Ok
    for k in range(1, 7):
        out.append(mk([A, B], [[("register", 0), ("unregister", 0), ("gather",)], [("unregister", 0), ("gather",)]],
                      [0] * 5 + preempt_schedule(2, 0, k, 0), "corpus-unregrace"))
    # unregister + re-register racing with a registration of a conflicting collector, and gathers
    out.append(mk([A, B], [[("register", 0), ("unregister", 0), ("register", 0)], [("register", 1), ("gather",), ("unregister", 1)]],
                  [0] * 6 + [1, 0] * 20, "corpus-rereg"))
    return out


class C06conc(ConcProp):
    pid = "C06conc"
    report_pid = "C06"
    imports = HDR_IMPORTS
    case_type = CASE_T
    chk_def = CHK
    rule = RULE
    assumptions = ASSUMPTIONS

    # ---------------------------------------------------------------- generation
    def gen(self, r, tier):
        scs = []
        quick = tier != "thorough"
        # 1. targeted: racing registrations of conflicting collectors, the first one preempted after its k-th step
        for i in range(700 if quick else 2500):
            cols = gen_cols(r); nth = r.choice([2, 2, 2, 3])
            progs = []
            for t in range(nth):
                p = [("register", t if t < 2 else r.randrange(len(cols)))]
                p += rand_prog(r, len(cols), r.randint(0, 2), (0.45, 0.7))
                progs.append(p[:3])
            if r.random() < 0.3: r.shuffle(progs)
            first = r.randrange(nth)
            scs.append(mk(cols, progs, preempt_schedule(nth, first, r.randint(1, 8), 20, r), "preempt"))
        # 2. random programs and schedules
        for i in range(1100 if quick else 6000):
            cols = gen_cols(r); nth = r.choice([2, 2, 3])
            mix = r.choice([(0.6, 0.8), (0.5, 0.8), (0.7, 0.85), (0.45, 0.7)])
            progs = [rand_prog(r, len(cols), r.randint(1, 3), mix) for _ in range(nth)]
            n = sum(op_steps(o, len(cols)) for p in progs for o in p) + 6
            scs.append(mk(cols, progs, gen_schedule(r, nth, n).replace("s", ""), "random"))
        # 3. register / unregister / register ping-pong on two conflicting collectors with gathers
        for i in range(250 if quick else 1000):
            cols = gen_cols(r, r.choice([2, 3]))
            a = [("register", 0), ("unregister", 0), ("register", 0)]
            b = [("register", 1), r.choice([("gather",), ("unregister", 1), ("unregister", 0)]), r.choice([("gather",), ("register", 1)])]
            progs = [a[:r.randint(2, 3)], b[:r.randint(2, 3)]]
            if r.random() < 0.3: progs.append([("gather",), ("gather",)])
            r.shuffle(progs)
            n = sum(op_steps(o, len(cols)) for p in progs for o in p) + 6
            scs.append(mk(cols, progs, gen_schedule(r, len(progs), n).replace("s", ""), "pingpong"))
        # 3b. two threads unregister the same registered collector at once (exactly one may succeed), one of them preempted after its
        #     k-th step; a third thread may re-register it or gather
        for i in range(150 if quick else 800):
            cols = gen_cols(r, r.choice([2, 3])); c = r.randrange(len(cols))
            progs = [[("register", c), ("unregister", c)] + ([("gather",)] if r.random() < 0.4 else []),
                     [("unregister", c)] + ([r.choice([("gather",), ("register", c), ("unregister", c)])] if r.random() < 0.6 else [])]
            if r.random() < 0.35: progs.append([r.choice([("register", c), ("unregister", c), ("gather",)])])
            nth = len(progs)
            sched = [0] * r.choice([5, 5, 5, 6, 7]) + preempt_schedule(nth, r.randrange(nth), r.randint(1, 8), 16, r)
            scs.append(mk(cols, progs, sched, "unregrace"))
        # 4. sequential histories: one thread
        for i in range(120 if quick else 500):
            cols = gen_cols(r)
            scs.append(mk(cols, [rand_prog(r, len(cols), r.randint(2, 7), (0.55, 0.8))], "", "sequential"))
        if not quick:
            scs += self.exhaustive()
        return scs

    def exhaustive(self):
        """all interleavings of two threads with one call each: the first 6 + 6 grants are enumerated (a call that is never blocked
        takes 5-7 steps), the rest is the harness's fair fallback"""
        scs = []
        cols = [[D_X], [("y", "h", []), D_X], [("x", "h", [("k", "1")])]]
        singles = [("register", 0), ("register", 1), ("register", 2), ("unregister", 0), ("gather",)]
        for x in singles:
            for y in singles:
                for zeros in itertools.combinations(range(12), 6):
                    zs = set(zeros)
                    scs.append(mk(cols, [[x], [y]], [0 if i in zs else 1 for i in range(12)], "all-interleavings"))
        return scs

    # ---------------------------------------------------------------- comparison
    def case_term(self, sc, out):
        return "(%s, %d%%nat, %s)" % (c_cols(sc["cols"]), sc["nth"], out)

    def compare(self, cases, tag="cases"):
        """chk = trace validation; spec side = one pass of SpecC06Conc.conc_classify per case (pinned equal to spec_c06conc /
        conc_unknown: Proofs/C06ConcPinned.v c06_conc_classifier_is_spec)"""
        d = os.path.join(BUILD, "cases", self.pid if tag == "cases" else self.pid + "_" + tag)
        shutil.rmtree(d, ignore_errors=True); os.makedirs(d)
        n = len(cases)
        nsh = min(NPROC, max(1, (n + 19) // 20))
        per = (n + nsh - 1) // nsh if n else 1
        files = []
        for k in range(nsh):
            lo, hi = k * per, min(n, (k + 1) * per)
            if lo >= hi: continue
            path = os.path.join(d, "cases_%d.v" % k)
            with open(path, "w") as f:
                f.write(CONC_HDR % self.imports)
                f.write("Definition cases : list (%s) := [\n" % self.case_type)
                f.write(";\n".join(cases[lo:hi]))
                f.write("].\n%s\nEval vm_compute in failing chk %d cases.\n" % (self.chk_def, lo))
                f.write("Definition cls : list N := Eval vm_compute in map (fun c : %s => conc_classify (fst (fst c)) (snd c)) cases.\n" % self.case_type)
                f.write("Eval vm_compute in failing (fun x => negb (x =? 2)) %d cls.\n" % lo)     # spec fails
                f.write("Eval vm_compute in failing (fun x => negb (x =? 1)) %d cls.\n" % lo)     # search out of budget
                # outside the domain of the uniform theorem c06_conc_spec_of_validated (distinct constant-label keys, events of the
                # scenario's threads only, no hash collision on the collector table)
                f.write("Eval vm_compute in failing (fun c : %s => in_domain_tbl (fst (fst c)) (snd (fst c)) (snd c) && no_collision_tbl (fst (fst c))) %d cases.\n" % (self.case_type, lo))
            files.append(path)
        procs = [subprocess.Popen(["timeout", "900", "coqc", "-noglob", "-Q", COQ, "PV", p], stdout=subprocess.PIPE, stderr=subprocess.STDOUT, text=True) for p in files]
        a, b, bu, od, errors = [], [], [], [], []
        for p, path in zip(procs, files):
            out = p.communicate()[0]
            if p.returncode != 0 and "Error" not in out:
                p2 = subprocess.run(["timeout", "1800", "coqc", "-noglob", "-Q", COQ, "PV", path], stdout=subprocess.PIPE, stderr=subprocess.STDOUT, text=True)
                out = p2.stdout
                if p2.returncode == 0: p.returncode = 0
            if p.returncode != 0:
                errors.append((path, out[-3000:])); continue
            ls = parse_nlist(out)
            if len(ls) > 0: a += ls[0]
            if len(ls) > 1: b += ls[1]
            if len(ls) > 2: bu += ls[2]
            if len(ls) > 3: od += ls[3]
        if tag == "cases": self.budget_cases = sorted(bu); self.outside_domain = sorted(od)
        return sorted(a), sorted(b), errors

    def nontrivial(self, sc, out):
        if "LRead false" in out or "LWrite false" in out: return True
        open_ = set()
        for m in re.finditer(r"Rg(Call|Ret) (\d+)", out):
            t = int(m.group(2))
            if m.group(1) == "Call":
                if open_ - {t}: return True
                open_.add(t)
            else:
                open_.discard(t)
        return False

    def explain(self, case):
        d = os.path.join(BUILD, "cases", self.pid); os.makedirs(d, exist_ok=True)
        path = os.path.join(d, "explain.v")
        with open(path, "w") as f:
            f.write(CONC_HDR % self.imports)
            f.write("Definition c : %s := %s.\n" % (self.case_type, case))
            f.write("Eval vm_compute in (rfirst_rejected (fst (fst c)) (snd c), "
                    "match rfirst_rejected (fst (fst c)) (snd c) with Some i => nth_error (snd c) (N.to_nat i) | None => None end, "
                    "(conc_classify (fst (fst c)) (snd c), spec_c06conc (fst (fst c)) (snd c), qextract (snd c))).\n")
        rc, out = coqc_file(path)
        return out[-1500:]

    # ---------------------------------------------------------------- proofs of this part
    def check_pinned(self):
        """full re-check of Proofs/C06ConcPinned.v (and what it needs); its Print Assumptions output against the allowlist"""
        # nothing shared is deleted: the pinned file is re-checked with a private output file (as pvlib.check_props does)
        ok, out = coq_make(["Spec/SpecC06Conc.vo", PINNED + ".vo"])
        if ok:
            import shutil
            outdir = os.path.join(BUILD, "props", "C06conc-%d" % os.getpid()); os.makedirs(outdir, exist_ok=True)
            rc, o2 = sh(["timeout", "900", "coqc", "-q", "-w", "-notation-overridden,-deprecated-syntactic-definition,-deprecated-hint-rewrite-without-locality,-deprecated-instance-without-locality,-ambiguous-paths",
                         "-Q", COQ, "PV", "-o", os.path.join(outdir, os.path.basename(PINNED) + ".vo"), os.path.join(COQ, PINNED + ".v")])
            out += "\n" + o2
            ok = (rc == 0)
            shutil.rmtree(outdir, ignore_errors=True)
        text = open(os.path.join(COQ, PINNED + ".v")).read()
        theorems = re.findall(r"^\s*(?:Theorem|Lemma|Corollary|Example)\s+(\w+)", text, re.M)
        axioms = set()
        for blk in re.finditer(r"Axioms:\n((?:.+\n?)+?)(?=\n\S|\Z|COQC|make)", out):
            for l in blk.group(1).split("\n"):
                mm = re.match(r"^(\S+)\s*:", l)
                if mm and mm.group(1) != "Axioms": axioms.add(mm.group(1))
        bad = sorted(a for a in axioms if a not in AXIOM_ALLOW and a.split(".")[-1] not in AXIOM_ALLOW and not a.startswith(PRIM_PREFIXES))
        forb = scan_forbidden()
        good = ok and not bad and not forb
        failed = None
        if not ok:
            m = re.search(r'File "([^"]+)", line (\d+)', out)
            if m: failed = "%s:%s" % (m.group(1), m.group(2))
        return dict(ok=good, make_ok=ok, obligations=len(theorems), discharged=len(theorems) if good else 0, theorems=theorems,
                    axioms=sorted(axioms), bad_axioms=bad, forbidden=forb, log=out[-6000:], failed_at=failed)

    # ---------------------------------------------------------------- the part
    def run_part(self, tier, seed, replay=None, require_hook=True, binp=None):
        """returns (rc, summary, violation_line or None); prints progress with the prefix [C06 conc]"""
        t0 = time.time()
        tag = "[%s conc]" % self.report_pid
        self.budget_cases = []; self.outside_domain = []
        proof = self.check_pinned()
        print("%s proofs: make_ok=%s theorems=%d axioms=%s bad=%s forbidden=%d" % (
            tag, proof["make_ok"], proof["obligations"], proof["axioms"], proof["bad_axioms"], len(proof["forbidden"])))
        if not proof["make_ok"]: print(proof["log"][-2500:])
        if binp is None:
            ok_h, out_h, binp = harness_build()
            if not ok_h:
                print(out_h[-3000:])
                print("%s ERROR: the harness does not build against the repository's working tree" % tag)
                pth = write_replay("C06conc", seed, 0, dict(property="C06", part="concurrent", kind="no-failing-input-found",
                                                             broken="the correspondence harness does not compile against the repository's working tree", build_log=out_h[-4000:]))
                return 1, dict(obligations=proof["obligations"], discharged=0, explanation="harness build failed"), \
                    "VIOLATION property=C06 replay=%s no-failing-input-found" % pth
        r = random.Random(seed * 7919 + 17)
        if replay:
            rp = json.load(open(replay))
            scs = [rp["scenario"]] if rp.get("scenario") else []
        else:
            scs = corpus() + self.gen(r, tier)
        outs = run_harness(binp, [s["line"] for s in scs], wall=900)
        missing = [i for i, o in enumerate(outs) if o is None]
        nohook = [i for i, o in enumerate(outs) if o == NOHOOK]
        instrumented = not (scs and len(nohook) == len(scs))
        summary = dict(obligations=proof["obligations"], discharged=proof["discharged"], theorems=proof["theorems"],
                       axioms=proof["axioms"], evaluations=len(scs), instrumented=instrumented, rule=self.rule)
        if not instrumented:
            msg = ("the registry's RwLock reports no lock event to the sync shim: src/registry.rs must import crate::verif_sync::RwLock "
                   "under cfg(prometheus_verif) (as src/vec.rs does); without it the concurrent part of C06 cannot observe the code")
            print("%s %s" % (tag, msg))
            summary.update(traces_validated_against_impl=0, explanation=msg, wall_s=round(time.time() - t0, 2))
            if not require_hook:
                return 0, summary, None
            p = write_replay("C06conc", seed, 0, dict(property=self.report_pid, part="concurrent", tier=tier, seed=seed, kind="no-failing-input-found",
                                                     scenario=scs[0], impl_trace=outs[0], broken=msg))
            return 1, summary, "VIOLATION property=%s replay=%s no-failing-input-found" % (self.report_pid, p)
        cases = [self.case_term(s, o if o else "[RgEStuck]") for s, o in zip(scs, outs)]
        failing, spec_failing, errors = self.compare(cases)
        for p, e in errors[:2]: print("COQ ERROR in", p, e[-1500:])
        nontriv = set(); nevents = 0
        kinds = collections.Counter(); skinds = collections.Counter()
        for s, o in zip(scs, outs):
            skinds[s["kind"].split("-")[0]] += 1
            if o:
                nevents += o.count(";") + 1
                for m in re.finditer(r"\b(RgCall \d+ \(?R\w+|RgLock \d+ \d+ L\w+ \w+|RgUnlock \d+ \d+ L\w+|RgDesc|RgCollect|RgRet \d+ \(?R\w+|RgPanic|RgOther|RgEStuck|RgEDeadlock|RgELivelock)", o):
                    kinds[re.sub(r"\d+ ", "", m.group(1))] += 1
                if self.nontrivial(s, o): nontriv.add(hashlib.sha1(s["line"].encode()).hexdigest())
        rc = 0; line = None
        proof_broken = not proof["ok"]

        def dump(i, kind, broken):
            payload = dict(property=self.report_pid, part="concurrent", tier=tier, seed=seed, kind=kind, scenario_index=i,
                           scenario=scs[i] if i is not None else None, impl_trace=outs[i] if i is not None else None, broken=broken,
                           first_rejected_event=self.explain(cases[i]) if i is not None else None,
                           explanation="replay with: python3 tools/check.py C06conc --replay <this file> ; the schedule in the scenario line reproduces the interleaving")
            return write_replay("C06conc", seed, i if i is not None else 0, payload)
        if spec_failing:
            i = spec_failing[0]
            p = dump(i, "failing-input", "no order of the completed calls, consistent with program order and real time, is explained by the "
                                         "sequential admission rule of C06 (Spec/SpecC06Conc.v spec_c06conc is false on the implementation's "
                                         "call/return markers): the calls did not behave as if executed one at a time")
            line = "VIOLATION property=%s replay=%s" % (self.report_pid, p); rc = 1
        elif failing or proof_broken or missing:
            found = None if replay else self.search_part(binp, seed, tier)
            if found:
                p = write_replay("C06conc", seed, 0, found)
                line = "VIOLATION property=%s replay=%s" % (self.report_pid, p); rc = 1
            else:
                if failing:
                    p = dump(failing[0], "no-failing-input-found", "trace validation: an event of the implementation's trace is not a step of the model "
                             "Model/RegConc.v (correspondence lemma: every validated trace is a path of the model, c06_conc_validator_sound)")
                elif missing:
                    p = dump(missing[0], "no-failing-input-found", "the harness produced no trace for this scenario (crash / hang)")
                else:
                    p = dump(None, "no-failing-input-found", "proof obligation no longer checks: %s; bad axioms %s; forbidden %s" % (
                        proof.get("failed_at"), proof["bad_axioms"], proof["forbidden"][:3]))
                line = "VIOLATION property=%s replay=%s no-failing-input-found" % (self.report_pid, p); rc = 1
        if errors and rc == 0:
            print("%s ERROR: Coq could not evaluate some case files" % tag); rc = 2
        summary.update(distinct_nontrivial=len(nontriv), traces_validated_against_impl=len(scs) - len(failing) - len(missing),
                       transitions=nevents, trace_rejections=len(failing), spec_failures=len(spec_failing),
                       conc_budget_exhausted=len(self.budget_cases), outside_theorem_domain=len(self.outside_domain), input_distribution=dict(event_kinds=dict(kinds), scenario_kinds=dict(skinds)),
                       samples=[(scs[i]["line"][:400] + " => " + (outs[i] or "")[:600]) for i in range(min(2, len(scs)))],
                       exhaustive=(tier == "thorough"), wall_s=round(time.time() - t0, 2))
        print("%s scenarios=%d events=%d nontrivial=%d rejected=%d spec_failures=%d budget_exhausted=%d outside_theorem_domain=%d wall=%.1fs rc=%d" % (
            tag, len(scs), nevents, len(nontriv), len(failing), len(spec_failing), len(self.budget_cases), len(self.outside_domain), time.time() - t0, rc))
        return rc, summary, line

    def search_part(self, binp, seed, tier, budget_s=60):
        """the trace validation failed but the spec holds everywhere: look harder for a failing input"""
        t0 = time.time(); k = 0
        while time.time() - t0 < budget_s:
            k += 1
            r = random.Random(seed * 1000 + k)
            scs = (corpus() if k == 1 else []) + self.gen(r, "thorough" if k > 1 else tier)[:600]
            outs = run_harness(binp, [s["line"] for s in scs], wall=600)
            cases = [self.case_term(s, o if o else "[RgEStuck]") for s, o in zip(scs, outs)]
            _, sf, errs = self.compare(cases, tag="search")
            if sf:
                i = sf[0]
                return dict(property=self.report_pid, part="concurrent", tier=tier, seed=seed, kind="failing-input", scenario=scs[i], impl_trace=outs[i],
                            broken="spec_c06conc is false on the implementation's trace (found by widened search, round %d): the calls did not "
                                   "behave as if executed one at a time" % k)
        return None

    # stand-alone: tools/check.py C06conc
    def run(self, tier, seed, replay=None):
        print("[%s] tier=%s seed=%d" % (self.pid, tier, seed))
        t0 = time.time()
        rc, summary, line = self.run_part(tier, seed, replay)
        if line: print(line)
        cov = dict(summary)
        cov.update(checker_cmd="make -C coq %s.vo (coqc 8.16.1, full .vo) + Print Assumptions allowlist + forbidden-word scan" % PINNED,
                   trusted_base=TRUSTED + ["axioms used: %s" % (", ".join(summary.get("axioms", [])) or "none")])
        # stand-alone runs do not touch evidence/: the registered evidence of C06 is written by tools/p_C06.py (key `concurrent`)
        d = os.path.join(BUILD, "evidence-parts"); os.makedirs(d, exist_ok=True)
        with open(os.path.join(d, "C06conc.json"), "w") as f:
            json.dump(dict(property_id="C06", part="concurrent", tier=tier, seed=seed, level="proof", coverage=cov, assumptions=self.assumptions,
                           wall_s=round(time.time() - t0, 2), violations=1 if rc == 1 else 0), f, indent=1, sort_keys=True, default=str)
        return rc


def run_concurrent_part(tier, seed, replay=None, require_hook=True, binp=None):
    """the concurrent part of the C06 check: (rc, summary dict for evidence/C06.json under the key `concurrent`, VIOLATION line or None).
    rc: 0 = pass, 1 = violation (the line to print is returned, not printed), 2 = infrastructure error."""
    return C06conc().run_part(tier, seed, replay=replay, require_hook=require_hook, binp=binp)
