"""C20  Registration macros are faithful shorthands for the explicit calls.

Flow of one run (verdict / evidence conventions as props.SeqProp.run):
 1. tools/macro_arms.py re-reads <repo>/src/macros.rs and regenerates coq/gen/MacroArms.v (arm inventory as token data);
    make Props/C20.vo + Spec/SpecC20.vo: inventory = pinned copy, every arm covered, every arm x comma x arity expands
    (in the macro_rules model) to the explicit-call normal form, semantic theorems; Print Assumptions allowlist, forbidden words;
 2. harness against the repository's working tree (harness/src/mac.rs invokes every public arm, compiled by rustc);
 3. generated value sets -> one `M` line each; the harness answers, per arm, with the observations of the macro invocation and
    of its explicit-call twin;
 4. case files under build/cases/C20/ (one case per value set x arm).  Inside Coq, per case:
      chk        the model (explicit-call term of that arm, expanded from the regenerated source, evaluated by eval_call
                 over Model/World.v) predicts the macro's observations, and World.run predicts the twin's
      chk_spec   spec_c20 (from the property text) holds between the IMPLEMENTATION's macro and twin observations
 5. verdict."""
from props import *
import collections, shutil, subprocess
import macro_arms, c20_arms
from c20_arms import ARMS

COQ_HDR_C20 = """Require Import PV.Base.Prelude PV.Base.F64 PV.Model.Proto PV.Model.Desc PV.Model.Value PV.Model.Hist PV.Model.Vec PV.Model.Registry PV.Model.World.
From Coq Require Import String.
Require Import PV.Model.Macros PV.Spec.SpecC20.
Open Scope N_scope.
Set Printing Width 1000000.
Set Printing Depth 1000000.
"""
CASE_T = "armrun"
CHK = "Definition chk := chk_model."
KIND = {"Counter": "KCounter", "IntCounter": "KIntCounter", "Gauge": "KGauge", "IntGauge": "KIntGauge", "Histogram": "KHistogram",
        "CounterVec": "KCounterVec", "IntCounterVec": "KIntCounterVec", "GaugeVec": "KGaugeVec", "IntGaugeVec": "KIntGaugeVec",
        "HistogramVec": "KHistogramVec"}


# ------------------------------------------------------------------------------------ value sets
def vs_wire(vs, only=None):
    t = (["M"] + w_str(vs["name"]) + w_str(vs["help"]) + w_str(vs["ns"]) + w_str(vs["sub"]) + w_pairs(vs["ocon"])
         + w_list(w_pairs)(vs["maps"]) + w_pairs(vs["cl"]) + w_pairs(vs["lp"]) + w_strs(vs["labels"]) + w_strs(vs["vals"])
         + w_list(w_f64)(vs["buckets"]) + w_f64(vs["x"]) + w_opt(w_str)(vs["prefix"]) + w_opt(w_pairs)(vs["rlabels"]))
    if only is not None: t += ["only", str(only)]
    return " ".join(t)


def vs_coq(vs):
    return "(mkVS %s %s %s %s %s %s %s %s %s %s %s %s %s %s)" % (
        c_str(vs["name"]), c_str(vs["help"]), c_str(vs["ns"]), c_str(vs["sub"]), c_pairs(vs["ocon"]), c_list(c_pairs)(vs["maps"]),
        c_pairs(vs["cl"]), c_pairs(vs["lp"]), c_strs(vs["labels"]), c_strs(vs["vals"]), c_list(c_f64)(vs["buckets"]), c_f64(vs["x"]),
        c_opt(c_str)(vs["prefix"]), c_opt(c_pairs)(vs["rlabels"]))


def shape(a):
    if a["kind"] != "reg": return "ShValue"
    return "(ShReg %s %s)" % ("true" if a["wr"] else "false", "true" if a["vec"] else "false")


def split_top(s):
    """splits the Gallina list `[a; b; ...]` at depth 1"""
    s = s.strip()
    assert s[0] == "[" and s[-1] == "]", s[:80]
    out, depth, cur = [], 0, []
    for ch in s[1:-1]:
        if ch in "([": depth += 1
        elif ch in ")]": depth -= 1
        if ch == ";" and depth == 0:
            out.append("".join(cur).strip()); cur = []
        else:
            cur.append(ch)
    last = "".join(cur).strip()
    if last: out.append(last)
    return out


def parse_line(out):
    """harness answer -> {arm id: (macro obs term, twin obs term)}"""
    res = {}
    for el in split_top(out):
        inner = el[1:-1]
        i = inner.index(",")
        aid = int(inner[:i])
        rest = inner[i + 1:].strip()
        # rest = "[..], [..]"
        depth = 0
        for j, ch in enumerate(rest):
            if ch in "([": depth += 1
            elif ch in ")]":
                depth -= 1
                if depth == 0: break
        res[aid] = (rest[:j + 1], rest[j + 1:].lstrip(", ").strip())
    return res


# ------------------------------------------------------------------------------------ generator
GOODL = ["a", "b", "c", "zone", "x_1", "A", "_u", "le_", "code"]


def gen_vs(r, idx, tier):
    valid = 0.93
    k = r.random()
    name = gens.metric_name(r, valid)
    name = name + "_s%d" % idx                 # names stay distinct across the value sets one harness process sees
    help_ = gens.help_text(r, 0.93)
    ns = gens.metric_name(r, 0.95, 3) if r.random() < 0.3 else ""
    sub = gens.metric_name(r, 0.95, 3) if r.random() < 0.3 else ""

    def lname():
        return r.choice(GOODL) if r.random() < 0.9 else gens.label_name(r, 0.5)

    def lmap(nmax=3):
        n = r.randint(0, nmax)
        m = []
        for _ in range(n):
            key = lname()
            if key in [x[0] for x in m]: continue
            m.append((key, gens.label_value(r)))
        return m
    ocon = lmap()
    nm = r.choice([0, 1, 1, 2, 2, 3])
    maps = [lmap() for _ in range(nm)]
    if len(maps) >= 2 and maps[0] and r.random() < 0.5:
        # a later map overrides a key of an earlier one
        key = maps[0][0][0]
        maps[-1] = [p for p in maps[-1] if p[0] != key] + [(key, gens.label_value(r))]
    cl = lmap()
    npairs = r.choice([0, 1, 2, 2, 3, 3])
    lp = [(lname(), gens.label_value(r)) for _ in range(npairs)]        # duplicate keys allowed: the last insert wins
    nl = r.choice([0, 1, 1, 2, 2, 3])
    labels = []
    for _ in range(nl):
        l = lname()
        if l in labels and r.random() < 0.9: continue
        labels.append(l)
    if r.random() < 0.04 and labels: labels[-1] = "le"
    vals = [gens.label_value(r) for _ in labels]
    if r.random() < 0.05: vals = vals[:-1] if vals else ["extra"]
    kb = r.random()
    buckets = gens.good_buckets(r) if kb < 0.75 else gens.any_buckets(r)
    x = r.choice([f64(0.0), f64(0.05), f64(0.5), f64(1.0), f64(3.0), f64(1e9), f64(-1.0)]) if r.random() < 0.9 else gens.some_float(r)
    prefix = None if r.random() < 0.5 else r.choice(["p", "my_prefix", "ns:x", "_", "P9"])
    rlabels = None
    if r.random() < 0.5:
        rlabels = []
        for _ in range(r.randint(0, 2)):
            key = r.choice(["reg", "env", "host_1", "zz"]) if r.random() < 0.8 else r.choice(GOODL)
            own = [n for n in labels + [p[0] for p in ocon] if re.match(r"^[a-zA-Z_][a-zA-Z0-9_]*$", n)]   # new_custom must accept the registry
            if own and r.random() < 0.2: key = r.choice(own)       # clashes with one of the metric's own labels: register refuses
            if key == "le": continue        # Registry::new_custom refuses the reserved name (the harness needs a registry that exists)
            if key in [p[0] for p in rlabels]: continue
            rlabels.append((key, gens.label_value(r)))
    return dict(name=name, help=help_, ns=ns, sub=sub, ocon=ocon, maps=maps, cl=cl, lp=lp, labels=labels, vals=vals, buckets=buckets,
                x=x, prefix=prefix, rlabels=rlabels)


class C20(SeqProp):
    pid = "C20"
    spec_import = "Require Import PV.Spec.SpecC20."
    spec_fn = "spec_c20"
    rule = ("a value set = (name, help, an Opts/HistogramOpts value with namespace/subsystem/constant labels, 0-3 label maps for opts!, "
            "a map for histogram_opts!, 0-3 pairs for labels!, 0-3 label names + values, a bucket list, an observed value, a custom "
            "registry with/without prefix and common labels); every value set is run through EVERY public arm (44 register arms x "
            "with/without trailing comma, labels!/opts! at the matching arity, the 3 histogram_opts! arms), each next to its "
            "explicit-call twin; an evaluation = one arm run; non-trivial = the macro invocation returned Ok (register arms) or built a "
            "value with at least one constant label (value arms); distinct = distinct (value set, arm)")
    assumptions = [
        "macro_rules! matching / transcription / recursive expansion is MODELLED (Model/MacroRules.v) for the fragment src/macros.rs uses "
        "($x:expr as one opaque expression, $x:ident, literal tokens, repetitions with separator, $crate, nested invocations); rustc's real "
        "expander is exercised only through the compiled harness (harness/src/mac.rs)",
        "the explicit-call terms are given meaning by hand (Model/Macros.v: ev_opts, ev_hopts, eval_call) over the sequential world model; "
        "that meaning is compared with the real crate on every arm run",
        "a constructor refused inside a register_* macro panics (the macros unwrap): the property text only speaks of refused REGISTRATIONS; "
        "the spec accepts any non-Ok outcome there and demands that nothing is registered",
        "HashMap iteration order inside opts! is not controlled (keys of one map are distinct, so the merged map does not depend on it)",
        "default-registry forms are run against the process-wide default registry; every returned handle is unregistered from it afterwards",
        "the one-time creation of the default registry (lazy_static) is not modelled; it is exercised by 40 (thorough: 400) fresh harness processes in which "
        "12 threads make the first use at once through register_int_counter! - a probabilistic stress that supports the check and proves nothing",
    ]

    def gen(self, r, tier):
        n = 40 if tier == "quick" else 160
        return [gen_vs(r, i, tier) for i in range(n)]

    # -------------------------------------------------------------------------------- evaluation of value sets
    def evaluate(self, binp, vss, only=None, tag="C20"):
        """runs the value sets; returns dict(cases, index, failing (model), spec, errors, missing, outs)"""
        lines = [vs_wire(vs, only) for vs in vss]
        outs = run_harness(binp, lines, wall=900)
        cases, index, missing = [], [], []
        for i, (vs, o) in enumerate(zip(vss, outs)):
            if not o or not o.startswith("["):
                missing.append(i); continue
            try:
                runs = parse_line(o)
            except Exception:
                missing.append(i); continue
            for a in ARMS:
                if only is not None and a["id"] != only: continue
                if a["id"] not in runs:
                    # value arms run only at the matching arity
                    if a["kind"] == "labels" and a["rep"] != len(vs["lp"]): continue
                    if a["kind"] == "opts" and a["rep"] != len(vs["maps"]): continue
                    missing.append(i); continue
                mo, to = runs[a["id"]]
                ak = "AValue" if a["kind"] != "reg" else "(AReg %s F%s)" % (KIND[a["ty"]], a["form"])
                cases.append(("(mkRun vs_%d %d \"%s\"%%string %d%%nat %d%%nat %s %s" % (
                    i, a["id"], a["macro"], a["arm"], a["natoms"], shape(a), ak), mo, to))
                index.append((i, a["id"], mo))
        d = os.path.join(BUILD, "cases", tag)
        shutil.rmtree(d, ignore_errors=True); os.makedirs(d)
        n = len(cases)
        nsh = min(NPROC, max(1, (n + 59) // 60))
        per = (n + nsh - 1) // nsh if n else 1
        files = []
        for k in range(nsh):
            lo, hi = k * per, min(n, (k + 1) * per)
            if lo >= hi: continue
            path = os.path.join(d, "cases_%d.v" % k)
            with open(path, "w") as f:
                f.write(COQ_HDR_C20)
                # one definition per case (a single huge list literal is several times slower to type-check), and every
                # distinct large observation of the shard is defined once (gathers repeat up to four times per arm run)
                interned = {}
                for i in sorted(set(index[j][0] for j in range(lo, hi))):
                    f.write("Definition vs_%d : vset := %s.\n" % (i, vs_coq(vss[i])))
                def share(lst):
                    parts = []
                    for o in split_top(lst):
                        if len(o) > 60:
                            if o not in interned:
                                interned[o] = "o_%d" % len(interned)
                                f.write("Definition %s : obs := %s.\n" % (interned[o], o))
                            parts.append(interned[o])
                        else:
                            parts.append(o)
                    return "[" + "; ".join(parts) + "]"
                for j in range(lo, hi):
                    head, mo, to = cases[j]
                    f.write("Definition c_%d : %s :=\n %s\n  %s\n  %s).\n" % (j, CASE_T, head, share(mo), share(to)))
                f.write("Definition cases : list (%s) := [%s].\n" % (CASE_T, "; ".join("c_%d" % j for j in range(lo, hi))))
                f.write("%s\nEval vm_compute in failing chk %d cases.\nEval vm_compute in failing chk_spec %d cases.\n" % (CHK, lo, lo))
            files.append(path)
        procs = [subprocess.Popen(["timeout", "900", "coqc", "-noglob", "-Q", COQ, "PV", p], stdout=subprocess.PIPE, stderr=subprocess.STDOUT, text=True)
                 for p in files]
        failing, spec, errors = [], [], []
        for p, path in zip(procs, files):
            out = p.communicate()[0]
            if p.returncode != 0:
                errors.append((path, out[-3000:])); continue
            ls = parse_nlist(out)
            if len(ls) > 0: failing += ls[0]
            if len(ls) > 1: spec += ls[1]
        return dict(cases=cases, index=index, failing=sorted(failing), spec=sorted(spec), errors=errors, missing=sorted(set(missing)),
                    outs=outs, lines=lines)

    def explain(self, vs, a, case_term):
        d = os.path.join(BUILD, "cases", "C20"); os.makedirs(d, exist_ok=True)
        path = os.path.join(d, "explain.v")
        with open(path, "w") as f:
            f.write(COQ_HDR_C20)
            f.write("Definition vs_0 : vset := %s.\n" % vs_coq(vs))
            f.write("Definition c : armrun := %s\n %s\n %s).\n" % (re.sub(r"^\(mkRun vs_\d+", "(mkRun vs_0", case_term[0]), case_term[1], case_term[2]))
            f.write("Eval vm_compute in (model_macro (run_vs c) (ar_macro c) (ar_arm c) (ar_natoms c), ar_mac c).\n")
            f.write("Eval vm_compute in (match ar_kind c, ar_shape c with AReg k f, ShReg wr _ => run world0 (twin_ops k f wr (run_vs c)) | _, _ => [] end, ar_twin c).\n")
        rc, out = coqc_file(path)
        return out[-6000:]

    def mac_rs_in_sync(self):
        src = open(os.path.join(HARNESS, "src", "mac.rs")).read()
        m = re.search(r"// ---- generated by tools/c20_arms.py \(begin\)\n(.*?)\n\s*// ---- generated by tools/c20_arms.py \(end\)", src, re.S)
        return bool(m) and m.group(1).strip() == c20_arms.rust_block().strip()

    # -------------------------------------------------------------------------------- the check
    def run(self, tier, seed, replay=None):
        try:
            return self._run(tier, seed, replay)
        finally:
            if REPO != "/repo":
                # a run against a scratch copy must not leave that copy's arms behind as the committed default file
                try: macro_arms.regenerate("/repo")
                except Exception as e: print("[C20] could not restore coq/gen/MacroArms.v from /repo: %s" % e)

    def _run(self, tier, seed, replay=None):
        t0 = time.time()
        pid = self.pid
        print("[%s] tier=%s seed=%d" % (pid, tier, seed))
        changed, macros = macro_arms.regenerate(REPO)
        narms = sum(len(a) for _, a in macros)
        print("[%s] arm inventory: %d macros, %d arms from %s/src/macros.rs (%s)" % (pid, len(macros), narms, REPO, "rewritten" if changed else "unchanged"))
        proof = check_props(pid, ["Spec/SpecC20.vo"])
        print("[%s] proofs: make_ok=%s theorems=%d axioms=%s bad=%s forbidden=%d" % (
            pid, proof["make_ok"], proof["obligations"], proof["axioms"], proof["bad_axioms"], len(proof["forbidden"])))
        if not proof["make_ok"]:
            print(proof["log"][-2500:])
        # Spec/SpecC20.v depends on definitions only (Model/MacroCases.v), so it builds even when a theorem about the regenerated arms breaks
        spec_ok = os.path.exists(os.path.join(COQ, "Spec", "SpecC20.vo"))
        if not spec_ok:
            ok_s, out_s = coq_make(["Spec/SpecC20.vo"])
            spec_ok = ok_s
            if not ok_s: print(out_s[-2000:])
        ok_h, out_h, binp = harness_build()
        if not ok_h:
            print(out_h[-3000:])
            print("[%s] ERROR: the harness does not build against the repository's working tree" % pid)
            write_evidence(pid, tier, seed, dict(obligations=proof["obligations"], discharged=0, checker_cmd="make Props/%s.vo" % pid,
                                                 trusted_base=TRUSTED, evaluations=0, distinct_nontrivial=0, rule=self.rule, samples=[],
                                                 explanation="harness build failed"), self.assumptions, time.time() - t0, 1)
            return harness_broken(pid, tier, seed, out_h)
        if not self.mac_rs_in_sync():
            print("[%s] ERROR: harness/src/mac.rs is out of sync with tools/c20_arms.py" % pid)
            return 2
        r = random.Random(seed)
        only = None
        if replay:
            rp = json.load(open(replay))
            vss = [de_json([rp["value_set"]])[0]] if rp.get("value_set") else []
            only = rp.get("arm_id")
        else:
            vss = self.gen(r, tier)
        ev = self.evaluate(binp, vss, only) if spec_ok else dict(cases=[], index=[], failing=[], spec=[], errors=[("Spec/SpecC20.v", "not built")], missing=[], outs=[], lines=[])
        if ev["errors"]:
            for p, e in ev["errors"][:2]: print("COQ ERROR in", p, e[-1500:])
        nontriv = set()
        arms_hit = collections.Counter()
        results = collections.Counter()
        for (i, aid, mo) in ev["index"]:
            a = ARMS[aid]
            arms_hit[a["macro"]] += 1
            if a["kind"] == "reg":
                parts = split_top(mo)
                res = parts[2] if len(parts) > 2 else "?"
                results["Ok" if res.startswith("ORes (Ok") else "Panic" if res == "OPanic" else "Err"] += 1
                if res.startswith("ORes (Ok"): nontriv.add((i, aid))
            else:
                results["value"] += 1
                if "mkLP" in mo: nontriv.add((i, aid))
        rc = 0
        proof_broken = not proof["ok"]

        def dump(j, kind, broken=None):
            if j is None:
                payload = dict(property=pid, tier=tier, seed=seed, kind=kind, broken=broken, value_set=None, arm_id=None)
                return write_replay(pid, seed, 0, payload)
            i, aid, mo = ev["index"][j]
            a = ARMS[aid]
            payload = dict(property=pid, tier=tier, seed=seed, kind=kind, scenario_index=i, arm_id=aid,
                           arm="%s! arm %d %s trailing comma" % (a["macro"], a["arm"], "with" if a["comma"] else "without"),
                           value_set=to_json([vss[i]])[0], scenario_wire=vs_wire(vss[i], aid),
                           impl_case=[x[:3000] for x in ev["cases"][j]], model_vs_impl=self.explain(vss[i], a, ev["cases"][j]), broken=broken,
                           explanation="replay with: python3 tools/check.py %s --replay <this file>" % pid)
            return write_replay(pid, seed, j, payload)

        spec_f, corr_f, missing = ev["spec"], ev["failing"], ev["missing"]
        if spec_f:
            j = spec_f[0]
            i, aid, _ = ev["index"][j]
            a = ARMS[aid]
            p = dump(j, "failing-input", "spec_c20 is false: %s! arm %d (%s trailing comma) does not behave like its explicit-call twin on this value set"
                     % (a["macro"], a["arm"], "with" if a["comma"] else "without"))
            print("[%s] failing arm: %s! arm %d %s trailing comma (arm id %d), value set %d" % (pid, a["macro"], a["arm"], "with" if a["comma"] else "without", aid, i))
            print("VIOLATION property=%s replay=%s" % (pid, p)); rc = 1
        elif corr_f or proof_broken or missing:
            found = None
            if not replay and spec_ok:
                found = self.search(binp, seed, tier)
            if found:
                p = write_replay(pid, seed, 0, found)
                print("VIOLATION property=%s replay=%s" % (pid, p)); rc = 1
            else:
                if corr_f:
                    p = dump(corr_f[0], "no-failing-input-found", "correspondence: the model's prediction (model_macro / World.run) differs from the implementation on this arm run")
                elif missing:
                    payload = dict(property=pid, tier=tier, seed=seed, kind="no-failing-input-found", value_set=to_json([vss[missing[0]]])[0],
                                   scenario_wire=ev["lines"][missing[0]], broken="the harness produced no (complete) answer for this value set")
                    p = write_replay(pid, seed, missing[0], payload)
                else:
                    p = dump(None, "no-failing-input-found", "proof obligation no longer checks: %s; bad axioms %s; forbidden %s" % (
                        proof.get("failed_at"), proof["bad_axioms"], proof["forbidden"][:3]))
                print("VIOLATION property=%s replay=%s no-failing-input-found" % (pid, p)); rc = 1
        # the FIRST use of the process-wide default registry, made by 12 threads at once, in fresh processes: every macro that names no
        # registry must land in the one registry prometheus::gather() reads (expected output fixed: the model has ONE default registry)
        fu_runs, fu_bad = 0, None
        if not replay or (replay and json.load(open(replay)).get("first_use")):
            nproc = 40 if tier == "quick" else 400
            expect = "D ok=12 missing=0 readmitted=0"
            def one(_):
                try:
                    return subprocess.run([binp], input="D 12\n", stdout=subprocess.PIPE, stderr=subprocess.DEVNULL, text=True, timeout=60).stdout.strip()
                except Exception as e:
                    return "D error %s" % type(e).__name__
            from concurrent.futures import ThreadPoolExecutor
            with ThreadPoolExecutor(max_workers=4) as ex:
                outs_fu = list(ex.map(one, range(nproc)))
            fu_runs = len(outs_fu)
            bad = [o for o in outs_fu if o != expect]
            if bad:
                fu_bad = bad[0]
                if rc == 0:
                    payload = dict(property=pid, tier=tier, seed=seed, kind="failing-input", first_use=True, scenario_wire="D 12", impl_obs=bad[0], expected=expect,
                                   processes=fu_runs, processes_failing=len(bad),
                                   broken="first use of the default registry by 12 threads at once (each runs register_int_counter! without naming a registry): "
                                          "a registration that returned Ok is missing from prometheus::gather() or can be registered twice - the macro did not "
                                          "register in THE default registry",
                                   explanation="replay with: python3 tools/check.py %s --replay <this file> (fresh processes; the race is probabilistic)" % pid)
                    p = write_replay(pid, seed, 0, payload)
                    print("[%s] first-use race: %d of %d processes: %s" % (pid, len(bad), fu_runs, bad[0]))
                    print("VIOLATION property=%s replay=%s" % (pid, p)); rc = 1
        if ev["errors"] and rc == 0:
            print("[%s] ERROR: Coq could not evaluate some case files" % pid)
            rc = 2
        nruns = len(ev["index"])
        cov = dict(obligations=proof["obligations"], discharged=proof["discharged"],
                   checker_cmd="python3 tools/macro_arms.py; make -C coq Props/%s.vo Spec/SpecC20.vo (coqc 8.16.1, full .vo) + Print Assumptions allowlist + forbidden-word scan" % pid,
                   trusted_base=TRUSTED + ["tools/macro_arms.py (Rust lexer for src/macros.rs)",
                                           "axioms used: %s" % (", ".join(proof["axioms"]) or "none (closed under the global context)")],
                   theorems=proof["theorems"], evaluations=nruns, value_sets=len(vss), distinct_nontrivial=len(nontriv), rule=self.rule,
                   samples=[(ev["lines"][i][:500] + " => " + (ev["outs"][i] or "")[:700]) for i in range(min(2, len(vss)))],
                   traces_validated_against_impl=nruns - len(corr_f), correspondence_mismatches=len(corr_f), spec_failures=len(spec_f),
                   known_finding_cases=0, default_registry_first_use_processes=fu_runs, default_registry_first_use_failures=(0 if fu_bad is None else 1), macros_in_source=len(macros), arms_in_source=narms, arm_runs_per_macro=dict(arms_hit),
                   input_distribution=dict(macro_results=dict(results),
                                           label_names=dict(collections.Counter(len(v["labels"]) for v in vss)),
                                           opts_maps=dict(collections.Counter(len(v["maps"]) for v in vss)),
                                           labels_pairs=dict(collections.Counter(len(v["lp"]) for v in vss)),
                                           registry_prefix=sum(1 for v in vss if v["prefix"]), registry_labels=sum(1 for v in vss if v["rlabels"])),
                   exhaustive=False)
        write_evidence(pid, tier, seed, cov, self.assumptions, time.time() - t0, 1 if rc == 1 else 0)
        print("[%s] value_sets=%d arm_runs=%d nontrivial=%d mismatches=%d spec_failures=%d missing=%d results=%s wall=%.1fs rc=%d" % (
            pid, len(vss), nruns, len(nontriv), len(corr_f), len(spec_f), len(missing), dict(results), time.time() - t0, rc))
        return rc

    def search(self, binp, seed, tier, budget_s=60):
        t0 = time.time()
        k = 0
        while time.time() - t0 < budget_s:
            k += 1
            r = random.Random(seed * 1000 + k)
            vss = [gen_vs(r, i, "thorough") for i in range(60)]
            ev = self.evaluate(binp, vss, tag="C20_search")
            if ev["spec"]:
                j = ev["spec"][0]
                i, aid, _ = ev["index"][j]
                a = ARMS[aid]
                return dict(property=self.pid, tier=tier, seed=seed, kind="failing-input", arm_id=aid,
                            arm="%s! arm %d %s trailing comma" % (a["macro"], a["arm"], "with" if a["comma"] else "without"),
                            value_set=to_json([vss[i]])[0], scenario_wire=vs_wire(vss[i], aid), impl_case=[x[:3000] for x in ev["cases"][j]],
                            broken="spec_c20 false on the implementation (found by widened search, round %d)" % k)
        return None
