"""C11  Gauge operations are atomic.

Flow of one run (class C11, machinery in atomic_conc.py / concprop.py):
 1. proofs: make Props/C11.vo (Model/AtomicConc, Proofs/AtomicConcFacts, Spec/SpecC11), Print Assumptions allowlist,
    forbidden-word scan;
 2. harness against the repository's working tree (sync shim on);
 3. scenarios `C gauge NF|NI | ...`: a real Gauge (f64: store, load, load / compare_exchange_weak loop, dec_by d =
    inc_by(-d)) or IntGauge (i64: store, load, fetch_add, fetch_sub), 2-3 threads, 1-4 calls each out of
    set / inc / dec / add / sub / get (at most 12 calls, so the spec's linearisation search is exhaustive);
    amounts: powers of two of both signs, add x ... sub x pairs, and in ~12% of the scenarios special values (i64 extremes
    that wrap; +-inf, NaN with a payload, -0.0, 1e308, 2^53+1: inexact float sums);
    schedules as for C01: forced preemption right after every load of the float loop, uniform / bursty / priority,
    spurious failures, rounds; thorough: every interleaving of the atomic steps of 2 x 2 and 3 x 1 configurations (set racing
    with add / sub, add racing with sub), every interleaving of all grants of small configurations, thousands of random ones;
 4. inside Coq: chk = trace_ok_fl (execution of the model, all threads returned); chk_spec = Spec/SpecC11.spec_c11
    (search for a real-time-consistent order of the calls that explains every returned value; read-subset for add-only traces);
 5. verdict as in concprop.ConcProp.run.
Gauges reached through a GaugeVec are the same GenericGauge / Value / Atomic* cell (vector scenarios are C10's)."""
from atomic_conc import *

I64_SPECIALS = [(1 << 63) - 1, -(1 << 63), -1, (1 << 62), -(1 << 62)]
F64_SPECIALS = [0x7ff0000000000000, 0xfff0000000000000, 0x7ff8000000000001, 0x8000000000000000, 1e308, 9007199254740993.0, 0.1, -1e308]


class C11(AtomicProp):
    pid = "C11"
    obj = "gauge"
    imports = IMPORTS + "\nRequire PV.Proofs.AtomicSpecFull PV.Proofs.AtomicSpecFloat."
    # the domain of c11_spec_of_validated_int / c11_spec_of_validated_float
    dom_def = ("Definition chk_dom (c : flavour * list event) : bool :=\n"
               "  match fst c with FlFloat => PV.Proofs.AtomicSpecFloat.dom11_float (snd c) | FlInt => PV.Proofs.AtomicSpecFull.dom11_int (snd c) end.")
    spec_def = ("Definition chk_spec (c : flavour * list event) : bool :=\n"
                "  spec_c11 (match fst c with FlFloat => true | FlInt => false end) (snd c).")
    rule = ("scenario = real Gauge (f64) or IntGauge (i64), 2-3 threads x 1-4 calls (<= 12) of set / inc / dec / add / sub / get with "
            "power-of-two amounts of both signs, add x ... sub x pairs and (12%) special values (wrapping i64 extremes, +-inf, NaN payload, -0.0, "
            "huge and inexact floats), run one atomic step at a time under a generated complete schedule (forced preemption right after each load "
            "of the float loop with another thread writing inside the window, uniform / bursty / priority, spurious compare-exchange failures, "
            "maximal-overlap rounds); thorough adds every interleaving of the atomic steps of 2x2 and 3x1 configurations and every interleaving "
            "of all grants of small ones.  non-trivial = calls of at least two threads overlap in real time in the implementation's trace and no "
            "thread hung or panicked; distinct = distinct scenario line")
    assumptions = ["interleaving semantics over the atomic operations of ONE cell (sequentially consistent per location); a relaxed get() returning "
                   "a stale value on hardware without multi-copy atomicity is not exhibited by the model; memory orderings are recorded, not constrained",
                   "NaN payloads are canonicalised on both sides (Coq has one NaN): set(NaN with payload) is compared as 'a NaN'",
                   "sub(x) undoes add(x): exact for IntGauge (mod 2^64); for Gauge it is binary64 arithmetic - proved when s + x is exact, refuted in general",
                   "the spec's linearisation search is exhaustive because scenarios have at most 12 calls (property: two to three threads)",
                   "children of GaugeVec reach the same GenericGauge -> Value -> AtomicF64 / AtomicI64 code (by inspection; vector scenarios are C10's)",
                   "sync shim, scheduler and harness are tested code, not verified"]

    def __init__(self):
        AtomicProp.__init__(self)
        # fixed scenarios that run first: set racing with an add inside the add's load / compare-exchange window; sub(x) after add(x)
        self.corpus = [
            self.scenario(True, [[("addf", 1.0), ("subf", 1.0), ("get",)], [("setf", 2.0), ("get",)]],
                          "0 1 0 1 1 0 0 0 0 1 1 1 0 0 0 0 0 0 0", "corpus-window"),
            self.scenario(False, [[("addi", 5), ("subi", 5), ("get",)], [("seti", -3), ("dec",), ("get",)]],
                          "0 1 1 0 0 1 0 1 0 1 1 0 0 1 1 1", "corpus-window"),
        ]

    def amount(self, r, isf, special):
        if special and r.random() < 0.5:
            return r.choice(F64_SPECIALS) if isf else r.choice(I64_SPECIALS)
        e = r.randint(-4, 12) if isf else r.randint(0, 30)
        v = (2.0 ** e) if isf else (1 << e)
        return -v if r.random() < 0.3 else v

    def programs(self, r, isf, nthreads=None):
        n = nthreads or r.choice([2, 2, 3])
        special = r.random() < 0.12
        maxc = 4 if n == 2 else r.choice([2, 3, 4])
        progs = []
        sfx = "f" if isf else "i"
        for t in range(n):
            p = []
            m = r.randint(1, maxc)
            while len(p) < m:
                k = r.random()
                if k < 0.18: p.append(("set" + sfx, self.amount(r, isf, special)))
                elif k < 0.28: p.append(("inc",))
                elif k < 0.38: p.append(("dec",))
                elif k < 0.53: p.append(("add" + sfx, self.amount(r, isf, special)))
                elif k < 0.65: p.append(("sub" + sfx, self.amount(r, isf, special)))
                elif k < 0.75 and len(p) + 2 <= m:
                    x = self.amount(r, isf, special)
                    p.append(("add" + sfx, x)); p.append(("sub" + sfx, x))          # sub(x) undoes add(x)
                else: p.append(("get",))
            if r.random() < 0.6 and len(p) < 4 and p[-1] != ("get",):
                p.append(("get",))
            progs.append(p[:4])
        return progs

    def random_scenario(self, r):
        isf = r.random() < 0.6
        progs = self.programs(r, isf)
        style = r.choice(STYLES if isf else ["uniform", "bursty", "pct", "rounds", "rounds", "uniform"])
        return self.scenario(isf, progs, make_schedule(r, isf, progs, style), style)

    def exhaustive(self):
        scs = []
        g = ("get",)
        tight = [
            (True, [[("addf", 1.0), g], [("setf", 8.0), g]], 1), (True, [[("addf", 1.0), ("subf", 1.0)], [("addf", 2.0), g]], 1),
            (True, [[("addf", 1.0)], [("subf", 2.0)], [("setf", 4.0)]], 0), (True, [[("inc",)], [("dec",)], [g]], 1),
            (True, [[("setf", 0x7ff8000000000001), g], [("addf", 1.0), g]], 0),
            (False, [[("addi", 1), ("subi", 1)], [("seti", -5), g]], 0), (False, [[("inc",)], [("dec",)], [("seti", 7)]], 0),
        ]
        for isf, progs, sp in tight:
            for s in enumerate_schedules(isf, progs, tight=True, max_spur=sp):
                scs.append(self.scenario(isf, progs, s, "exhaustive-atomic"))
        loose = [(False, [[("addi", 4), g], [("subi", 4), g]]), (False, [[("seti", -1)], [("addi", 2)], [g]]),
                 (True, [[("addf", 1.0)], [("setf", 2.0)]]), (True, [[("addf", 1.0), g], [("subf", 1.0)]])]
        for isf, progs in loose:
            for s in enumerate_schedules(isf, progs, tight=False, max_spur=0):
                scs.append(self.scenario(isf, progs, s, "exhaustive-all-grants"))
        return scs

    def gen(self, r, tier):
        n = 900 if tier == "quick" else 8000
        scs = [self.random_scenario(r) for _ in range(n)]
        if tier != "quick":
            scs += self.exhaustive()
        else:
            progs = [[("addf", 1.0), ("get",)], [("setf", 8.0)]]
            scs += [self.scenario(True, progs, s, "exhaustive-atomic") for s in enumerate_schedules(True, progs, tight=True, max_spur=1)]
        return scs
