#!/usr/bin/env python3
"""prints the markdown table of seeded changes (DESIGN.md section 13) from seeded/*/meta.json"""
import glob, json, os
rows = []
for m in sorted(glob.glob(os.path.join(os.path.dirname(os.path.dirname(os.path.abspath(__file__))), "seeded", "*", "meta.json"))):
    d = json.load(open(m)); sid = os.path.basename(os.path.dirname(m))
    caught = [k for k, v in d["checks"].items() if v["caught"]]
    missed = [k for k, v in d["checks"].items() if not v["caught"]]
    kinds = []
    for k in caught:
        line = d["checks"][k]["violation_line"] or ""
        kinds.append(k + (" (no-failing-input-found)" if "no-failing-input-found" in line else ""))
    rows.append("| %s | %s | %s | %s | %s |" % (sid, d["change"].replace("|", "\\|"), d["needs_to_manifest"].replace("|", "\\|"),
                                            ", ".join(kinds) or "-", ", ".join(missed) or "-"))
print("| id | change | needs to manifest | reported by (quick tier) | run against, silent |")
print("|---|---|---|---|---|")
print("\n".join(rows))
