"""C18  A timer records its duration exactly once, or never when discarded."""
from props import *

SECS = [0, 0, 1, 1, 3, 12, 100, 86400, 2 ** 32, 2 ** 53 + 1, 2 ** 64 - 1]
NANOS = [0, 1, 250000000, 500000000, 999999999, 123456789]
MODES = ["TRecord", "TObserve", "TDiscard", "TDrop"]


class Scen:
    """one history over ONE shared histogram (plain, or a child of a histogram vector), 0-2 local histograms of it (+ clones), and any
    number of shared and local timers started and ended at arbitrary points"""

    def __init__(self, r):
        self.r = r
        self.s = Slots()
        self.kind = {}
        self.bounds = []

    def new(self, kind, *op):
        i = self.s.emit(*op)
        self.kind[i] = kind
        return i

    def of(self, *kinds):
        return [i for i, k in self.kind.items() if k in kinds]

    def pick(self, *kinds):
        c = self.of(*kinds)
        return self.r.choice(c) if c else None

    def elapsed(self):
        r = self.r
        return r.choice(SECS), (r.choice(NANOS) if r.random() < 0.8 else r.randint(0, 999999999))

    def setup(self):
        r = self.r
        self.bounds = r.choice([[f64(0.005), f64(0.5), f64(1.0), f64(2.5)], [f64(1.0)], gens.good_buckets(r), [], [gens.PINF]])   # [+Inf] alone: no finite bound at all
        o = mkopts(r.choice(["lat", "h", "req_seconds"]), "help")
        if r.random() < 0.75:
            self.new("H", "OpHistogram", dict(opts=o, buckets=self.bounds))
        else:
            v = self.new("V", "OpHistVec", dict(opts=o, buckets=self.bounds), ["l"])
            self.new("H", "OpWith", v, [r.choice(["a", "b", ""])])
            if r.random() < 0.5: self.new("H", "OpWith", v, ["other"])
        for _ in range(r.choice([0, 1, 1, 2])):
            self.new("LH", "OpLocal", self.pick("H"))

    def read(self, p=0.85):
        r = self.r; s = self.s
        if r.random() > p: return
        h = self.pick("H")
        s.emit("OpSampleCount", h)
        if r.random() < 0.8: s.emit("OpSampleSum", h)
        k = r.random()
        if k < 0.25:
            l = self.pick("LH")
            if l is not None: s.emit(r.choice(["OpSampleCount", "OpSampleSum"]), l)
        elif k < 0.40:
            s.emit("OpCollect", self.pick("H", "V"))

    def stop(self, t, mode=None):
        r = self.r
        mode = mode or r.choice(MODES)
        secs, nanos = self.elapsed()
        extra = ("T",) if self.kind[t] == "T" and r.random() < 0.4 else ()      # moved to and ended on another thread
        self.kind[t] = "dead"
        self.s.emit("OpTimerStop", t, mode, secs, nanos, *extra)

    def step(self):
        r = self.r; s = self.s
        k = r.random()
        if k < 0.14:
            self.new("T", "OpTimer", self.pick("H"))
        elif k < 0.28:
            l = self.pick("LH")
            if l is None: self.new("LH", "OpLocal", self.pick("H"))
            else: self.new("LT", "OpTimer", l)
        elif k < 0.55:
            t = self.pick("T", "LT")
            if t is None: self.new("T", "OpTimer", self.pick("H"))
            else: self.stop(t)
        elif k < 0.62:
            secs, nanos = self.elapsed()
            s.emit("OpClosure", self.pick("H", "LH", "H"), secs, nanos)
        elif k < 0.70:
            l = self.pick("LH")
            if l is not None: s.emit("OpObserve", l, gens.some_float(r, [f64(0.25), f64(1.0), f64(3.0), f64(0.0), NAN]))
        elif k < 0.78:
            l = self.pick("LH")
            if l is not None: s.emit("OpFlush", l)
        elif k < 0.82:
            l = self.pick("LH")
            if l is not None: s.emit("OpClear", l)
        elif k < 0.87:
            l = self.pick("LH")
            if l is not None:
                s.emit("OpDrop", l); self.kind[l] = "dead"            # timers started from it live on
        elif k < 0.91:
            l = self.pick("LH")
            if l is not None: self.new("LH", "OpClone", l)
        elif k < 0.96:
            s.emit("OpObserve", self.pick("H"), f64(r.choice([0.0, 0.5, 2.0])))
        elif k < 0.98:
            self.new("LH", "OpLocal", self.pick("H"))
        else:                                                          # a second stop of an ended timer / a drop of a timer slot: refused
            t = self.pick("dead", "T", "LT")
            if t is not None:
                if self.kind[t] == "dead": s.emit("OpTimerStop", t, r.choice(MODES), 1, 0)
                else: s.emit("OpDrop", t)

    def run(self, n):
        self.setup()
        self.read(0.5)
        for _ in range(n):
            self.step()
            self.read()
        # end some of the timers still running, in random order, reading after each
        live = self.of("T", "LT"); self.r.shuffle(live)
        for t in live:
            if self.r.random() < 0.7:
                self.stop(t); self.read(1.0)
        for l in self.of("LH"):
            if self.r.random() < 0.5: self.s.emit(self.r.choice(["OpFlush", "OpDrop"]), l)
        h = self.pick("H")
        self.s.emit("OpSampleCount", h); self.s.emit("OpSampleSum", h); self.s.emit("OpCollect", h)
        return self.s.ops


class C18(SeqProp):
    pid = "C18"
    spec_import = "Require Import PV.Spec.SpecC18.\nRequire PV.Proofs.C12Spec."
    dom_fn = "PV.Proofs.C12Spec.ops_in_domain"     # the domain of c12_spec_model / c18_spec_model
    spec_fn = "spec_c18"
    rule = ("each scenario is a history over one shared histogram (plain or a vector child) and 0-2 local histograms of it plus clones: timers are "
            "started on shared and local handles and ended in all four ways (stop_and_record, observe_duration, stop_and_discard, drop; shared "
            "timers also after being moved to another thread) in arbitrary order, including local timers that outlive a flush / clear / drop "
            "of the local histogram they came from; observe_closure_duration on both kinds; second stops of ended timers; Instant::elapsed is "
            "a scenario input (0 s ... 2^64-1 s, 0 ... 999999999 ns); count and sum of the shared histogram (and of locals, and collections) are "
            "read after almost every operation; non-trivial = at least one live timer was ended or a closure was timed; distinct = distinct "
            "scenario text")
    assumptions = ["Instant::elapsed / Duration::as_secs_f64 are std: the elapsed time is an input (clock override hook under --cfg prometheus_verif); "
                   "saturation of a non-monotonic clock at zero is std's saturating_duration_since",
                   "one timer is ended by one thread (Rust ownership: every stop method takes self); concurrent observers are C02/C03",
                   "fewer than 2^63 observations per histogram",
                   "the nightly-only coarse timers are not built"]

    def gen(self, r, tier):
        n = 600 if tier == "quick" else 6000
        return [Scen(r).run(r.randint(5, 40)) for _ in range(n)]

    def nontrivial(self, ops, o):
        started = set(); n = 0
        for op in ops:
            if op[0] in CTOR_OPS:
                if op[0] == "OpTimer": started.add(n)
                n += 1
            if op[0] == "OpClosure": return True
            if op[0] == "OpTimerStop" and op[1] in started: return True
        return False

