"""What MANIFEST.json says per property.  `python3 tools/mkmanifest.py` regenerates MANIFEST.json from this table;
a property is claimed iff it has an entry in CLAIMS *and* tools/p_<id>.py + coq/Props/<id>.v exist."""

TECH = "machine-checked proof in Coq (Rocq) over an executable Gallina model + differential correspondence check against the implementation"
TECH_CONC = ("machine-checked proof in Coq (Rocq) over an executable Gallina model of the atomic steps + step-by-step trace validation of "
             "the real code run under a deterministic scheduler (sync shim)")

COMMON_NOTE = ("Trusted: Coq 8.16.1 kernel + vm_compute (no native_compute, no extraction); the hand-written model (checked by the "
               "correspondence run of every check, not verified); Rust harness, Python driver; Rust std / fnv / parking_lot / rust-protobuf "
               "are modelled, not verified. ")

CLAIMS = {
    "C15": dict(
        text="Theorems in coq/Props/C15.v (proved for all strings, label maps and insertion orders): the bytes hashed for id / dim_hash are "
             "injective functions of (name, constant values in name order) / (help, constant-name set, variable-name set); Desc::new is "
             "invariant under permutation of the constant-label map; hence identity iff up to 64-bit collisions. Tied to the code by running "
             "the real Desc::new on generated descriptor groups and comparing id, dim_hash and label pairs bit for bit with the Gallina "
             "model inside Coq; an executable spec written from the property text is evaluated on the implementation's own output.",
        note="Model of src/desc.rs; fnv crate modelled as FNV-1a-64; HashMap order not controlled (fresh map per call). No axioms.",
        ref="DESIGN.md section 4, C15"),
    "C09": dict(
        text="Theorems in coq/Props/C09.v for all code-point strings: the two validators accept exactly [a-zA-Z_:][a-zA-Z0-9_:]* and "
             "[a-zA-Z_][a-zA-Z0-9_]* (ASCII only); Desc::new / Opts / histogram and vector constructors / Registry::new_custom succeed iff "
             "the stated conditions (help non-empty, names valid, constant+variable names duplicate-free, no le on histograms, valid prefix "
             "and common label names); register refuses a clash with common labels; every family name and label-name list in gather() of "
             "library collectors is valid and duplicate-free, prefix and common labels included. Tied to the code by generated strings "
             "(ASCII, non-ASCII letters/digits, empty) pushed through every constructor and through registries, results and gathered "
             "names compared with the model inside Coq; executable spec evaluated on the implementation's gather output.",
        note="Model of desc.rs, metrics.rs (Opts), histogram.rs / vec.rs constructors, registry.rs new_custom/register/gather. "
             "Print Assumptions lists only kernel primitives (floats appear in the world model's values).",
        ref="DESIGN.md section 4, C09"),
    "C08": dict(
        text="Theorems in coq/Props/C08.v over Coq's primitive binary64 floats (bit-exact with Rust's f64): a bucket list is accepted iff "
             "(default substituted for empty) no bound is NaN and each bound < its successor, trailing +inf dropped; for every accepted "
             "configuration and every history of observe / collect (and local observe / flush), each collection reports for bound b_j "
             "exactly #{v | v <= b_j}, count = number of observations, sum = left fold of + from +0 bit for bit; NaN and too-large values "
             "land in no finite bucket. Tied to the code by histories over float pools (NaN, +-0, subnormals, +-inf, bounds and their "
             "neighbours) on Histogram, HistogramVec children and LocalHistogram, compared inside Coq.",
        note="Axioms: the standard library's FloatAxioms (specification of primitive floats) and, through Flocq, Classical_Prop.classic and "
             "ClassicalDedekindReals.sig_not_dec. Sequential (one thread); the concurrent statement is C02/C03.",
        ref="DESIGN.md section 4, C08"),
    "C05": dict(
        text="Theorems in coq/Props/C05.v for all label-name lists, tuples of arbitrary scalar-value strings and histories: the bytes hashed "
             "for a tuple are injective in the tuple (boundary shifts, empty values, any characters); two requests on one vector (positional, "
             "or map form = positional on the values in declared order, independent of map iteration / key order) return the same child iff "
             "the tuples are equal, under the explicit hypothesis that the two hashed byte strings do not collide under FNV-1a-64 "
             "(c05_same_child_iff, c05_with_same_child_iff); a new child carries exactly (declared names x values) ++ constant labels sorted "
             "by name and starts at zero / as the empty histogram; a request is Ok iff cardinality / key set match, and an Err appends a dead "
             "handle only; local vector caches always target the vector's own child for the key. The unconditional iff is refuted "
             "(c05_refuted_collision) = known finding C05-fnv-collision, reported as KNOWN-FINDING; any other sharing/splitting of children "
             "is a VIOLATION. Tied to the code by running the real CounterVec/IntCounterVec/GaugeVec/IntGaugeVec/HistogramVec and both local "
             "vectors on generated request sequences over all cuts of short strings, compared with the Gallina model inside Coq, plus an "
             "executable spec written from the property text (abstract tuple->child ledger, children observed through power-of-two updates) "
             "evaluated on the implementation's own observations.",
        note="Model of src/vec.rs hash_label_values / hash_labels / get_or_create / delete, value.rs make_label_pairs, local vec caches. "
             "Same-child theorems cover histories without remove/reset between the two requests (a later request creates a new child by "
             "design). Histogram vectors assumed to have valid buckets. Print Assumptions lists only kernel primitives. No theorem links "
             "spec_c05 to the model (the correspondence run does).",
        ref="DESIGN.md section 4 C05 and section 13"),
    "C06": dict(
        text="Theorems in coq/Props/C06.v (24 statements, for all registries, collectors and histories): register is Ok iff no descriptor "
             "equals a registered one, none clashes with a common label, none disagrees with a descriptor ever registered under its name or "
             "with another descriptor of the collector, none is listed twice and the collector is not already registered; the error kind "
             "(AlreadyReg / Msg) follows the first objectionable descriptor; a refused registration returns the identical state, so every "
             "continuation of every history is unaffected (c06_failed_is_noop / _invisible, no hypothesis); unregister is Ok iff the "
             "collector is registered, removes exactly it and it can be registered again; gather after unregister collects only from the "
             "remaining collectors; every register/unregister history on a fresh registry refines a hash-free abstract registry "
             "(c06_history_refines_spec). The iff statements carry explicit no-64-bit-collision hypotheses; without them the iff is refuted "
             "by a concrete FNV-1a collision of two valid names (c06_refuted_collision) = known finding C06-fnv-collision. Tied to the code "
             "by generated histories (3-25 calls, library and custom collectors with 1-4 overlapping descriptors, all short histories over "
             "a 6-collector pool) run on the real Registry and compared observation by observation with the model inside Coq; spec_c06 "
             "replays the implementation's own answers on a structural abstract registry.",
        note="Model of registry.rs register/unregister (after b8e028c and c627cf3). A collector's identity is the set of its descriptors; "
             "where a collector has both an equal-registered and another objectionable descriptor either error kind is accepted (the text "
             "gives no priority). No axioms (only kernel float/int primitives are listed).",
        ref="DESIGN.md section 4 C06 and section 13"),
    "C07": dict(
        text="Theorems in coq/Props/C07.v for all collected family lists, prefixes and common-label maps: gather returns one family per "
             "name, names strictly increasing, no empty family, every collected sample exactly once and nothing else, samples sorted by "
             "the lexicographic comparator, help/type from the collectors, prefix and (name-sorted) common labels applied to everything; "
             "the result is invariant under every permutation of collectors, of each vector's children and of the common-label map "
             "(under C14's same-kind hypothesis and descriptor distinctness, which the library's collectors satisfy). Tied to the code by "
             "collector sets registered in different orders on several fresh registries (fresh HashMap seeds) with back-to-back gathers "
             "compared with the model and with each other inside Coq.",
        note="Model of registry.rs gather + collect of all collector kinds. HashMap order is quantified over (permutations) in the theorems "
             "and sampled through fresh maps in the correspondence. Mixed-kind families are C14's known finding.",
        ref="DESIGN.md section 4, C07"),
    "C13": dict(
        text="Theorems in coq/Props/C13.v (20 obligations): decode_stream (encode_stream fams) = Some fams for all well-formed families with "
             "every optional field set or unset and doubles as 64-bit patterns (every NaN payload); the stream is self-delimiting and nothing "
             "else is in it (c13_stream_boundaries, c13_nothing_else); exact writer contents in every outcome (old buffer, one varint-length "
             "+ body frame per accepted family up to the first refused one); Err exactly when a family has no name or no metrics; gather "
             "stays in the well-formed domain; the independent decoder dispatches on a field table that equals, by a proof obligation "
             "regenerated on every run (c13_schema), the table parsed from /repo/proto/proto_model.proto. Tied to the code by running the "
             "real ProtobufEncoder on generated families (half built through the setters, half wire-level literals with arbitrary unset "
             "fields), comparing the bytes with the model inside Coq and evaluating the independent decoder (spec_c13) on the "
             "implementation's own bytes.",
        note="rust-protobuf 3.7.2 and the generated proto_model.rs are modelled by hand and tied only by the byte comparison; unknown fields "
             "and messages above i32::MAX bytes are not generated; the writer never fails here (C17 covers failing writers); the .proto is "
             "read by the plugin's own parser (unsupported constructs break c13_schema rather than being ignored). Axioms: FloatAxioms "
             "Prim2SF_valid, SF2Prim_Prim2SF (bits2f/f2bits round trip) only.",
        ref="DESIGN.md section 4 C13 and section 13"),
    "C14": dict(
        text="Theorems in coq/Props/C14.v: if collected families of one name agree on the type, every gathered sample carries the payload "
             "of its family's type and the type is permutation-invariant (c14_homogeneous_if, c14_type_perm_invariant); the "
             "unconditional statement is refuted with a concrete registry (c14_refuted: Counter x{k=1} + Gauge x{k=2}) - recorded as "
             "known finding C14-mixed-kinds, reported as KNOWN-FINDING; any other way of mixing types is a VIOLATION. Tied to the code "
             "as C07, plus deliberately mixed kinds, with the class predicate known_c14 evaluated in Coq on each failing case.",
        note="A Desc carries no metric type, so the defect is not a small repair (see DESIGN.md section 10).",
        ref="DESIGN.md section 4, C14"),
}


CLAIMS.update({
    "C04": dict(
        text="Theorems in coq/Props/C04.v (26 obligations, all at full strength, whole-stream and byte-level): c04_roundtrip: for all family "
             "lists with valid metric/label names, arbitrary code-point help and label values, arbitrary values, timestamps, bucket and "
             "quantile lists, and any number-printing oracle meeting the stated contract, encode fams = Ok out -> parse out = Some (view fams) "
             "with an independent parser of text format 0.0.4 (histograms regrouped from cumulative buckets + +Inf bucket = count, _sum, "
             "_count); c04_line_count / c04_shape_only / c04_no_raw_lf: the number of lines is a function of the shape only and no help or "
             "label value contains a raw LF after rendering; c04_append_only / c04_entry_points: encode buf = buf ++ encode [] and the three "
             "entry points are one function; c04_utf8; c04_err_iff (no metric, no name, UNTYPED); c04_spec_model: the executable spec is true "
             "of the model's five answers for every input. Tied to the code by running the real TextEncoder five ways (encode / encode_utf8 "
             "with empty and pre-filled buffers, encode_to_string) on generated family lists; inside Coq the bytes are compared with the "
             "model, spec_c04 (independent parser) is evaluated on the implementation's bytes and the oracle contract is checked on every "
             "number token with an exact decimal->binary64 parser.",
        note="f64::to_string / integer to_string are Rust std: oracles whose contract is a theorem hypothesis checked on every token of every "
             "run. Reading of format 0.0.4: exactly one blank after '# HELP name', rest verbatim (the Go parser strips further leading blanks; "
             "no encoder could protect them). Read-back is claimed for valid names where a histogram (summary) metric has no own label le "
             "(quantile). The writer never fails here (C17). Only axiom: FloatAxioms.SF2Prim_Prim2SF.",
        ref="DESIGN.md section 4 C04 and section 13"),
    "C12": dict(
        text="Theorems in coq/Props/C12.v (27 theorems + 4 examples) for every world and every finite history of the sequential world model: a "
             "shared counter equals the fold, in the order applied, of its direct updates and the flushed local amounts; a shared histogram "
             "equals (up to which shard is hot) the fold of direct observations and of the batches handed over by flush, drop, "
             "remove_label_values and local timers, count and sum bit-exact, interleaved collections change nothing; a local holds exactly "
             "what was accumulated since its last flush/reset/creation; a second flush leaves the whole world unchanged; reset/clear touch "
             "only the local; a clone is empty; dropping a local histogram (vector) equals a flush, dropping a local counter discards; "
             "vector flushes hand over every cache entry and nothing else; the world invariant holds initially and is kept by every step. "
             "Tied to the code by histories (1-3 locals + clones of a shared counter/histogram and of a vector with 2-3 children, 5-40 "
             "operations, drops and second flushes anywhere, reads after most operations) run on the real crate and compared step by step "
             "with the model inside Coq; spec_c12 keeps books of direct updates + flushed batches from the operations alone and judges "
             "every value the implementation shows.",
        note="Model of the local types of counter.rs / histogram.rs. One thread; non-negative increments; no overflow of a local u64 counter; "
             "fewer than 2^63 observations per histogram; distinct tuples do not collide under FNV (C05). No theorem links spec_c12 to the "
             "model (the correspondence run does). Axioms: FloatAxioms + Flocq's classical / real-number axioms (classic, sig_not_dec).",
        ref="DESIGN.md section 4 C12 and section 13"),
    "C18": dict(
        text="Theorems in coq/Props/C18.v (15 theorems + 4 examples): after any history the shared count is the previous count plus non-timer "
             "contributions plus exactly one per timer ended by stop_and_record / observe_duration / drop and per observe_closure_duration; "
             "discarded timers change nothing but their own slot; the sum is the bit-exact fold in which a timer adds its elapsed value; the "
             "elapsed seconds (Duration -> f64) are PROVED never negative, never NaN and never -0 for all values of Instant::elapsed; a local "
             "timer's observation goes straight to the shared histogram and bypasses the parent local's pending batch; a second stop is "
             "refused; a running timer is unaffected by any other operation (incl. flush/clear/drop of its parent local). Tied to the code by "
             "histories with shared and local timers ended in all four modes (shared ones also on another thread), timers outliving their "
             "local, closures, elapsed time as a scenario input (clock override hook), count and sum read after almost every operation.",
        note="Instant / Duration are std, reached through the cfg(prometheus_verif) clock override. Ownership (every stop method takes self) "
             "is what makes one stop per timer true of the code; it is modelled and the count after each stop is compared. Axioms: "
             "FloatAxioms + Flocq's classical / real-number axioms.",
        ref="DESIGN.md section 4 C18 and section 13"),
    "C20": dict(
        text="Theorems in coq/Props/C20.v (18): the arm list of src/macros.rs, re-lexed into coq/gen/MacroArms.v on every run (26 macros, 57 "
             "arms), equals the pinned one (c20_inventory) and every arm has an invocation case; for each of 73 cases (with and without "
             "trailing comma; labels!/opts! with 0..4 repetitions) full expansion under an executable model of macro_rules! yields exactly "
             "the Rust spelling of the explicit-call term (c20_arm_expansion, by vm_compute); for ALL argument values and worlds the term "
             "means: explicit constructor with those opts/labels/buckets, then register on the named or default registry; on Ok only that "
             "registry changes, by exactly the metric behind the returned handle; a refused registration evaluates to that Err and changes "
             "nothing; an increment through the returned handle is what that registry's next gather shows (scalar counters/gauges). Tied "
             "to the code by a compiled harness invoking every public arm next to its explicit-call twin on run-time argument values; Coq "
             "checks model = macro observations = twin observations and the executable spec between macro and twin.",
        note="macro_rules! semantics are modelled for the fragment used (expr atoms, ident, literal tokens, separated repetitions, $crate, "
             "ordered arms, nested invocations); rustc's expander is exercised only through the compiled harness; the lexer tools/macro_arms.py "
             "and the hand-written meaning of explicit-call terms are trusted/compared on every run. A constructor refused inside a register "
             "macro panics (the macros unwrap): the spec demands only that nothing is registered then. The update-visible-in-gather theorem "
             "is proved for scalar counters/gauges; for histograms/vectors handle identity is the structural statement.",
        ref="DESIGN.md section 4 C20 and section 13"),
})


CLAIMS.update({
    "C02": dict(
        text="Theorems in coq/Props/C02.v (17), for any number of observer / flusher / collector threads, all interleavings of the atomic steps "
             "and every ordering assignment satisfying sufficient_orderings: every snapshot returned equals the summary of a ticket "
             "(claim-order) prefix with L0 <= K <= L1 (ticket counts at the collection's call and return markers); what the caller receives "
             "is |S|, sum S and per bound #{v in S | v <= b} for S = the values of the calls in the prefix; prefixes are closed under each "
             "thread's program order; release on the publish and acquire on the wait exit are each necessary in the model (refutation "
             "paths c02_release_needed / c02_acquire_needed); sufficient_orderings source_orderings is re-proved on every run from orderings "
             "re-read from src/histogram.rs (coq/gen/HistOrderings.v) and the same orderings are demanded on the implementation's events. "
             "Tie: the real Histogram is run one atomic step at a time under the sync shim on generated schedules (targeted preemption at "
             "claim / publish / flip); each trace is validated event by event by the executable model inside Coq (every accepted event is "
             "a stutter or one step of the relation, hexec_sound) and an executable spec that decodes S from power-of-two sums is "
             "evaluated on the call/return markers.",
        note="Operational intra-call reordering model of the memory orderings; its relation to the axiomatic Rust/C++ memory model is assumed "
             "(a weakened ordering cannot be exhibited on x86: reported as no-failing-input-found with the model-level schedule as replay). "
             "Integer (power-of-two) observation values here; the bit-exact binary64 statement is C08's. HistogramVec / Registry::gather "
             "reach the same HistogramCore::proto (by inspection). No axioms beyond kernel primitives.",
        ref="DESIGN.md sections 3, 4 C02 and 13"),
    "C03": dict(
        text="Theorems in coq/Props/C03.v (14): collections ordered in real time return growing ticket prefixes and value sets; every observe / "
             "flush call is exactly one ticket carrying all its values, so a flushed batch is in a snapshot entirely or not at all; at "
             "quiescence every shard cell, a collection, get_sample_count and get_sample_sum equal the totals of all observations; the "
             "invariant holds after any number of flips with residue carried forward (third-collect statement); the wait-loop exit is "
             "enabled iff all pre-flip claims have published, and stays enabled (c03_wait_exact, c03_wait_exit_stable). Tie as C02 with "
             ">= 3 collections over two collector threads, multi-observation flushes, a final quiescent collect plus the two read calls, "
             "and a watchdog under which a hung collector is a violation.",
        note="Liveness of the spin (a weak compare-exchange eventually stops failing spuriously, fair scheduling) is runtime and not claimed. "
             "Memory-model caveat as C02. A stale relaxed get_sample_count on non-multi-copy-atomic hardware cannot be exhibited by the model.",
        ref="DESIGN.md section 4 C03 and 13"),
    "C10": dict(
        text="Theorems in coq/Props/C10.v (42 statements, closed under the global context), for all interleavings and any number of threads: the vector "
             "model is linearizable to a sequential map from label values to (child id, value) with linearisation step = lookup hit / "
             "insert / remove / clear / read-lock acquisition of collect (key set) / per-child load / fetch_add through the handle, each "
             "inside its call window, real-time order respected (c10_lin, c10_real_time); lock word consistent and map accessed only under "
             "the lock; same child on racing first requests; no lost or double-counted update; no duplicate keys in any collection; removed "
             "key not collected; handle usable after removal; recreated child fresh and zero; sequential histories = one-thread instance. "
             "The LITERAL property (collect as one atomic action returning keys AND values) is refuted by a real trace "
             "(c10_strict_refuted, exact search) = known finding C10-collect-values-not-snapshot; the check evaluates the strict spec and "
             "reports cases in that class as KNOWN-FINDING, anything else as VIOLATION. Tie: every event (lock attempts, releases, child "
             "atomics, markers) of scheduled runs of the real IntCounterVec is validated by vexec (proved sound into the relational model); "
             "strict and relaxed specs are evaluated on the same traces.",
        note="Keys are label-value tuples (hash collisions are C05's). try_read fails iff a writer holds the lock, try_write iff a writer or "
             "readers do; HashMap operations are silent steps between lock and unlock; one sequentially consistent memory for lock word and "
             "cells. The harness drives with_label_values / remove_label_values (get_metric_with / remove share the code after hashing). "
             "Linearisation search budget 30 000 nodes: exhausted = pass, counted in the evidence. Data races inside HashMap are excluded by "
             "Rust's type system, not by the model.",
        ref="DESIGN.md section 4 C10 and 13"),
    "C16": dict(
        text="Theorems in coq/Props/C16.v (15): the accessor interface the shared source uses (67 operations over ten types) has two instances "
             "- plain (plain_model.rs) and pb (proto_model.rs + proto_ext.rs: Option scalars, MessageField with default-instance deref, enum "
             "with fallback) - and the getter view is a homomorphism pb -> plain (69 laws); gather, check_metric_family and TextEncoder are "
             "written once for any instance and are natural in homomorphisms, hence c16_same: for all collectors, prefix, common labels and "
             "number formatting the gathered structures are getter-equal and the text bytes / errors identical; c16_defaults: the table of "
             "34 reads of unset fields agrees; the world model's gather / encoder are the wm instance of the same generic code. Tie: the "
             "harness is built with default features and with --no-default-features; the same API histories, family lists and gathered "
             "families run on both binaries, each is compared with the model in Coq, and the two are compared with each other byte for byte.",
        note="rust-protobuf's runtime and the generated proto_model.rs are modelled through their accessor behaviour, not verified. Field "
             "presence (has_*) exists only in the protobuf build and is outside the property. Family name/help/type and LabelPair/Bucket/"
             "Quantile fields are never left unset by the harness builder: those defaults are covered at model level only. Mixed kinds "
             "under one name (C14) are excluded from the generator. No axioms (kernel primitives only).",
        ref="DESIGN.md section 4 C16 and 13"),
    "C19": dict(
        text="Theorems in coq/Props/C19.v (22, closed under the global context): for every well-formed make_static_metric! / "
             "make_auto_flush_static_metric! declaration, every field / get(enum) / try_get(str) path (and any mix) denotes the child whose "
             "value for label i is the declared string of step i, for every permutation of the backing vector's label names (via C05's "
             "map-form lemma); try_get is None exactly for undeclared strings; get is the variant's field; any struct-injective offset "
             "layout makes get_local reach the leaf of the path; after a final flush (any interleaving of sub-struct / automatic flushes) "
             "every child holds exactly the amounts addressed to it, unaddressed children hold 0; delivered + buffered = addressed at any "
             "moment. Tie: declarations generated from the grammar (1-4 labels x 1-4 values, inline / enum / renamed values, 8 static and "
             "3 auto-flush types) are compiled with the REAL proc macros, every accessor path is driven with a distinct power of two on "
             "vectors with permuted label names, and model and executable spec are evaluated in Coq on the collected children.",
        note="Proc-macro expansion and rustc's checking of generated items are observed on the compiled batches only; the MaybeUninit offset "
             "layout of the auto-flush builder is a runtime fact (the theorem needs only injectivity per struct). Child identity is the "
             "label-value tuple (FNV collisions are C05's). No theorem links spec_c19 to the model (both are evaluated every run).",
        ref="DESIGN.md section 4 C19 and 13"),
})


CLAIMS.update({
    "C17": dict(
        text="Theorems in coq/Props/C17.v (59 statements) about three-outcome models (Ok / Err / Panic site) in coq/Model/PanicSites.v of every "
             "Result-returning public function the property lists: the 14 inventoried panic-capable expressions on those paths (unwrap, "
             "indexing, str slicing, usize arithmetic, capacity overflow, the former unimplemented!) are explicit Panic branches guarded by "
             "their firing conditions, and for ALL arguments (sizes below usize::MAX entries / isize::MAX bytes / count*8 <= isize::MAX, "
             "stated as hypotheses and shown necessary) no branch fires (c17_no_panic_* for 19 functions), the three-outcome models equal the "
             "total models of Model/*.v (c17_guards_*), the exact Err conditions hold per API (c17_err_iff_*), and c17_world equates those "
             "outcomes with the observations of the world model. Tie: on every run the panic-token inventory of 13 source files is re-scanned "
             "into coq/gen/PanicInventory.v and compared by reflexivity (a new unwrap/expect/panic!/unimplemented!/unreachable!/assert! in "
             "those functions breaks an obligation); the world model is compared inside Coq with a debug AND a release harness on "
             "nasty-argument sweeps under catch_unwind; spec_c17 / spec_c17_enc (from the property text) are evaluated on the "
             "implementation's own answers, including encoders writing to a writer that fails after n bytes.",
        note="Partial by nature: the theorem covers the inventoried panic sites; allocation failure, poisoned locks after a foreign panic and "
             "panics in user callbacks are covered only by the sweep. The free functions register/unregister on the default registry are "
             "covered by theorem only. NaN / overflowing parameters of linear_buckets / exponential_buckets are not treated as 'invalid "
             "arguments' (only the documented conditions are): the helpers may return a list that Histogram::with_opts then refuses with "
             "Err (pinned as c17_ex_helpers_let_nan_through). The scanner is trusted. No axioms (kernel primitives only).",
        ref="DESIGN.md section 4 C17 and section 13"),
})


CLAIMS.update({
    "C01": dict(
        text="Theorems in coq/Props/C01.v: for the model of one 64-bit cell (Model/AtomicConc.v, generic over integer mod 2^64 and binary64 "
             "values) every execution with any number of threads is linearizable to the spec value := value (+) d / read / value := 0, with "
             "linearisation points = the fetch_add, the SUCCESSFUL compare-exchange of the float loop, the load, or the invocation of a zero "
             "flush, each strictly inside [invocation, response] (real-time order proved once for any well-formed history); the cell equals "
             "the spec state throughout. Corollaries: c01_final_sum (u64 mod 2^64; f64 = the fold of float additions in linearisation "
             "order over all calls), c01_read_prefix / c01_read_subset (a read returns the fold of the increments linearised before it: "
             "contains every increment completed before the read was invoked, none invoked after it returned), c01_monotone (u64 under "
             "no-wrap; f64 for non-negative non-NaN increments, no reset in between), c01_flush_once (a local flush adds its amount "
             "exactly once; a second flush and a zero flush perform no shared step). Tie: real Counter / IntCounter and local-counter "
             "flushes run one atomic operation at a time under the deterministic scheduler (forced preemption inside the load / "
             "compare-exchange window, spurious failures); each trace is validated event by event against aexec (proved equal to the step "
             "relation) and spec_c01 (subset-sum read check, monotone reads, linearisation search) is evaluated on the markers alone.",
        note="Per-location sequentially consistent interleaving semantics (one cell); memory orderings are recorded, not part of the "
             "correspondence (no proof depends on them: Relaxed -> SeqCst is not a violation). One NaN. Not exhibited by the model: stale "
             "relaxed loads on non-multi-copy-atomic hardware. CounterVec children are the same Value/Atomic code reached through C10's "
             "harness object, exercised through C10's harness object (see the last sentences of the claim). Axioms: FloatAxioms; Flocq's classical/real axioms only under c01_monotone_float and c01_spec_of_validated_float.",
        ref="DESIGN.md section 4 C01 and 13"),
    "C11": dict(
        text="Theorems in coq/Props/C11.v (same model and invariants as C01 with set / inc / dec / add / sub / get): gauges (float and i64) are "
             "linearizable with real-time order (c11_float_lin, c11_int_lin, c11_real_time); concurrent add/sub/inc/dec are never lost "
             "(c11_no_lost_update_*); a read returns the initial value, the argument of some set or the result of some add - one 64-bit "
             "store, never torn (c11_set_not_torn_*); sub(x) undoes add(x): exactly mod 2^64 for i64 wherever the two are linearised, and "
             "for f64 sub = add of -x, equal to s when s + x is exact (via Flocq), refuted in general by a concrete example (1 and 2^53). "
             "Tie as C01 on real Gauge / IntGauge with 2-3 threads; spec_c11 is an exhaustive linearisation search (up to 12 calls) with "
             "two's-complement / binary64 arithmetic on the markers alone.",
        note="As C01. The linearisation search is exhaustive because scenarios are bounded to 2-3 threads x 1-4 calls.",
        ref="DESIGN.md section 4 C11 and 13"),
})


# sentences added after the first version of each claim (uniform "spec holds of the model" theorems, extensions)
EXTRA = {
    "C01": " c01_spec_of_validated_int: for ALL traces accepted by the validator inside the executable domain spec_c01 is true (no bound on the "
           "number of calls); float flavour: the WHOLE spec on the domain dom01_float_full (finite non-negative increments whose decoded values fit one 53-bit window below 2^2098, so that every partial sum is exact: c01_spec_of_validated_float, Flocq Bplus_correct), every clause except read-subset outside that window (c01_spec_of_validated_float_partial); the evidence counts the traces of each run inside / outside these domains. Counter-vector children are covered too: `C vec` scenarios on a real IntCounterVec (racing first requests, preemption between read-unlock "
           "and write-lock) are validated by C10's vector model and judged by spec_c01_vec (every completed increment visible in a later collection, "
           "exactly once); c01_vec_spec_of_validated: a vector trace accepted by vcheck inside dom_c01_vec (events of the harness threads only, increments distinct powers of two below 2^63) satisfies spec_c01_vec - built on C10's relaxed_spec_of_validated_partial3, so EVERY clause of C01's executable specs (int, float, vector) is now a theorem on validated traces inside the executable domains; C10's other theorems are re-exported as c01_vec_child_*. Local flushes include tiny amounts (1e-17, subnormals).",
    "C11": " c11_spec_of_validated_int: for ALL traces accepted by the validator inside the executable domain the executable spec (linearisation "
           "search proved complete with its own fuel, read-subset derived from it) is true; float flavour: the WHOLE spec on dom11_float (finite amounts of both signs "
           "inside one 53-bit window, no overflow: c11_spec_of_validated_float), every clause except the read-subset clause elsewhere "
           "(c11_spec_of_validated_float_partial); the evidence counts the traces of each run inside / outside these domains.",
    "C10": " c10_relaxed_spec_of_validated: for ALL traces accepted by the validator whose events belong to the harness threads, the WHOLE "
           "executable relaxed spec is true (no bound on threads, calls or keys): every call returned, result kinds, no duplicate keys, "
           "removed/reset keys not collected, the remove clause, no-lost-update, 'shown', 'recreated-is-fresh' (from c10_child_id_one_key / "
           "c10_child_id_never_returns: a child id belongs to one key for ever) and the linearisation search, which cannot answer NotFound "
           "because the ghost log in time order is a linearisation of the spec's action system (key snapshot at the collect's read-lock, "
           "end of the value reads at the last per-child load; simulation SimR of the spec's sequential map). Proved in stages "
           "(c10_relaxed_spec_of_validated_partial, _partial3, _nocollect; Proofs/VecConcSpec*.v). c10_strict_failure_is_known_class: on every "
           "validated trace a failure of the STRICT spec lies in the recorded known-finding class (c10_classifier_never_2), so the check's "
           "KNOWN-FINDING / VIOLATION split cannot raise an alarm on a trace the model accepts (while a collection reads, the key set is stable "
           "and each child is read once: c10_collect_keys_stable; with at most one shown child updated inside the window the collection takes "
           "effect as one action at that child's read).",
    "C02": " c02_spec_of_validated: for ALL traces, accepted by the validator and inside the executable domain (values +-2^k with distinct exponents "
           "< 53, sorted bounds) implies the executable spec written from the property text is true - the oracle cannot raise an alarm on a trace the "
           "model accepts (subset sums of such values decode uniquely: c02_decode_unique).",
    "C03": " c03_spec_of_validated: for ALL accepted traces inside the domain in which every call returned, spec_c03 (growth, batch atomicity, "
           "per-thread closure, quiescent exactness, typed reads) is true.",
    "C04": " End to end: c04_gathered_roundtrip - for library collectors registered on a registry that new_custom accepts (C09's hypotheses) whose "
           "same-name collectors share a type (C14's hypothesis) and whose strings are Rust Strings, encode (gather_families ...) succeeds and parses back "
           "to view (gather_families ...); c04_gathered_never_errs. Proving it exposed the reserved-le defect (common label le), repaired in /repo.",
    "C05": " c05_spec_model: for every collision-free scenario of the generator's complete language (one vector of any of the five kinds with all request, "
           "update, remove, reset, clone, drop and local-vector operations) the executable spec written from "
           "the property text is true of the model's own run; c05_model_violation_needs_collision: there the model can contradict the text only through "
           "two different tuples with one FNV-1a-64 key (the known class).",
    "C06": " CONCURRENT histories (calls issued from several threads must behave as if executed one at a time): Model/RegConc.v models the "
           "registry's RwLock and tables; for ALL traces and any number of threads register / unregister / gather are linearizable to the sequential "
           "registry with the linearisation step inside the call window (c06_conc_lin), a registration's result is the sequential verdict on the "
           "tables at that step (c06_conc_admission), two overlapping registrations sharing a descriptor never both succeed "
           "(c06_conc_no_double_admission) nor do two that disagree on a shared name (c06_conc_no_disagreeing_admission); tied to the code by "
           "`C reg` traces of the real Registry under the deterministic scheduler (lock events from the shim, hook b7bc88f) validated event by "
           "event, plus an executable spec (one real-time-consistent order explained by the structural admission rule). The spec exposed a "
           "genuine defect - collectors filed under the wrapping SUM of their descriptor ids, sums coinciding for ordinary collectors - repaired "
           "by edcf206 (hash of the sorted ids); model, proofs (hypothesis cids_exact_on) and corpus follow. c06_spec_model: for every history over 29 operations (all collector constructors, registries, register/unregister/gather, updates, reads) "
           "with no hash collision among its descriptors (decided by computation) spec_c06 - result kinds, no trace of refused calls, gather clause - "
           "is true of the model's own run.",
    "C07": " c07_spec_of_model / c07_spec_of_model_strict / c07_known_class_delimited: for all histories over every operation except OpCustom "
           "(user-written collectors) inside the executable domain, spec_c07 is true of the model's own run unless collectors of "
           "different kinds share a name, and then everything but the family type still holds (known_mixed_kinds). The *_custom versions "
           "(Proofs/C07SpecCustom*.v, C14SpecCustom.v) extend all of them to histories with user-written collectors that expose no families "
           "(domain dom07c / dom14c, which contains the old one) - the overlap scenarios of C14's generator; the evidence counts the scenarios of "
           "each run inside / outside that domain.",
    "C08": " c08_spec_model: for EVERY history (< 2^63 operations, no FNV collision among the label tuples it uses) the executable spec written from "
           "the property text is true of the model's own run (full operation language, nothing partial).",
    "C09": " c09_spec_model (full operation language, hypothesis only 'Opts.const_labels is a map'): the executable spec - every constructor answers "
           "Ok exactly when the text says, every gathered family has valid, pairwise distinct names and no histogram-valued sample carries le - is true "
           "of the model's own run; c09_oracle_silent. Registry::new_custom now also refuses the reserved name le as a common label (repair 1b46295).",
    "C12": " c12_spec_model: for every history of the covered language (everything the generators emit, vector forms included, arbitrary slot "
           "arguments) inside the executable domain (no FNV collision among label tuples, fewer than 2^63 observations per histogram) spec_c12 is true "
           "of the model's own run.",
    "C14": " c14_spec_of_model / c14_spec_of_model_strict: as C07's uniform theorems, for spec_c14 / known_c14.",
    "C15": " c15_spec_model (full operation language, no collision hypothesis: the spec's own true_collision escape excuses exactly the genuine "
           "FNV-1a collisions): the executable spec is true of the model's own run; c15_oracle_silent.",
    "C18": " c18_spec_model: for every history of the covered language inside the executable domain spec_c18 (including returned seconds and the "
           "closure result) is true of the model's own run.",
    "C20": " c20_spec_model: for EVERY arm of the harness table and EVERY value set whose custom registry new_custom accepts, the executable spec "
           "(macro vs explicit-call twin: same result kind, same descriptor, same reaction to an update, targeted registry gathers as for the explicit "
           "call, other registry empty, duplicate refused, nothing registered when not Ok) is true of the model's own observations. Outside the model "
           "and proved nothing about: the one-time creation of the process-wide default registry (lazy_static); the check exercises it with 40 "
           "(thorough 400) fresh harness processes in which 12 threads make the first use at once through register_int_counter! and every Ok "
           "registration must be gathered and not admitted twice - a probabilistic stress that only supports the search for a failing input.",
    "C19": " c19_spec_model: for every well-formed declaration and every allowed round (static, local and auto-flush forms) the executable spec is "
           "true of the model's own output; c19_model_obs_matches.",
}

NOT_YET = "the technique applies (see DESIGN.md section 4) but the check is not finished, so the property is not claimed"

# properties not claimed for a reason other than "not finished"
NA = {}
