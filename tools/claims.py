"""What MANIFEST.json says per property.  `python3 tools/mkmanifest.py` regenerates MANIFEST.json from this table;
a property is claimed iff it has an entry in CLAIMS *and* tools/p_<id>.py + coq/Props/<id>.v exist."""

TECH = "machine-checked proof in Coq (Rocq) over an executable Gallina model + differential correspondence check against the implementation"
TECH_CONC = ("machine-checked proof in Coq (Rocq) over an executable Gallina model of the atomic steps + step-by-step trace validation of "
             "the real code run under a deterministic scheduler (sync shim)")

COMMON_NOTE = ("Trusted: Coq 8.16.1 kernel + vm_compute (no native_compute, no extraction); the hand-written model (checked by the "
               "correspondence run of every check, not verified); Rust harness, Python driver; Rust std / fnv / parking_lot / rust-protobuf "
               "are modelled, not verified. ")

CLAIMS = {
    "C15": dict(
        text="Theorems in coq/Props/C15.v (proved for all strings, label maps and insertion orders): the bytes hashed for id / dim_hash are "
             "injective functions of (name, constant values in name order) / (help, constant-name set, variable-name set); Desc::new is "
             "invariant under permutation of the constant-label map; hence identity iff up to 64-bit collisions. Tied to the code by running "
             "the real Desc::new on generated descriptor groups and comparing id, dim_hash and label pairs bit for bit with the Gallina "
             "model inside Coq; an executable spec written from the property text is evaluated on the implementation's own output.",
        note="Model of src/desc.rs; fnv crate modelled as FNV-1a-64; HashMap order not controlled (fresh map per call). No axioms.",
        ref="DESIGN.md section 4, C15"),
    "C09": dict(
        text="Theorems in coq/Props/C09.v for all code-point strings: the two validators accept exactly [a-zA-Z_:][a-zA-Z0-9_:]* and "
             "[a-zA-Z_][a-zA-Z0-9_]* (ASCII only); Desc::new / Opts / histogram and vector constructors / Registry::new_custom succeed iff "
             "the stated conditions (help non-empty, names valid, constant+variable names duplicate-free, no le on histograms, valid prefix "
             "and common label names); register refuses a clash with common labels; every family name and label-name list in gather() of "
             "library collectors is valid and duplicate-free, prefix and common labels included. Tied to the code by generated strings "
             "(ASCII, non-ASCII letters/digits, empty) pushed through every constructor and through registries, results and gathered "
             "names compared with the model inside Coq; executable spec evaluated on the implementation's gather output.",
        note="Model of desc.rs, metrics.rs (Opts), histogram.rs / vec.rs constructors, registry.rs new_custom/register/gather. "
             "Print Assumptions lists only kernel primitives (floats appear in the world model's values).",
        ref="DESIGN.md section 4, C09"),
    "C08": dict(
        text="Theorems in coq/Props/C08.v over Coq's primitive binary64 floats (bit-exact with Rust's f64): a bucket list is accepted iff "
             "(default substituted for empty) no bound is NaN and each bound < its successor, trailing +inf dropped; for every accepted "
             "configuration and every history of observe / collect (and local observe / flush), each collection reports for bound b_j "
             "exactly #{v | v <= b_j}, count = number of observations, sum = left fold of + from +0 bit for bit; NaN and too-large values "
             "land in no finite bucket. Tied to the code by histories over float pools (NaN, +-0, subnormals, +-inf, bounds and their "
             "neighbours) on Histogram, HistogramVec children and LocalHistogram, compared inside Coq.",
        note="Axioms: the standard library's FloatAxioms (specification of primitive floats) and, through Flocq, Classical_Prop.classic and "
             "ClassicalDedekindReals.sig_not_dec. Sequential (one thread); the concurrent statement is C02/C03.",
        ref="DESIGN.md section 4, C08"),
    "C07": dict(
        text="Theorems in coq/Props/C07.v for all collected family lists, prefixes and common-label maps: gather returns one family per "
             "name, names strictly increasing, no empty family, every collected sample exactly once and nothing else, samples sorted by "
             "the lexicographic comparator, help/type from the collectors, prefix and (name-sorted) common labels applied to everything; "
             "the result is invariant under every permutation of collectors, of each vector's children and of the common-label map "
             "(under C14's same-kind hypothesis and descriptor distinctness, which the library's collectors satisfy). Tied to the code by "
             "collector sets registered in different orders on several fresh registries (fresh HashMap seeds) with back-to-back gathers "
             "compared with the model and with each other inside Coq.",
        note="Model of registry.rs gather + collect of all collector kinds. HashMap order is quantified over (permutations) in the theorems "
             "and sampled through fresh maps in the correspondence. Mixed-kind families are C14's known finding.",
        ref="DESIGN.md section 4, C07"),
    "C14": dict(
        text="Theorems in coq/Props/C14.v: if collected families of one name agree on the type, every gathered sample carries the payload "
             "of its family's type and the type is permutation-invariant (c14_homogeneous_if, c14_type_perm_invariant); the "
             "unconditional statement is refuted with a concrete registry (c14_refuted: Counter x{k=1} + Gauge x{k=2}) - recorded as "
             "known finding C14-mixed-kinds, reported as KNOWN-FINDING; any other way of mixing types is a VIOLATION. Tied to the code "
             "as C07, plus deliberately mixed kinds, with the class predicate known_c14 evaluated in Coq on each failing case.",
        note="A Desc carries no metric type, so the defect is not a small repair (see DESIGN.md section 10).",
        ref="DESIGN.md section 4, C14"),
}

NOT_YET = "the technique applies (see DESIGN.md section 4) but the check is not finished, so the property is not claimed"

# properties not claimed for a reason other than "not finished"
NA = {}
