(* C17  Fallible APIs report bad input as Err and do not panic.
   Only statements, closed by [exact], pinned by [Check], with their assumptions printed.

   Models: Model/PanicSites.v - the inventory of panic-capable expressions of the source (unwrap,
   expect, indexing, slicing, arithmetic, capacity, panic-family macros) and, for every Result-
   returning public function of the property's list, a model with three outcomes in which each
   inventoried expression on its path is an explicit [TPanic site] branch guarded by the
   condition under which the Rust expression panics.  Lemmas: Proofs/C17Facts.v.

   What is proved, per function:
     c17_guards_*      the three-outcome model equals the total model of Model/*.v read as Ok / Err
                       (every guard's firing condition is excluded by the checks before it);
     c17_no_panic_*    hence the outcome is never Panic, for ALL arguments (size sites: under the
                       explicit bound, and c17_bound_needed_* shows the bound cannot be dropped);
     c17_err_iff_*     the exact Err conditions (re-exported from the C05 / C06 / C08 / C09 / C13 facts);
     c17_world         what the world model (compared with the implementation on every run) reports
                       for each Result-returning operation is that outcome;
     c17_inventory_*   the source scanned on this run contains exactly the inventoried tokens.
   Partial by nature: the theorems cover the inventoried sites; allocation failure, poisoned locks
   after a foreign panic and panics in user callbacks are covered by the sweep only. *)
Require Import PV.Base.Prelude PV.Base.Utf8 PV.Base.Fnv PV.Base.F64.
Require Import PV.Model.Proto PV.Model.Desc PV.Model.Value PV.Model.Hist PV.Model.Vec PV.Model.Registry PV.Model.World.
Require Import PV.Model.Text PV.Model.Pb PV.Model.PanicSites.
Require Import PV.Proofs.DescFacts PV.Proofs.C09Facts PV.Proofs.HistFacts PV.Proofs.C05Facts PV.Proofs.C06Facts PV.Proofs.PbFacts.
Require Import PV.Proofs.C17Facts.
Require Import PV.gen.PanicInventory.
Open Scope N_scope.

(* ---- the inventory is the source's (regenerated on every run) ---------------------------- *)
Theorem c17_inventory_tokens : SourceInventory.source_inventory = Inventory.model_inventory.
Proof. exact source_inventory_is_model_inventory. Qed.
Theorem c17_inventory_sites : SourceInventory.source_site_presence = Inventory.model_site_presence.
Proof. exact source_sites_are_model_sites. Qed.

(* ---- Desc::new, Opts::describe, PullingGauge::new ------------------------------------------ *)
Theorem c17_guards_desc_new fq help vars consts :
  lenN consts < usize_max -> desc_new_t fq help vars consts = of_option (desc_new fq help vars consts).
Proof. exact (desc_new_t_total fq help vars consts). Qed.
Theorem c17_no_panic_desc_new fq help vars consts : lenN consts < usize_max -> forall s, desc_new_t fq help vars consts <> TPanic s.
Proof. exact (desc_new_no_panic fq help vars consts). Qed.
Theorem c17_err_iff_desc_new fq help vars consts :
  lenN consts < usize_max -> NoDup (map fst consts) ->
  ((exists e, desc_new_t fq help vars consts = TErr e) <->
   ~ (help <> [] /\ is_valid_metric_name fq = true
      /\ Forall (fun n => is_valid_label_name n = true) (map fst consts ++ vars)
      /\ NoDup (map fst consts ++ vars))).
Proof. exact (desc_new_err_iff fq help vars consts). Qed.
Theorem c17_bound_needed_desc_new fq help vars consts :
  help <> [] -> is_valid_metric_name fq = true -> lenN consts = usize_max -> desc_new_t fq help vars consts = TPanic S_DESC_CAP.
Proof. exact (desc_new_cap_guard fq help vars consts). Qed.

(* ---- make_label_pairs, Counter / Gauge constructors and vector children ------------------------ *)
Theorem c17_guards_make_label_pairs d vals : desc_bounded d -> make_label_pairs_t d vals = of_result (make_label_pairs d vals).
Proof. exact (make_label_pairs_t_total d vals). Qed.
Theorem c17_no_panic_make_label_pairs d vals : desc_bounded d -> forall s, make_label_pairs_t d vals <> TPanic s.
Proof. exact (make_label_pairs_no_panic d vals). Qed.
(* the cardinality check is what excludes the index panic *)
Theorem c17_check_needed_make_label_pairs d vals :
  desc_bounded d -> (length vals < length (d_vars d))%nat -> make_label_pairs_unchecked d vals = TPanic S_MLP_INDEX.
Proof. exact (make_label_pairs_unchecked_panics d vals). Qed.
Theorem c17_no_panic_value_new o t k vals : opts_bounded o -> forall s, value_new_t o t k vals <> TPanic s.
Proof. exact (value_new_no_panic o t k vals). Qed.
Theorem c17_err_iff_value_new o t k vals :
  opts_bounded o -> NoDup (map fst (o_consts o)) ->
  ((exists e, value_new_t o t k vals = TErr e) <-> ~ (opts_accept o /\ length vals = length (o_vars o))).
Proof. exact (value_new_err_iff o t k vals). Qed.

(* ---- check_and_adjust_buckets, Histogram::with_opts ------------------------------------------------ *)
Theorem c17_guards_check_and_adjust_buckets bs : check_and_adjust_buckets_t bs = of_option (check_and_adjust_buckets bs).
Proof. exact (check_and_adjust_buckets_t_total bs). Qed.
Theorem c17_no_panic_check_and_adjust_buckets bs : forall s, check_and_adjust_buckets_t bs <> TPanic s.
Proof. exact (check_and_adjust_buckets_no_panic bs). Qed.
Theorem c17_err_iff_check_and_adjust_buckets bs :
  (exists e, check_and_adjust_buckets_t bs = TErr e) <-> buckets_increasing (if is_nil bs then DEFAULT_BUCKETS else bs) = false.
Proof. exact (check_and_adjust_buckets_err_iff bs). Qed.
Theorem c17_no_panic_histogram o vals : opts_bounded (ho_common o) -> forall s, hcore_new_t o vals <> TPanic s.
Proof. exact (hcore_new_no_panic o vals). Qed.
Theorem c17_err_iff_histogram o vals :
  opts_bounded (ho_common o) -> NoDup (map fst (o_consts (ho_common o))) ->
  ((exists e, hcore_new_t o vals = TErr e) <->
   ~ (opts_accept (ho_common o)
      /\ ~ In BUCKET_LABEL (map fst (o_consts (ho_common o)) ++ o_vars (ho_common o))
      /\ length vals = length (o_vars (ho_common o))
      /\ check_and_adjust_buckets (ho_buckets o) <> None)).
Proof. exact (hcore_new_err_iff o vals). Qed.

(* ---- linear_buckets / exponential_buckets ------------------------------------------------------------ *)
Theorem c17_no_panic_linear_buckets start width count : count_bounded count -> forall s, linear_buckets_t start width count <> TPanic s.
Proof. exact (linear_buckets_no_panic start width count). Qed.
Theorem c17_no_panic_exponential_buckets start factor count :
  count_bounded count -> forall s, exponential_buckets_t start factor count <> TPanic s.
Proof. exact (exponential_buckets_no_panic start factor count). Qed.
Theorem c17_err_iff_linear_buckets start width count : count_bounded count ->
  (linear_buckets_t start width count = TErr EMsg <-> count = 0 \/ PrimFloat.leb width f_zero = true).
Proof. exact (linear_buckets_err_iff start width count). Qed.
Theorem c17_err_iff_exponential_buckets start factor count : count_bounded count ->
  (exponential_buckets_t start factor count = TErr EMsg <->
   count = 0 \/ PrimFloat.leb start f_zero = true \/ PrimFloat.leb factor f_one = true).
Proof. exact (exponential_buckets_err_iff start factor count). Qed.
Theorem c17_bound_needed_bucket_helpers :
  linear_buckets_t f_zero f_one (2 ^ 60) = TPanic S_LIN_CAP /\ exponential_buckets_t f_one (f_one + f_one)%float (2 ^ 60) = TPanic S_EXP_CAP.
Proof. exact buckets_cap_guard_fires. Qed.

(* ---- CounterVec / GaugeVec / HistogramVec::new and the four vector requests --------------------------- *)
Theorem c17_no_panic_vec_new o k : opts_bounded o -> forall s, vec_create_t o k <> TPanic s.
Proof. exact (vec_create_no_panic o k). Qed.
Theorem c17_err_iff_vec_new o k :
  opts_bounded o -> NoDup (map fst (o_consts o)) ->
  ((exists e, vec_create_t o k = TErr e) <->
   ~ (opts_accept o /\ (is_hist_kind k -> ~ In BUCKET_LABEL (map fst (o_consts o) ++ o_vars o)))).
Proof. exact (vec_create_err_iff o k). Qed.
Theorem c17_no_panic_get_metric_with_label_values v vals :
  opts_bounded (v_opts v) -> forall s, get_metric_with_label_values_o v vals <> OutPanic s.
Proof. exact (get_metric_with_label_values_no_panic v vals). Qed.
Theorem c17_no_panic_get_metric_with v labels : opts_bounded (v_opts v) -> forall s, get_metric_with_o v labels <> OutPanic s.
Proof. exact (get_metric_with_no_panic v labels). Qed.
Theorem c17_no_panic_remove_label_values v vals : forall s, remove_label_values_o v vals <> OutPanic s.
Proof. exact (remove_label_values_no_panic v vals). Qed.
Theorem c17_no_panic_remove v labels : forall s, remove_o v labels <> OutPanic s.
Proof. exact (remove_no_panic v labels). Qed.
(* for a vector built by MetricVec::create with an acceptable bucket configuration *)
Theorem c17_err_iff_get_metric_with_label_values v vals :
  opts_bounded (v_opts v) -> coherent v -> good_buckets v ->
  forall e, get_metric_with_label_values_o v vals = OutErr e <->
            length vals <> length (d_vars (v_desc v)) /\ e = ECard (lenN (d_vars (v_desc v))) (lenN vals).
Proof. exact (get_metric_with_label_values_err_iff v vals). Qed.
(* the map form fails exactly as the name / cardinality check does (C05: hash_labels_err_inv spells it out) *)
Theorem c17_err_iff_get_metric_with v labels :
  opts_bounded (v_opts v) -> coherent v -> good_buckets v ->
  forall e, get_metric_with_o v labels = OutErr e <-> hash_labels (v_desc v) labels = Err e.
Proof. exact (get_metric_with_err_iff v labels). Qed.
Theorem c17_err_cases_map_form d labels e : hash_labels d labels = Err e ->
  (length labels <> length (d_vars d) /\ e = ECard (lenN (d_vars d)) (lenN labels))
  \/ (length labels = length (d_vars d) /\ e = EMsg /\ exists n, In n (d_vars d) /\ ~ In n (map fst labels)).
Proof. exact (hash_labels_err_inv d labels e). Qed.
Theorem c17_err_iff_remove_label_values v vals e :
  remove_label_values_o v vals = OutErr e <->
  (length vals <> length (d_vars (v_desc v)) /\ e = ECard (lenN (d_vars (v_desc v))) (lenN vals))
  \/ (length vals = length (d_vars (v_desc v)) /\ e = EMsg /\ nlookup (fnv1a (label_values_preimage vals)) (v_children v) = None).
Proof. exact (remove_label_values_err_iff v vals e). Qed.

(* ---- Registry::new_custom, register, unregister -------------------------------------------------------- *)
Theorem c17_no_panic_new_custom prefix labels : forall s, new_custom_o prefix labels <> OutPanic s.
Proof. exact (new_custom_no_panic prefix labels). Qed.
Theorem c17_no_panic_register {C} (r : regcore C) ds c : forall s, register_o r ds c <> OutPanic s.
Proof. exact (register_no_panic r ds c). Qed.
Theorem c17_no_panic_unregister {C} (r : regcore C) ds : forall s, unregister_o r ds <> OutPanic s.
Proof. exact (unregister_no_panic r ds). Qed.
Theorem c17_no_panic_default_registry : forall s, default_registry_init_o default_features_process_registration <> OutPanic s.
Proof. exact default_registry_init_no_panic. Qed.
Theorem c17_err_iff_new_custom prefix labels :
  (exists e, new_custom_o prefix labels = OutErr e) <->
  ~ (prefix_ok prefix /\ Forall valid_label (common_names labels) /\ ~ In reserved_le (common_names labels)).
Proof. exact (new_custom_err_iff prefix labels). Qed.
Theorem c17_err_iff_register {C} (r : regcore C) ds c :
  (exists e, register_o r ds c = OutErr e) <-> ~ (hash_fine r ds /\ nlookup (collector_id ds) (r_collectors r) = None).
Proof. exact (register_err_iff r ds c). Qed.
Theorem c17_err_iff_unregister {C} (r : regcore C) ds e :
  unregister_o r ds = OutErr e <-> e = EMsg /\ nlookup (collector_id ds) (r_collectors r) = None.
Proof. exact (unregister_err_iff r ds e). Qed.

(* ---- the text encoder ------------------------------------------------------------------------------------ *)
Theorem c17_guards_escape_string s q : str_bounded s -> escape_string_t s q = TOk (escape_string s q).
Proof. exact (escape_string_t_total s q). Qed.
Theorem c17_no_panic_text_encoder show showz buf fams :
  text_bounded show fams -> forall s, text_encode_o show showz buf fams <> OutPanic s.
Proof. exact (text_encode_no_panic show showz buf fams). Qed.
Theorem c17_err_iff_text_encoder show showz buf fams e : text_bounded show fams ->
  (text_encode_o show showz buf fams = OutErr e <->
   e = EMsg /\ exists mf, In mf fams /\ (mf_metric mf = [] \/ mf_name mf = [] \/ mf_type mf = UNTYPED)).
Proof. exact (text_encode_err_iff show showz buf fams e). Qed.
(* the repair 3d1bf37: the pinned encoder panicked exactly where today's returns this Err, and agrees elsewhere *)
Theorem c17_text_pinned_vs_repaired fams :
  match text_encode_pinned_o fams with
  | OutPanic s => s = S_TEXT_UNTYPED /\ text_decision fams = OutErr EMsg
  | o => text_decision fams = o
  end.
Proof. exact (text_pinned_vs_repaired fams). Qed.

(* ---- the protobuf encoder ---------------------------------------------------------------------------------- *)
Theorem c17_no_panic_pb_encoder fams : forall s, pb_encode_o fams <> OutPanic s.
Proof. exact (pb_encode_no_panic fams). Qed.
Theorem c17_err_iff_pb_encoder fams : (exists e, pb_encode_o fams = OutErr e) <-> exists f, In f fams /\ (refused f \/ too_large f).
Proof. exact (pb_encode_err_iff fams). Qed.

(* ---- the operations of the world model ------------------------------------------------------------------------ *)
(* For every Result-returning operation of a scenario, in any world: the three-outcome model never
   panics and the world model's observation (compared with the implementation's on every run) is that
   outcome; an operation without a modelled outcome is an ill-typed step (dead slot). *)
Theorem c17_world w o oc :
  op_bounded w o -> api_outcome w o = Some oc -> (forall s, oc <> OutPanic s) /\ obs_class (snd (step w o)) = Some oc.
Proof. exact (api_outcome_sound w o oc). Qed.
Theorem c17_world_covers w o : returns_result o = true -> api_outcome w o = None -> snd (step w o) = OBad.
Proof. exact (api_outcome_defined w o). Qed.

(* ---- non-vacuity: every Err branch, every Ok branch and every hypothesis has a witness --------------------------- *)
Example c17_ex_desc_new :
  desc_new_t [97] [] [] [] = TErr EMsg /\ desc_new_t [57] [104] [] [] = TErr EMsg
  /\ desc_new_t [97] [104] [] [([57], [])] = TErr EMsg /\ desc_new_t [97] [104] [[57]] [] = TErr EMsg
  /\ desc_new_t [97] [104] [[98]; [98]] [] = TErr EMsg /\ desc_new_t [97] [104] [[98]] [([98], [])] = TErr EMsg
  /\ outcome_of (desc_new_t [97] [104] [[98]] [([99], [100])]) = OutOk.
Proof. exact ex_desc_new. Qed.
Example c17_ex_make_label_pairs :
  make_label_pairs_t ex_desc [] = TErr (ECard 1 0) /\ make_label_pairs_t ex_desc [[120]; [121]] = TErr (ECard 1 2)
  /\ outcome_of (make_label_pairs_t ex_desc [[120]]) = OutOk /\ make_label_pairs_unchecked ex_desc [] = TPanic S_MLP_INDEX.
Proof. exact ex_make_label_pairs. Qed.
Example c17_ex_buckets :
  check_and_adjust_buckets_t [nan] = TErr EMsg /\ check_and_adjust_buckets_t [f_one; f_one] = TErr EMsg
  /\ check_and_adjust_buckets_t [f_one; f_zero] = TErr EMsg /\ check_and_adjust_buckets_t [f_one; nan] = TErr EMsg
  /\ check_and_adjust_buckets_t [f_zero; f_one; infinity] = TOk [f_zero; f_one] /\ check_and_adjust_buckets_t [] = TOk DEFAULT_BUCKETS.
Proof. exact ex_buckets. Qed.
Example c17_ex_loop_guards : check_loop 0 [] [f_one] O = TPanic S_CAB_SUB /\ check_loop 2 [f_one] [f_one] O = TPanic S_CAB_INDEX.
Proof. exact check_loop_guards_fire. Qed.
Example c17_ex_constructors :
  outcome_of (value_new_t (ex_opts [] [] []) VCounter NF []) = OutErr EMsg
  /\ outcome_of (value_new_t (ex_opts [97] [] [[98]]) VGauge NI []) = OutErr (ECard 1 0)
  /\ outcome_of (value_new_t (ex_opts [97] [] []) VCounter NU []) = OutOk
  /\ outcome_of (hcore_new_t (mkHOpts (ex_opts [97] [([108; 101], [])] []) []) []) = OutErr EMsg
  /\ outcome_of (hcore_new_t (mkHOpts (ex_opts [97] [] []) [f_one; f_zero]) []) = OutErr EMsg
  /\ outcome_of (hcore_new_t (mkHOpts (ex_opts [97] [] []) [nan]) []) = OutErr EMsg
  /\ outcome_of (hcore_new_t (mkHOpts (ex_opts [97] [] []) []) []) = OutOk
  /\ outcome_of (vec_create_t (ex_opts [97] [] [[108; 101]]) (VKHist [])) = OutErr EMsg
  /\ outcome_of (vec_create_t (ex_opts [97] [] [[57]]) (VKValue VCounter NF)) = OutErr EMsg
  /\ outcome_of (vec_create_t (ex_opts [97] [] [[108; 101]]) (VKValue VCounter NF)) = OutOk.
Proof. exact ex_constructors. Qed.
Example c17_ex_bucket_helpers :
  linear_buckets_t f_zero f_one 0 = TErr EMsg /\ linear_buckets_t f_zero f_zero 3 = TErr EMsg
  /\ linear_buckets_t f_zero (- f_one)%float 3 = TErr EMsg
  /\ linear_buckets_t f_one two 3 = TOk [f_one; (f_one + two)%float; (f_one + two * two)%float]
  /\ exponential_buckets_t f_one two 0 = TErr EMsg /\ exponential_buckets_t f_zero two 3 = TErr EMsg
  /\ exponential_buckets_t (- f_one)%float two 3 = TErr EMsg /\ exponential_buckets_t f_one f_one 3 = TErr EMsg
  /\ exponential_buckets_t f_one half 3 = TErr EMsg /\ exponential_buckets_t f_one two 3 = TOk [f_one; two; (two * two)%float].
Proof. exact ex_bucket_helpers. Qed.
(* observed behaviour outside the documented error conditions: NaN / infinite parameters pass the helpers
   (no panic, Ok) and the list they return is refused by the histogram constructor *)
Example c17_ex_helpers_let_nan_through :
  linear_buckets_t f_zero nan 2 = TOk [nan; nan] /\ exponential_buckets_t f_one nan 2 = TOk [f_one; nan]
  /\ exponential_buckets_t infinity two 2 = TOk [infinity; infinity]
  /\ check_and_adjust_buckets_t [nan; nan] = TErr EMsg /\ check_and_adjust_buckets_t [f_one; nan] = TErr EMsg
  /\ check_and_adjust_buckets_t [infinity; infinity] = TErr EMsg.
Proof. exact helpers_let_nan_through. Qed.
Example c17_ex_vec_requests :
  vec_create (ex_opts [118] [] [[97]; [98]]) (VKValue VCounter NF) = Ok ex_vec
  /\ get_metric_with_label_values_o ex_vec [[120]] = OutErr (ECard 2 1)
  /\ get_metric_with_label_values_o ex_vec [[120]; [121]] = OutOk
  /\ get_metric_with_o ex_vec [([97], [120])] = OutErr (ECard 2 1)
  /\ get_metric_with_o ex_vec [([97], [120]); ([99], [121])] = OutErr EMsg
  /\ get_metric_with_o ex_vec [([98], [121]); ([97], [120])] = OutOk
  /\ remove_label_values_o ex_vec [[120]; [121]] = OutErr EMsg
  /\ remove_label_values_o ex_vec1 [[120]] = OutErr (ECard 2 1)
  /\ remove_label_values_o ex_vec1 [[120]; [121]] = OutOk
  /\ remove_o ex_vec1 [([98], [121]); ([97], [120])] = OutOk
  /\ remove_o ex_vec1 [([98], [121]); ([97], [122])] = OutErr EMsg
  /\ remove_o ex_vec1 [([98], [121])] = OutErr (ECard 2 1).
Proof. exact ex_vec_requests. Qed.
Example c17_ex_registry :
  new_custom_o (Some []) None = OutErr EMsg /\ new_custom_o (Some [57]) None = OutErr EMsg
  /\ new_custom_o None (Some [([57], [])]) = OutErr EMsg /\ new_custom_o (Some [97]) (Some [([98], [])]) = OutOk
  /\ register_o (@reg_empty unit) (ex_d [97]) tt = OutOk
  /\ register_o ex_reg1 (ex_d [97]) tt = OutErr EAlreadyReg
  /\ register_o ex_reg1 (ex_d [98]) tt = OutOk
  /\ unregister_o ex_reg1 (ex_d [98]) = OutErr EMsg
  /\ unregister_o ex_reg1 (ex_d [97]) = OutOk.
Proof. exact ex_registry. Qed.
Example c17_ex_text :
  text_encode_o ex_show ex_showz [] [mkMF [97] [104] COUNTER []] = OutErr EMsg
  /\ text_encode_o ex_show ex_showz [] [mkMF [] [104] COUNTER [ex_metric]] = OutErr EMsg
  /\ text_encode_o ex_show ex_showz [] [mkMF [97] [104] UNTYPED [ex_metric]] = OutErr EMsg
  /\ text_encode_o ex_show ex_showz [] [mkMF [97] [104] COUNTER [ex_metric]; mkMF [98] [] HISTOGRAM [ex_metric]] = OutOk
  /\ text_encode_pinned_o [mkMF [97] [104] UNTYPED [ex_metric]] = OutPanic S_TEXT_UNTYPED
  /\ text_bounded ex_show [mkMF [97] [104] COUNTER [ex_metric]; mkMF [98] [] HISTOGRAM [ex_metric]].
Proof. exact ex_text. Qed.
Example c17_ex_char_boundary : is_char_boundary [0xE9] 1 = false /\ is_char_boundary [0xE9] 2 = true.
Proof. exact char_boundary_guard_fires. Qed.
Example c17_ex_pb :
  pb_encode_o [pb_of_family (mkMF [97] [104] COUNTER [])] = OutErr EMsg
  /\ pb_encode_o [pb_of_family (mkMF [] [104] COUNTER [ex_metric])] = OutErr EMsg
  /\ pb_encode_o [pb_of_family (mkMF [97] [104] UNTYPED [ex_metric])] = OutOk
  /\ pb_encode_o [mkPFamily None None None []] = OutErr EMsg.
Proof. exact ex_pb. Qed.
Example c17_ex_bounds :
  opts_bounded (ex_opts [97] [([98], [])] [[99]]) /\ desc_bounded ex_desc /\ count_bounded 4096 /\ str_bounded [92; 0xE9; 10]
  /\ coherent ex_vec /\ good_buckets ex_vec /\ opts_bounded (v_opts ex_vec).
Proof. exact ex_bounds. Qed.

Check c17_inventory_tokens : SourceInventory.source_inventory = Inventory.model_inventory.
Check c17_inventory_sites : SourceInventory.source_site_presence = Inventory.model_site_presence.
Check c17_no_panic_desc_new : forall fq help vars consts, lenN consts < usize_max -> forall s, desc_new_t fq help vars consts <> TPanic s.
Check c17_no_panic_make_label_pairs : forall d vals, desc_bounded d -> forall s, make_label_pairs_t d vals <> TPanic s.
Check c17_no_panic_check_and_adjust_buckets : forall bs s, check_and_adjust_buckets_t bs <> TPanic s.
Check c17_no_panic_histogram : forall o vals, opts_bounded (ho_common o) -> forall s, hcore_new_t o vals <> TPanic s.
Check c17_no_panic_get_metric_with_label_values : forall v vals,
  opts_bounded (v_opts v) -> forall s, get_metric_with_label_values_o v vals <> OutPanic s.
Check c17_no_panic_get_metric_with : forall v labels, opts_bounded (v_opts v) -> forall s, get_metric_with_o v labels <> OutPanic s.
Check c17_no_panic_linear_buckets : forall start width count, count_bounded count -> forall s, linear_buckets_t start width count <> TPanic s.
Check c17_no_panic_exponential_buckets : forall start factor count,
  count_bounded count -> forall s, exponential_buckets_t start factor count <> TPanic s.
Check c17_no_panic_text_encoder : forall show showz buf fams,
  text_bounded show fams -> forall s, text_encode_o show showz buf fams <> OutPanic s.
Check c17_no_panic_pb_encoder : forall fams s, pb_encode_o fams <> OutPanic s.
Check c17_err_iff_text_encoder : forall show showz buf fams e, text_bounded show fams ->
  (text_encode_o show showz buf fams = OutErr e <->
   e = EMsg /\ exists mf, In mf fams /\ (mf_metric mf = [] \/ mf_name mf = [] \/ mf_type mf = UNTYPED)).
Check c17_world : forall w o oc,
  op_bounded w o -> api_outcome w o = Some oc -> (forall s, oc <> OutPanic s) /\ obs_class (snd (step w o)) = Some oc.

Print Assumptions c17_inventory_tokens.
Print Assumptions c17_inventory_sites.
Print Assumptions c17_guards_desc_new.
Print Assumptions c17_no_panic_desc_new.
Print Assumptions c17_err_iff_desc_new.
Print Assumptions c17_bound_needed_desc_new.
Print Assumptions c17_guards_make_label_pairs.
Print Assumptions c17_no_panic_make_label_pairs.
Print Assumptions c17_check_needed_make_label_pairs.
Print Assumptions c17_no_panic_value_new.
Print Assumptions c17_err_iff_value_new.
Print Assumptions c17_guards_check_and_adjust_buckets.
Print Assumptions c17_no_panic_check_and_adjust_buckets.
Print Assumptions c17_err_iff_check_and_adjust_buckets.
Print Assumptions c17_no_panic_histogram.
Print Assumptions c17_err_iff_histogram.
Print Assumptions c17_no_panic_linear_buckets.
Print Assumptions c17_no_panic_exponential_buckets.
Print Assumptions c17_err_iff_linear_buckets.
Print Assumptions c17_err_iff_exponential_buckets.
Print Assumptions c17_bound_needed_bucket_helpers.
Print Assumptions c17_no_panic_vec_new.
Print Assumptions c17_err_iff_vec_new.
Print Assumptions c17_no_panic_get_metric_with_label_values.
Print Assumptions c17_no_panic_get_metric_with.
Print Assumptions c17_no_panic_remove_label_values.
Print Assumptions c17_no_panic_remove.
Print Assumptions c17_err_iff_get_metric_with_label_values.
Print Assumptions c17_err_iff_get_metric_with.
Print Assumptions c17_err_cases_map_form.
Print Assumptions c17_err_iff_remove_label_values.
Print Assumptions c17_no_panic_new_custom.
Print Assumptions c17_no_panic_register.
Print Assumptions c17_no_panic_unregister.
Print Assumptions c17_no_panic_default_registry.
Print Assumptions c17_err_iff_new_custom.
Print Assumptions c17_err_iff_register.
Print Assumptions c17_err_iff_unregister.
Print Assumptions c17_guards_escape_string.
Print Assumptions c17_no_panic_text_encoder.
Print Assumptions c17_err_iff_text_encoder.
Print Assumptions c17_text_pinned_vs_repaired.
Print Assumptions c17_no_panic_pb_encoder.
Print Assumptions c17_err_iff_pb_encoder.
Print Assumptions c17_world.
Print Assumptions c17_world_covers.
Print Assumptions c17_ex_desc_new.
Print Assumptions c17_ex_make_label_pairs.
Print Assumptions c17_ex_buckets.
Print Assumptions c17_ex_loop_guards.
Print Assumptions c17_ex_constructors.
Print Assumptions c17_ex_bucket_helpers.
Print Assumptions c17_ex_helpers_let_nan_through.
Print Assumptions c17_ex_vec_requests.
Print Assumptions c17_ex_registry.
Print Assumptions c17_ex_text.
Print Assumptions c17_ex_char_boundary.
Print Assumptions c17_ex_pb.
Print Assumptions c17_ex_bounds.
