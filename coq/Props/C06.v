(* C06  Registry admission is exact; a failed registration leaves no trace.
   Only statements, closed by [exact] (or a few lines from lemmas), pinned by [Check], with their
   assumptions printed.

   Vocabulary (Proofs/C06Facts.v):
     reg_register r ds c / reg_unregister r ds   RegistryCore::register / unregister on the three tables
                                (collectors_by_id, dim_hashes_by_name, desc_ids); ds = the collector's
                                descriptors, c = what the world model needs to collect it
     sstate (s_cur, s_hist)     the ABSTRACT registry: the currently registered collectors with their
                                descriptors, and every descriptor ever successfully registered; no hashes
     same_id d d'               equal descriptors: same fully-qualified name and constant-label values
     same_dim d d'              agreeing descriptors: same help, constant-name set, variable-name set
     same_coll ds ds'           the same collector: the same set of descriptors up to same_id (the API
                                consumes a fresh Box<dyn Collector> per call: there is no other identity)
     reg_abs st r               the tables r represent the abstract registry st
     ids_exact_on P, dims_exact_on P, cids_exact_on CP
                                "no collision" on the pool of descriptors P / collectors CP in play:
                                d_id (resp. d_dim under one name, resp. the collector id = FNV-1a over the sorted ids) is equal
                                exactly when the identities (resp. signatures, resp. id sets) are.  They
                                follow from injectivity of FNV-1a on the serialised identities
                                (c06_ids_exact_from_fnv, c06_dims_exact_from_fnv) - "up to collisions of the
                                64-bit hash".  Without them the iff is FALSE (c06_refuted_collision):
                                known finding C06-fnv-collision.
   The defect "a registration failing on its 2nd descriptor left the 1st descriptor's name pinned"
   (DESIGN: c06_failed_noop_refuted) is repaired in /repo (b8e028c); the model has the repaired
   loop, so c06_failed_is_noop now holds and the refutation is gone. *)
Require Import PV.Base.Prelude PV.Base.Utf8 PV.Base.Fnv PV.Base.F64.
Require Import PV.Model.Proto PV.Model.Desc PV.Model.Value PV.Model.Registry PV.Model.World.
Require Import PV.Proofs.DescFacts PV.Proofs.C06Facts PV.Proofs.C06More PV.Proofs.C06Spec.
Require PV.Spec.SpecC07 PV.Spec.SpecC06.
From Coq Require Import Permutation.
Open Scope N_scope.

(* ---- admission ---------------------------------------------------------------------------- *)
(* what "can be registered" says, spelled out: no descriptor equals a currently registered one;
   none uses a common label of the registry (c627cf3); none disagrees in help / label names with
   a descriptor ever successfully registered under its name, nor with another descriptor of the
   same collector; no descriptor is listed twice; the collector itself is not registered *)
Theorem c06_can_register_meaning {C} (st : sstate C) labels ds :
  can_register st labels ds <->
  (forall d, In d ds -> ~ exists d', In d' (cur_descs st) /\ same_id d d')
  /\ (forall d, In d ds -> clashes labels d = false)
  /\ (forall d d', In d ds -> In d' (s_hist st) -> d_fq_name d' = d_fq_name d -> same_dim d' d)
  /\ (forall d d', In d ds -> In d' ds -> d_fq_name d' = d_fq_name d -> same_dim d' d)
  /\ ForallOrdPairs (fun d' d => ~ same_id d d') ds
  /\ ~ exists e, In e (s_cur st) /\ same_coll ds (fst e).
Proof. unfold can_register, descs_fine, equal_registered, agrees, coll_registered. tauto. Qed.

(* register returns Ok exactly for the collectors that can be registered *)
Theorem c06_register_iff {C} (P : Desc -> Prop) (CP : list Desc -> Prop) (st : sstate C) (r : regcore C) ds c :
  (forall ds d, CP ds -> In d ds -> P d) -> ids_exact_on P -> dims_exact_on P -> cids_exact_on CP ->
  reg_abs st r -> st_in P CP st -> CP ds ->
  ((exists r', reg_register r ds c = Ok r') <-> can_register st (r_labels r) ds).
Proof. intros H1 H2 H3 H4. exact (register_iff P CP H1 H2 H3 H4 st r ds c). Qed.

(* the error kind: AlreadyReg exactly when the first descriptor (in the collector's order) that
   raises any objection is equal to a registered one, or none raises an objection and the
   collector itself is registered; Msg exactly when that first descriptor is not equal to a
   registered one; there is no third kind *)
Theorem c06_register_AlreadyReg_iff {C} (P : Desc -> Prop) (CP : list Desc -> Prop) (st : sstate C) (r : regcore C) ds c :
  (forall ds d, CP ds -> In d ds -> P d) -> ids_exact_on P -> dims_exact_on P -> cids_exact_on CP ->
  reg_abs st r -> st_in P CP st -> CP ds ->
  (reg_register r ds c = Err EAlreadyReg <->
   (exists a d b, ds = a ++ d :: b /\ descs_fine st (r_labels r) a /\ equal_registered st d)
   \/ (descs_fine st (r_labels r) ds /\ coll_registered st ds)).
Proof. intros H1 H2 H3 H4. exact (register_AlreadyReg_iff P CP H1 H2 H3 H4 st r ds c). Qed.
Theorem c06_register_Msg_iff {C} (P : Desc -> Prop) (CP : list Desc -> Prop) (st : sstate C) (r : regcore C) ds c :
  (forall ds d, CP ds -> In d ds -> P d) -> ids_exact_on P -> dims_exact_on P -> cids_exact_on CP ->
  reg_abs st r -> st_in P CP st -> CP ds ->
  (reg_register r ds c = Err EMsg <->
   exists a d b, ds = a ++ d :: b /\ descs_fine st (r_labels r) a /\ ~ equal_registered st d /\ objection st (r_labels r) a d).
Proof. intros H1 H2 H3 H4. exact (register_Msg_iff P CP H1 H2 H3 H4 st r ds c). Qed.
Theorem c06_register_err_kinds {C} (r : regcore C) ds c e : reg_register r ds c = Err e -> e = EAlreadyReg \/ e = EMsg.
Proof. exact (register_err_kinds r ds c e). Qed.

(* with no hypothesis at all: the iff at the level of the hashes the code compares *)
Theorem c06_register_iff_hash {C} (r : regcore C) ds c :
  (exists r', reg_register r ds c = Ok r') <-> hash_fine r ds /\ nlookup (collector_id ds) (r_collectors r) = None.
Proof. exact (register_ok_iff_hash r ds c). Qed.

(* a successful registration adds exactly this collector and its descriptors *)
Theorem c06_register_effect {C} (st : sstate C) (r : regcore C) ds c r' :
  reg_abs st r -> reg_register r ds c = Ok r' -> reg_abs (s_add st ds c) r'.
Proof. exact (register_abs st r ds c r'). Qed.

(* ---- a refused registration leaves no trace ------------------------------------------------ *)
(* in the world model (the interpreter compared with the implementation on every run): the whole
   state - every registry table, every metric - is unchanged ... *)
Theorem c06_failed_is_noop w r s w' e : step w (OpRegister r s) = (w', ORes (Err e)) -> w' = w.
Proof. exact (world_failed_register_noop w r s w' e). Qed.
(* ... so every continuation of every history observes exactly what it observes without the call *)
Theorem c06_failed_is_invisible w pre r s post e :
  snd (step (run_world w pre) (OpRegister r s)) = ORes (Err e) ->
  run w (pre ++ OpRegister r s :: post) = run w pre ++ ORes (Err e) :: run (run_world w pre) post
  /\ run w (pre ++ post) = run w pre ++ run (run_world w pre) post.
Proof. exact (world_failed_register_invisible w pre r s post e). Qed.
(* the same on the registry tables alone (register and unregister) *)
Theorem c06_failed_call_keeps_tables {C} (r : regcore C) o e : snd (reg_step r o) = Err e -> fst (reg_step r o) = r.
Proof. exact (reg_step_err r o e). Qed.

(* ---- unregister ------------------------------------------------------------------------------ *)
Theorem c06_unregister_iff {C} (P : Desc -> Prop) (CP : list Desc -> Prop) (st : sstate C) (r : regcore C) ds :
  (forall ds d, CP ds -> In d ds -> P d) -> ids_exact_on P -> cids_exact_on CP ->
  reg_abs st r -> st_in P CP st -> CP ds ->
  ((exists r', reg_unregister r ds = Ok r') <-> coll_registered st ds).
Proof. intros H1 H2 H3. exact (unregister_iff_abs P CP H1 H2 H3 st r ds). Qed.
Theorem c06_unregister_iff_hash {C} (r : regcore C) ds :
  (exists r', reg_unregister r ds = Ok r') <-> In (collector_id ds) (map fst (r_collectors r)).
Proof. exact (unregister_ok_iff r ds). Qed.
Theorem c06_unregister_err_kind {C} (r : regcore C) ds e : reg_unregister r ds = Err e -> e = EMsg.
Proof. exact (unregister_err r ds e). Qed.
(* afterwards the collector is not registered, every other collector still is, and the record of
   what was ever registered (the per-name signatures) is kept *)
Theorem c06_unregister_effect {C} (P : Desc -> Prop) (CP : list Desc -> Prop) (st : sstate C) (r : regcore C) ds r' :
  (forall ds d, CP ds -> In d ds -> P d) -> ids_exact_on P -> cids_exact_on CP ->
  reg_abs st r -> st_in P CP st -> CP ds -> reg_unregister r ds = Ok r' ->
  exists st', reg_abs st' r' /\ ~ coll_registered st' ds /\ s_hist st' = s_hist st
              /\ forall e, In e (s_cur st') <-> In e (s_cur st) /\ ~ same_coll ds (fst e).
Proof.
  intros H1 H2 H3 A S Hds H. pose proof (unregister_refines P CP H1 H2 H3 st r ds A S Hds) as R. rewrite H in R.
  destruct R as (E & A' & _). exists (s_del st (collector_id ds)). split; [exact A'|]. exact (spec_unregister_effect st ds _ E).
Qed.
(* a registered collector can be unregistered and then registered again (no hypothesis on hashes) *)
Theorem c06_unregister_then_register {C} (st : sstate C) (r : regcore C) ds c0 c :
  reg_abs st r -> In (ds, c0) (s_cur st) ->
  exists r1 r2, reg_unregister r ds = Ok r1 /\ reg_register r1 ds c = Ok r2
                /\ reg_abs (s_add (s_del st (collector_id ds)) ds c) r2.
Proof. exact (unregister_then_register st r ds c0 c). Qed.
(* after unregister every gathered family comes from a collector that is still in the table:
   nothing of the removed collector is collected *)
Theorem c06_gather_excludes_unregistered (r r' : regcore collector) ds w fs w' f :
  reg_unregister r ds = Ok r' -> collect_all w (r_collectors r') = Some (fs, w') -> In f fs ->
  exists k c w1 fs1 w2, In (k, c) (r_collectors r) /\ k <> collector_id ds
                        /\ collect_collector w1 c = Some (fs1, w2) /\ In f fs1.
Proof. exact (gather_after_unregister r r' ds w fs w' f). Qed.

(* ---- histories --------------------------------------------------------------------------------- *)
(* every history of register / unregister calls on a fresh registry (plain or new_custom), at
   every point of the history: the results are those of the abstract registry and the tables
   represent it.  The pool is the history's own descriptors and collectors. *)
Theorem c06_history_refines_spec {C} (ops : list (regop C)) r0 :
  fresh_registry r0 -> ids_exact_on (hist_P ops) -> dims_exact_on (hist_P ops) -> cids_exact_on (hist_CP ops) ->
  forall pre post, ops = pre ++ post ->
    reg_trace r0 pre = spec_trace (r_labels r0) s_empty pre
    /\ reg_abs (spec_final (r_labels r0) s_empty pre) (reg_final r0 pre).
Proof. exact (history_refines_fresh ops r0). Qed.
(* the world model's histories of OpRegister / OpUnregister on one registry ARE such histories *)
Theorem c06_world_history ops w rops r ri rc :
  slot w r = HRegistry ri -> nth_error (w_reg w) ri = Some rc ->
  Forall2 (reg_call w r) ops rops ->
  run w ops = map obs_of_res (reg_trace rc rops)
  /\ nth_error (w_reg (run_world w ops)) ri = Some (reg_final rc rops)
  /\ w_slots (run_world w ops) = w_slots w /\ w_v (run_world w ops) = w_v w
  /\ w_h (run_world w ops) = w_h w /\ w_vec (run_world w ops) = w_vec w.
Proof. exact (world_history_is_registry_history ops w rops r ri rc). Qed.

(* ---- where the hypotheses come from, and what happens without them -------------------------- *)
Theorem c06_ids_exact_from_fnv (P : Desc -> Prop) :
  (forall d, P d -> built d) ->
  (forall d1 d2, P d1 -> P d2 -> fnv1a (id_bytes_of d1) = fnv1a (id_bytes_of d2) -> id_bytes_of d1 = id_bytes_of d2) ->
  ids_exact_on P.
Proof. exact (built_ids_exact P). Qed.
Theorem c06_dims_exact_from_fnv (P : Desc -> Prop) :
  (forall d, P d -> built d) ->
  (forall d1 d2, P d1 -> P d2 -> fnv1a (dim_bytes_of d1) = fnv1a (dim_bytes_of d2) -> dim_bytes_of d1 = dim_bytes_of d2) ->
  dims_exact_on P.
Proof. exact (built_dims_exact P). Qed.
(* they are decidable on the descriptors of a concrete history *)
Theorem c06_hypotheses_decidable {C} (ops : list (regop C)) :
  history_collision_free_b ops = true ->
  ids_exact_on (hist_P ops) /\ dims_exact_on (hist_P ops) /\ cids_exact_on (hist_CP ops).
Proof. exact (history_collision_free ops). Qed.

(* without them the iff is false: indbfqeysbnpsf / ivltldgmoctybd are two valid metric names with
   the same FNV-1a-64 hash; after Counter(name1) is registered, Counter(name2) - whose only
   descriptor is equal to no registered one and disagrees with nothing - is refused with AlreadyReg *)
Theorem c06_refuted_collision :
  exists d1 d2 (r1 : regcore unit),
    desc_new coll_name1 help_h [] [] = Some d1 /\ desc_new coll_name2 help_h [] [] = Some d2
    /\ d_fq_name d1 <> d_fq_name d2
    /\ reg_register reg_empty [d1] tt = Ok r1
    /\ reg_register r1 [d2] tt = Err EAlreadyReg
    /\ reg_abs (s_add s_empty [d1] tt) r1
    /\ can_register (s_add s_empty [d1] tt) None [d2].
Proof. exact register_iff_refuted_by_collision. Qed.

(* ---- non-vacuity --------------------------------------------------------------------------------- *)
(* a history that satisfies the hypotheses of c06_history_refines_spec and runs through every
   clause: accepted; refused for an equal descriptor in 2nd position; refused for another help in
   2nd position; the same collector twice; the name of the FIRST descriptor of the refused
   collectors registered with another help (the repaired defect); unregister; unregister again;
   register again *)
Example c06_hypotheses_satisfiable :
  (ids_exact_on (hist_P ex_history) /\ dims_exact_on (hist_P ex_history) /\ cids_exact_on (hist_CP ex_history))
  /\ reg_trace reg_empty ex_history = [Ok tt; Err EAlreadyReg; Err EMsg; Err EAlreadyReg; Ok tt; Ok tt; Err EMsg; Ok tt]
  /\ spec_trace None s_empty ex_history = reg_trace reg_empty ex_history.
Proof.
  pose proof (history_collision_free ex_history ex_history_collision_free) as H. split; [exact H|]. split; [exact ex_history_trace|].
  destruct H as (H1 & H2 & H3).
  destruct (history_refines_fresh ex_history reg_empty (or_introl eq_refl) H1 H2 H3 ex_history [] (eq_sym (app_nil_r _))) as [T _].
  symmetry. exact T.
Qed.
(* the scenario of the repaired defect on the world model: the refused registration of
   [fresh/help A; t] is followed by an accepted Counter(fresh, help B), which is then gathered *)
Example c06_defect_scenario :
  run world0 defect_ops =
  [ ORes (Ok tt); ORes (Ok tt); ORes (Ok tt); ORes (Ok tt); ORes (Err EAlreadyReg); ORes (Ok tt); ORes (Ok tt);
    OFams [ mkMF s_fresh s_helpB COUNTER [mkMetric [] None (Some f_zero) None None None None];
            mkMF s_t s_h COUNTER [mkMetric [] None (Some f_zero) None None None None] ] ].
Proof. exact defect_scenario_model. Qed.

(* ---- the executable spec written from the property text holds of the model ------------------- *)
(* spec_c06 (Spec/SpecC06.v) is the oracle evaluated on the IMPLEMENTATION's observations on every
   run; this is the statement that the model satisfies the property as written, so that the oracle
   can never raise an alarm when the implementation agrees with the model.  For ALL histories of
   the domain:
     in_domain ops    = every operation is one of
                          OpCounter OpGauge OpHistogram OpCounterVec OpGaugeVec OpHistVec OpCustom OpPulling
                          OpRegistry OpRegister OpUnregister OpGather
                          OpInc OpIncBy OpDec OpAdd OpSub OpSet OpGet OpObserve OpReset OpSampleSum OpSampleCount
                          OpCollect OpDescOf OpDesc OpFqName OpLinearBuckets OpExpBuckets
                        (29 of the 46 operations; not: vector children OpWith/OpWithMap/OpRemove/OpRemoveMap,
                        OpClone, OpDrop, local metrics, timers), the constant labels of every Opts value have
                        distinct keys (they are a HashMap), and no step of the model's run hangs
                        (a histogram collect that would spin: the spec demands an answer from gather);
     no_collision ops = ids_exact_on / dims_exact_on / cids_exact_on, decided by computation on the
                        descriptors that the constructor operations of ops build (c06_no_collision_sound).
   Every clause of the spec is covered: result kinds of register / unregister over arbitrary
   collectors and registries (prefix, common labels, clashes), no trace of refused calls, and the
   gather clause (c06_gather_samples: the gathered families hold exactly the collected samples,
   prefix and common labels applied - a permutation, proved from the merge / sort structure of
   gather_families). *)
Theorem c06_spec_model ops :
  in_domain ops = true -> no_collision ops = true -> SpecC06.spec_c06 ops (run world0 ops) = true.
Proof. exact (spec_c06_model ops). Qed.
Theorem c06_in_domain_meaning ops : in_domain ops = forallb op_ok ops && forallb not_hung (run world0 ops).
Proof. reflexivity. Qed.
Theorem c06_no_collision_sound ops :
  no_collision ops = true ->
  ids_exact_on (fun d => In d (concat (pool_colls ops))) /\ dims_exact_on (fun d => In d (concat (pool_colls ops)))
  /\ cids_exact_on (fun ds => In ds (pool_colls ops)).
Proof. intros H. split; [exact (Hids ops H)|split; [exact (Hdims ops H)|exact (Hcids ops H)]]. Qed.
Theorem c06_gather_samples p l collected :
  Permutation (SpecC07.expected_samples p l collected)
              (SpecC07.flatten (gather_families p (match l with Some l0 => Some (amap_of l0) | None => None end) collected)).
Proof. exact (gather_samples p l collected). Qed.
(* the corpus scenarios of tools/p_C06.py (three variants of the repaired defect b8e028c) are
   inside the domain and collision free, hence satisfy the spec on the model ... *)
Example c06_corpus_in_domain :
  SpecC06.spec_c06 corpus_defect_already (run world0 corpus_defect_already) = true
  /\ SpecC06.spec_c06 corpus_defect_msg (run world0 corpus_defect_msg) = true
  /\ SpecC06.spec_c06 corpus_defect_dup (run world0 corpus_defect_dup) = true.
Proof.
  pose proof corpus_in_domain as H.
  destruct (andb_prop _ _ H) as [H1 HC]. destruct (andb_prop _ _ H1) as [HA HB].
  destruct (andb_prop _ _ HA) as [A1 A2]. destruct (andb_prop _ _ HB) as [B1 B2]. destruct (andb_prop _ _ HC) as [C1 C2].
  split; [exact (spec_c06_model _ A1 A2)|split; [exact (spec_c06_model _ B1 B2)|exact (spec_c06_model _ C1 C2)]].
Qed.
(* ... the collision witness is inside the domain but not collision free: there the spec fails on
   the model's own run, and the failure is in the known class *)
Example c06_collision_witness_outside :
  in_domain corpus_collision = true /\ no_collision corpus_collision = false
  /\ SpecC06.spec_c06 corpus_collision (run world0 corpus_collision) = false
  /\ SpecC06.known_c06 corpus_collision (run world0 corpus_collision) = true.
Proof. exact corpus_collision_outside. Qed.

(* ---- the defect repaired by edcf206 ----------------------------------------------------------- *)
(* Before the repair a collector was filed under the wrapping SUM of its descriptor ids
   (collector_id_sum).  C1 = [g{k="1"}; y] and C2 = [g{k="2"}; x] - four different descriptors -
   have the same sum, and so have A = [x{k="3"}; y] and B = [x{k="2"}; x]: registering C2 after C1
   answered AlreadyReg, unregistering B removed A.  This was hypothesis cids_exact_on (then about
   sums) failing on a natural pool.  With the repaired id (FNV-1a over the sorted ids) they differ ... *)
Example c06_sum_ids_collided :
  collector_id_sum ex_C1 = collector_id_sum ex_C2 /\ collector_id ex_C1 <> collector_id ex_C2
  /\ collector_id_sum ex_A = collector_id_sum ex_B /\ collector_id ex_A <> collector_id ex_B.
Proof. exact sum_ids_collided. Qed.
(* ... the pools satisfy the hypotheses, and the histories run as the text demands: C1 and C2 are
   both accepted and can be unregistered and registered again; B (which disagrees with itself) is
   refused with Msg, unregistering it fails, and A is still there to be unregistered *)
Example c06_sum_witness_histories :
  (ids_exact_on (hist_P ex_history2) /\ dims_exact_on (hist_P ex_history2) /\ cids_exact_on (hist_CP ex_history2))
  /\ (ids_exact_on (hist_P ex_history3) /\ dims_exact_on (hist_P ex_history3) /\ cids_exact_on (hist_CP ex_history3))
  /\ reg_trace reg_empty ex_history2 = [Ok tt; Ok tt; Ok tt; Ok tt; Ok tt]
  /\ reg_trace reg_empty ex_history3 = [Ok tt; Err EMsg; Err EMsg; Ok tt].
Proof.
  pose proof ex_history23_collision_free as H. apply andb_true_iff in H as [H2 H3].
  split; [exact (history_collision_free ex_history2 H2)|]. split; [exact (history_collision_free ex_history3 H3)|].
  exact ex_history23_trace.
Qed.

Check @c06_register_iff : forall (C : Type) (P : Desc -> Prop) (CP : list Desc -> Prop) (st : sstate C) (r : regcore C) ds c,
  (forall ds d, CP ds -> In d ds -> P d) -> ids_exact_on P -> dims_exact_on P -> cids_exact_on CP ->
  reg_abs st r -> st_in P CP st -> CP ds ->
  ((exists r', reg_register r ds c = Ok r') <-> can_register st (r_labels r) ds).
Check c06_failed_is_noop : forall w r s w' e, step w (OpRegister r s) = (w', ORes (Err e)) -> w' = w.
Check c06_failed_is_invisible : forall w pre r s post e,
  snd (step (run_world w pre) (OpRegister r s)) = ORes (Err e) ->
  run w (pre ++ OpRegister r s :: post) = run w pre ++ ORes (Err e) :: run (run_world w pre) post
  /\ run w (pre ++ post) = run w pre ++ run (run_world w pre) post.
Check @c06_unregister_iff : forall (C : Type) (P : Desc -> Prop) (CP : list Desc -> Prop) (st : sstate C) (r : regcore C) ds,
  (forall ds d, CP ds -> In d ds -> P d) -> ids_exact_on P -> cids_exact_on CP ->
  reg_abs st r -> st_in P CP st -> CP ds ->
  ((exists r', reg_unregister r ds = Ok r') <-> coll_registered st ds).
Check @c06_unregister_then_register : forall (C : Type) (st : sstate C) (r : regcore C) ds c0 c,
  reg_abs st r -> In (ds, c0) (s_cur st) ->
  exists r1 r2, reg_unregister r ds = Ok r1 /\ reg_register r1 ds c = Ok r2
                /\ reg_abs (s_add (s_del st (collector_id ds)) ds c) r2.
Check @c06_history_refines_spec : forall (C : Type) (ops : list (regop C)) r0,
  fresh_registry r0 -> ids_exact_on (hist_P ops) -> dims_exact_on (hist_P ops) -> cids_exact_on (hist_CP ops) ->
  forall pre post, ops = pre ++ post ->
    reg_trace r0 pre = spec_trace (r_labels r0) s_empty pre
    /\ reg_abs (spec_final (r_labels r0) s_empty pre) (reg_final r0 pre).
Print Assumptions c06_can_register_meaning.
Print Assumptions c06_register_iff.
Print Assumptions c06_register_AlreadyReg_iff.
Print Assumptions c06_register_Msg_iff.
Print Assumptions c06_register_err_kinds.
Print Assumptions c06_register_iff_hash.
Print Assumptions c06_register_effect.
Print Assumptions c06_failed_is_noop.
Print Assumptions c06_failed_is_invisible.
Print Assumptions c06_failed_call_keeps_tables.
Print Assumptions c06_unregister_iff.
Print Assumptions c06_unregister_iff_hash.
Print Assumptions c06_unregister_err_kind.
Print Assumptions c06_unregister_effect.
Print Assumptions c06_unregister_then_register.
Print Assumptions c06_gather_excludes_unregistered.
Print Assumptions c06_history_refines_spec.
Print Assumptions c06_world_history.
Print Assumptions c06_ids_exact_from_fnv.
Print Assumptions c06_dims_exact_from_fnv.
Print Assumptions c06_hypotheses_decidable.
Print Assumptions c06_refuted_collision.
Print Assumptions c06_hypotheses_satisfiable.
Print Assumptions c06_defect_scenario.
Check c06_spec_model : forall ops, in_domain ops = true -> no_collision ops = true -> SpecC06.spec_c06 ops (run world0 ops) = true.
Print Assumptions c06_spec_model.
Print Assumptions c06_in_domain_meaning.
Print Assumptions c06_no_collision_sound.
Print Assumptions c06_gather_samples.
Print Assumptions c06_corpus_in_domain.
Print Assumptions c06_collision_witness_outside.
Print Assumptions c06_sum_ids_collided.
Print Assumptions c06_sum_witness_histories.

(* ---- concurrent histories: register / unregister / gather issued from several threads behave as if executed one at a
   time (Model/RegConc.v, Proofs/RegConc*.v) *)
Require Export PV.Proofs.C06ConcPinned.
