(* C15  Descriptor identity is structural.
   Only statements, closed by [exact], pinned by [Check], with their assumptions printed. *)
Require Import PV.Base.Prelude PV.Base.Utf8 PV.Base.Fnv PV.Base.Utf8Facts PV.Model.Proto PV.Model.Desc PV.Proofs.DescFacts.
From Coq Require Import Permutation.

(* the identity hashes the fq name and the constant-label values in label-name order, the
   dimension signature the help text and the (sorted, '$'-marked) label names *)
Theorem c15_desc_hashes fq help vars consts d :
  desc_new fq help vars consts = Some d ->
  d_id d = fnv1a (desc_id_bytes fq consts)
  /\ exists b, desc_dim_bytes help vars consts = Some b /\ d_dim d = fnv1a b.
Proof. exact (desc_new_hashes fq help vars consts d). Qed.

(* the identity bytes are equal exactly when name and constant values (in name order) are: in
   particular boundary-shifted name/value combinations are told apart *)
Theorem c15_id_preimage_inj fq1 consts1 fq2 consts2 :
  wf_str fq1 -> wf_consts consts1 -> wf_str fq2 -> wf_consts consts2 ->
  (desc_id_bytes fq1 consts1 = desc_id_bytes fq2 consts2 <-> fq1 = fq2 /\ cvals consts1 = cvals consts2).
Proof. exact (desc_id_bytes_iff fq1 consts1 fq2 consts2). Qed.

(* the dimension bytes are equal exactly when help, constant-name set and variable-name set are *)
Theorem c15_dim_preimage_inj help1 vars1 consts1 b1 help2 vars2 consts2 b2 :
  wf_str help1 -> wf_str help2 -> NoDup (map fst consts1) -> NoDup (map fst consts2) ->
  Forall (fun n => is_valid_label_name n = true) (map fst consts1) ->
  Forall (fun n => is_valid_label_name n = true) (map fst consts2) ->
  desc_dim_bytes help1 vars1 consts1 = Some b1 -> desc_dim_bytes help2 vars2 consts2 = Some b2 ->
  (b1 = b2 <-> help1 = help2 /\ Permutation (map fst consts1) (map fst consts2) /\ Permutation vars1 vars2).
Proof. exact (desc_dim_bytes_iff help1 vars1 consts1 b1 help2 vars2 consts2 b2). Qed.

(* neither depends on the order in which the constant labels are supplied or iterated *)
Theorem c15_order_independent fq help vars consts consts' :
  NoDup (map fst consts) -> Permutation consts consts' ->
  desc_new fq help vars consts = desc_new fq help vars consts'.
Proof. exact (desc_new_order_independent fq help vars consts consts'). Qed.

(* up to collisions of the 64-bit hash itself *)
Theorem c15_id_iff fq1 help1 vars1 consts1 d1 fq2 help2 vars2 consts2 d2 :
  wf_str fq1 -> wf_consts consts1 -> wf_str fq2 -> wf_consts consts2 ->
  desc_new fq1 help1 vars1 consts1 = Some d1 -> desc_new fq2 help2 vars2 consts2 = Some d2 ->
  fnv_injective_on [desc_id_bytes fq1 consts1; desc_id_bytes fq2 consts2] ->
  (d_id d1 = d_id d2 <-> fq1 = fq2 /\ cvals consts1 = cvals consts2).
Proof.
  intros W1 W2 W3 W4 H1 H2 Inj.
  destruct (desc_new_hashes _ _ _ _ _ H1) as [-> _]. destruct (desc_new_hashes _ _ _ _ _ H2) as [-> _].
  rewrite <- (desc_id_bytes_iff fq1 consts1 fq2 consts2 W1 W2 W3 W4). split; [|congruence].
  apply Inj; cbn; auto.
Qed.

(* non-vacuity: a concrete pair with shifted boundaries gets different bytes *)
Example c15_boundary_shift :
  desc_id_bytes [97;98] [([107], [99])] <> desc_id_bytes [97] [([107], [98;99])].
Proof. vm_compute. discriminate. Qed.

Check c15_desc_hashes : forall fq help vars consts d, desc_new fq help vars consts = Some d ->
  d_id d = fnv1a (desc_id_bytes fq consts) /\ exists b, desc_dim_bytes help vars consts = Some b /\ d_dim d = fnv1a b.
Check c15_id_preimage_inj : forall fq1 consts1 fq2 consts2, wf_str fq1 -> wf_consts consts1 -> wf_str fq2 -> wf_consts consts2 ->
  (desc_id_bytes fq1 consts1 = desc_id_bytes fq2 consts2 <-> fq1 = fq2 /\ cvals consts1 = cvals consts2).
Check c15_order_independent : forall fq help vars consts consts', NoDup (map fst consts) -> Permutation consts consts' ->
  desc_new fq help vars consts = desc_new fq help vars consts'.
Print Assumptions c15_desc_hashes.
Print Assumptions c15_id_preimage_inj.
Print Assumptions c15_dim_preimage_inj.
Print Assumptions c15_order_independent.
Print Assumptions c15_id_iff.

(* ---- the executable spec written from the property text holds of the model, for ALL histories (Proofs/C15Spec.v) *)
Require Export PV.Proofs.C15SpecPinned.
