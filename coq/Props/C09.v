(* C09  Only well-formed, pairwise distinct names reach an exposed sample.
   Only statements, closed by [exact], pinned by [Check], with their assumptions printed. *)
Require Import PV.Base.Prelude PV.Base.F64 PV.Model.Proto PV.Model.Desc PV.Model.Value PV.Model.Hist PV.Model.Vec PV.Model.Registry.
Require Import PV.Proofs.DescFacts PV.Proofs.C09Facts.
From Coq Require Import Permutation.
Open Scope N_scope.

(* ---- the validators are exactly the two regular languages, over code points ---- *)
(* [a-zA-Z_:][a-zA-Z0-9_:]* *)
Theorem c09_metric_name_iff s : is_valid_metric_name s = true <-> Ident MetricHead s.
Proof. exact (metric_name_iff s). Qed.
(* [a-zA-Z_][a-zA-Z0-9_]* *)
Theorem c09_label_name_iff s : is_valid_label_name s = true <-> Ident LabelHead s.
Proof. exact (label_name_iff s). Qed.
(* ASCII only: a non-ASCII letter or digit is never accepted *)
Theorem c09_metric_name_ascii s c : is_valid_metric_name s = true -> In c s -> c < 0x80.
Proof. exact (metric_name_ascii s c). Qed.
Theorem c09_label_name_ascii s c : is_valid_label_name s = true -> In c s -> c < 0x80.
Proof. exact (label_name_ascii s c). Qed.
(* which (namespace, subsystem, name) triples give a valid fully-qualified name *)
Theorem c09_fq_name_valid_iff ns sub name :
  valid_metric (build_fq_name ns sub name) <->
  name <> [] /\
  match ns, sub with
  | [], [] => valid_metric name
  | [], _ :: _ => valid_metric sub /\ Forall TailChar name
  | _ :: _, [] => valid_metric ns /\ Forall TailChar name
  | _ :: _, _ :: _ => valid_metric ns /\ Forall TailChar sub /\ Forall TailChar name
  end.
Proof. exact (fq_name_valid_iff ns sub name). Qed.

(* ---- Desc::new ---- *)
Theorem c09_desc_ok_iff fq help vars consts :
  NoDup (map fst consts) ->
  ((exists d, desc_new fq help vars consts = Some d) <->
   help <> [] /\ is_valid_metric_name fq = true
   /\ Forall (fun n => is_valid_label_name n = true) (map fst consts ++ vars)
   /\ NoDup (map fst consts ++ vars)).
Proof. exact (desc_new_ok_iff fq help vars consts). Qed.
(* the same on the raw key/value list handed to HashMap::insert (a repeated key overrides) *)
Theorem c09_desc_hashmap_ok_iff fq help vars (kvs : list (str * str)) :
  (exists d, desc_new fq help vars (amap_of kvs) = Some d) <->
  help <> [] /\ valid_metric fq /\ Forall valid_label (map fst kvs ++ vars)
  /\ NoDup vars /\ (forall v, In v vars -> ~ In v (map fst kvs)).
Proof. exact (desc_new_amap_ok_iff fq help vars kvs). Qed.

(* ---- the metric constructors ---- *)
(* Counter / Gauge (vals = []) and the children of their vectors (vals = the label values) *)
Theorem c09_value_new_ok_iff o t k vals :
  NoDup (map fst (o_consts o)) ->
  ((exists c, value_new o t k vals = Ok c) <-> opts_accept o /\ length vals = length (o_vars o)).
Proof. exact (value_new_ok_iff o t k vals). Qed.
(* Histogram: additionally no constant or variable label is called le (and the buckets are valid, C08) *)
Theorem c09_hcore_new_ok_iff o vals :
  NoDup (map fst (o_consts (ho_common o))) ->
  ((exists h, hcore_new o vals = Ok h) <->
   opts_accept (ho_common o)
   /\ ~ In BUCKET_LABEL (map fst (o_consts (ho_common o)) ++ o_vars (ho_common o))
   /\ length vals = length (o_vars (ho_common o))
   /\ check_and_adjust_buckets (ho_buckets o) <> None).
Proof. exact (hcore_new_ok_iff o vals). Qed.
(* CounterVec / GaugeVec / HistogramVec::new; le refused for histogram vectors *)
Theorem c09_vec_create_ok_iff o k :
  NoDup (map fst (o_consts o)) ->
  ((exists v, vec_create o k = Ok v) <->
   opts_accept o /\ (is_hist_kind k -> ~ In BUCKET_LABEL (map fst (o_consts o) ++ o_vars o))).
Proof. exact (vec_create_ok_iff o k). Qed.
(* Registry::new_custom: prefix absent or a (hence non-empty) metric name; every common label name valid and none
   of them the reserved histogram label le (a common label is appended to every sample, histogram samples included) *)
Theorem c09_registry_new_custom_iff {C} prefix labels :
  (exists r : regcore C, reg_new_custom prefix labels = Ok r) <->
  prefix_ok prefix /\ Forall valid_label (common_names labels) /\ ~ In reserved_le (common_names labels).
Proof. exact (reg_new_custom_ok_iff prefix labels). Qed.
(* register refuses a collector one of whose label names is a common label of the registry *)
Theorem c09_register_refuses_clash {C} (r : regcore C) ds c d n :
  In d ds -> In n (desc_label_names d) -> In n (common_names (r_labels r)) -> exists e, reg_register r ds c = Err e.
Proof. exact (reg_register_refuses_clash r ds c d n). Qed.

(* ---- samples ---- *)
(* every sample of a metric carries exactly the label names of its descriptor *)
Theorem c09_label_pairs_names d vals ls :
  make_label_pairs d vals = Ok ls -> Permutation (map lp_name ls) (desc_label_names d).
Proof. exact (make_label_pairs_names d vals ls). Qed.
(* what the library's own metrics hand to gather belongs to a well-formed descriptor *)
Theorem c09_lib_family_of_desc d mf : lib_family d mf -> desc_wf d /\ family_of_desc d mf.
Proof. exact (lib_family_of_desc d mf). Qed.

(* ---- gather ---- *)
(* For a registry built by new_custom (its common labels being a map), whatever was registered and
   unregistered since: if every collected family comes from a library metric whose descriptor a
   successful register call admitted, then every gathered family has a valid name and every sample
   valid, pairwise distinct label names - prefix and common labels included. *)
Theorem c09_gather_names_wf {C} prefix labels collected :
  (exists r0 : regcore C, reg_new_custom prefix labels = Ok r0) ->
  map_like match labels with Some l => l | None => [] end ->
  Forall (fun mf => exists d, lib_family d mf /\ @admitted C prefix labels d) collected ->
  Forall family_wf (gather_families prefix labels collected).
Proof. exact (gather_names_wf prefix labels collected). Qed.
(* the same in terms of descriptors only *)
Theorem c09_gather_names_wf_gen prefix labels collected :
  prefix_ok prefix -> names_wf (common_names labels) ->
  Forall (fun mf => exists d, desc_wf d /\ desc_clear labels d /\ family_of_desc d mf) collected ->
  Forall family_wf (gather_families prefix labels collected).
Proof. exact (gather_names_wf_gen prefix labels collected). Qed.

(* non-vacuity: a concrete registry (prefix p, common label z) with a counter and a histogram vector *)
Example c09_gather_example :
  (exists r0 : regcore nat, reg_new_custom ex_prefix ex_labels = Ok r0)
  /\ map_like match ex_labels with Some l => l | None => [] end
  /\ Forall (fun mf => exists d, lib_family d mf /\ @admitted nat ex_prefix ex_labels d) ex_collected
  /\ map mf_name (gather_families ex_prefix ex_labels ex_collected) = [[112; 95; 99]; [112; 95; 110; 95; 118]]
  /\ map (fun mf => map (fun m => map lp_name (m_label m)) (mf_metric mf)) (gather_families ex_prefix ex_labels ex_collected)
     = [[[[97]; [122]]]; [[[98]; [122]]]].
Proof. exact gather_names_wf_example. Qed.
(* the clash check at registration is needed: without it a common label repeats a metric's own *)
Example c09_gather_needs_clash_check :
  exists prefix labels mf d, desc_wf d /\ family_of_desc d mf /\ prefix_ok prefix /\ names_wf (common_names labels)
    /\ ~ Forall family_wf (gather_families prefix labels [mf]).
Proof. exact gather_clash_refuted_without_check. Qed.

Check c09_metric_name_iff : forall s, is_valid_metric_name s = true <-> Ident MetricHead s.
Check c09_label_name_iff : forall s, is_valid_label_name s = true <-> Ident LabelHead s.
Check c09_desc_ok_iff : forall fq help vars consts, NoDup (map fst consts) ->
  ((exists d, desc_new fq help vars consts = Some d) <->
   help <> [] /\ is_valid_metric_name fq = true
   /\ Forall (fun n => is_valid_label_name n = true) (map fst consts ++ vars) /\ NoDup (map fst consts ++ vars)).
Check @c09_registry_new_custom_iff : forall C prefix labels,
  (exists r : regcore C, reg_new_custom prefix labels = Ok r) <->
  prefix_ok prefix /\ Forall valid_label (common_names labels) /\ ~ In reserved_le (common_names labels).
Check @c09_gather_names_wf : forall C prefix labels collected,
  (exists r0 : regcore C, reg_new_custom prefix labels = Ok r0) ->
  map_like match labels with Some l => l | None => [] end ->
  Forall (fun mf => exists d, lib_family d mf /\ @admitted C prefix labels d) collected ->
  Forall family_wf (gather_families prefix labels collected).
Print Assumptions c09_metric_name_iff.
Print Assumptions c09_label_name_iff.
Print Assumptions c09_metric_name_ascii.
Print Assumptions c09_label_name_ascii.
Print Assumptions c09_fq_name_valid_iff.
Print Assumptions c09_desc_ok_iff.
Print Assumptions c09_desc_hashmap_ok_iff.
Print Assumptions c09_value_new_ok_iff.
Print Assumptions c09_hcore_new_ok_iff.
Print Assumptions c09_vec_create_ok_iff.
Print Assumptions c09_registry_new_custom_iff.
Print Assumptions c09_register_refuses_clash.
Print Assumptions c09_label_pairs_names.
Print Assumptions c09_lib_family_of_desc.
Print Assumptions c09_gather_names_wf.
Print Assumptions c09_gather_names_wf_gen.
Print Assumptions c09_gather_example.
Print Assumptions c09_gather_needs_clash_check.

(* ---- the executable spec written from the property text holds of the model, for ALL histories (Proofs/C09Spec.v) *)
Require Export PV.Proofs.C09SpecPinned.
