(* C18  A timer records its duration exactly once, or never when discarded.
   Only statements, closed by [exact], pinned by [Check], with their assumptions printed.
   Model: Model/World.v.  A timer is a slot [HTimer c] (shared: it holds the histogram whose core
   is [c]) or [HLocalTimer c l] (local: it owns [l], a cleared clone of the local histogram it was
   started from; [c] is the SHARED core that clone flushes into when the timer value is dropped).
   Every way of ending a timer is [OpTimerStop s mode secs nanos] with mode TRecord
   (stop_and_record), TObserve (observe_duration), TDiscard (stop_and_discard) or TDrop (the value
   is just dropped, on this or - in the harness - on another thread); (secs, nanos) is what
   Instant::elapsed returns at that moment, an input of the scenario, and the observed number of
   seconds is as_secs_f64 secs nanos = (secs as f64) + (nanos as f64) / 1e9 (Duration::as_secs_f64).
   [OpClosure s secs nanos] is observe_closure_duration.
   Lemmas: Proofs/C18More.v, Proofs/C18Float.v (float part), Proofs/C12More.v, Proofs/LocalFacts.v.

   Vocabulary:
     timer_values w o c        the elapsed values operation [o] makes timers / closures contribute to
                               the shared core [c]: [e] for a stop (not discard) of a shared or local
                               timer of that core and for a closure on a shared handle, else nothing
     timer_values_hist w ops c  their concatenation along a history
     other_count w ops c       what everything else (direct observations, flushed / dropped / removed
                               local batches) adds to the count of core [c] along the history
     addends_hist w ops c      the addends of the sum in the order applied (a timer adds its value)
     wok, timers_clear         world invariants (hold of [world0], kept by every operation) *)
Require Import PV.Base.Prelude PV.Base.F64.
Require Import PV.Model.Proto PV.Model.Desc PV.Model.Value PV.Model.Hist PV.Model.Vec PV.Model.Registry PV.Model.World.
Require Import PV.Proofs.F64Facts PV.Proofs.HistFacts PV.Proofs.LocalFacts PV.Proofs.C12More PV.Proofs.C18Float PV.Proofs.C18More.
Require Import PV.Spec.SpecC12 PV.Spec.SpecC18 PV.Proofs.C12Spec PV.Proofs.C18Spec.
Open Scope N_scope.

(* ---- exactly once, for every history ---------------------------------------------------------------- *)
(* After ANY finite history (any number of shared and local timers started, stopped in any mode and
   order, outliving flushes / clears / drops of their local histogram, interleaved with every other
   operation and with collections), the count of a shared histogram is what it was, plus what the
   non-timer operations added, plus exactly ONE per timer of that histogram ended by stop_and_record /
   observe_duration / drop and per observe_closure_duration on a shared handle; timers ended by
   stop_and_discard add nothing.  The sum is the bit-exact fold of the addends in the order applied,
   where such a timer adds exactly its elapsed value. *)
Theorem c18_exactly_once w ops c h :
  wok w -> timers_clear w -> nth_error (w_h w) c = Some h ->
  exists h', nth_error (w_h (run_world w ops)) c = Some h'
    /\ hc_sample_count h' = hc_sample_count h + other_count w ops c + N.of_nat (length (timer_values_hist w ops c))
    /\ hc_sample_sum h' = fold_left PrimFloat.add (addends_hist w ops c) (hc_sample_sum h).
Proof. exact (timers_exactly_once w ops c h). Qed.

(* both invariants hold in every world reachable from the empty one *)
Theorem c18_reachable ops : wok (run_world world0 ops) /\ timers_clear (run_world world0 ops).
Proof. exact (conj (run_wok world0 ops wok0) (run_timers_clear world0 ops timers_clear0)). Qed.

(* ---- a non-negative number of seconds --------------------------------------------------------------- *)
(* for ALL values of Instant::elapsed: never negative, never NaN, never -0 *)
Theorem c18_nonneg secs nanos : PrimFloat.leb 0 (as_secs_f64 secs nanos) = true.
Proof. exact (as_secs_nonneg secs nanos). Qed.

Theorem c18_contributed_values_nonneg w ops c v :
  In v (timer_values_hist w ops c) -> PrimFloat.leb 0 v = true.
Proof. exact (timer_values_hist_nonneg ops w c v). Qed.

(* the value a local timer hands over is the sum 0 + e of its private histogram: that is e *)
Theorem c18_local_value secs nanos : (f_zero + as_secs_f64 secs nanos)%float = as_secs_f64 secs nanos.
Proof. exact (zero_plus_as_secs secs nanos). Qed.

(* ---- one stop ------------------------------------------------------------------------------------------ *)
(* a shared timer: stop_and_record / observe_duration / drop observe e once on the histogram,
   stop_and_discard does not; stop_and_record and stop_and_discard return e; the slot dies *)
Theorem c18_shared_stop w s c m secs nanos :
  slot w s = HTimer c ->
  let e := as_secs_f64 secs nanos in
  step w (OpTimerStop s m secs nanos)
  = (put_slot (if stop_records m then set_h w (upd (w_h w) c (fun h => hc_observe h e)) else w) s HDead, stop_returns m e).
Proof. exact (shared_timer_stop w s c m secs nanos). Qed.

Theorem c18_shared_records w s c m secs nanos h :
  slot w s = HTimer c -> stop_records m = true -> nth_error (w_h w) c = Some h ->
  let e := as_secs_f64 secs nanos in
  let w' := fst (step w (OpTimerStop s m secs nanos)) in
  nth_error (w_h w') c = Some (hc_observe h e)
  /\ (forall c', c' <> c -> nth_error (w_h w') c' = nth_error (w_h w) c')
  /\ w_v w' = w_v w
  /\ (forall s', s' <> s -> slot w' s' = slot w s')
  /\ slot w' s = HDead.
Proof. exact (shared_timer_records w s c m secs nanos h). Qed.

(* a local timer: its private histogram observes e (unless discarded) and is flushed into the
   SHARED core as the timer value is dropped *)
Theorem c18_local_stop w s c l m secs nanos :
  slot w s = HLocalTimer c l ->
  let e := as_secs_f64 secs nanos in
  step w (OpTimerStop s m secs nanos)
  = (put_slot (flush_lh w c (if stop_records m then lh_observe (bounds_of w c) l e else l)) s HDead, stop_returns m e).
Proof. exact (local_timer_stop w s c l m secs nanos). Qed.

(* ... so a recording stop of a local timer adds exactly one observation of value 0 + e to the
   shared histogram at once, and leaves every other slot alone - in particular the local histogram
   the timer was started from keeps its pending batch (the observation bypasses it) *)
Theorem c18_local_timer_shared w s c l m secs nanos h :
  timers_clear w -> slot w s = HLocalTimer c l -> stop_records m = true -> nth_error (w_h w) c = Some h ->
  let e := as_secs_f64 secs nanos in
  let w' := fst (step w (OpTimerStop s m secs nanos)) in
  (exists h', nth_error (w_h w') c = Some h'
      /\ hc_sample_count h' = hc_sample_count h + 1
      /\ hc_sample_sum h' = (hc_sample_sum h + (f_zero + e))%float)
  /\ (forall c', c' <> c -> nth_error (w_h w') c' = nth_error (w_h w) c')
  /\ w_v w' = w_v w
  /\ (forall s', s' <> s -> slot w' s' = slot w s')
  /\ slot w' s = HDead.
Proof. exact (local_timer_records_shared w s c l m secs nanos h). Qed.

(* ---- discard contributes nothing --------------------------------------------------------------------- *)
(* the whole world is unchanged except that the timer's slot dies; the elapsed seconds are returned *)
Theorem c18_discard_nothing w s secs nanos :
  timers_clear w -> (exists c, slot w s = HTimer c) \/ (exists c l, slot w s = HLocalTimer c l) ->
  step w (OpTimerStop s TDiscard secs nanos) = (put_slot w s HDead, OF64 (as_secs_f64 secs nanos)).
Proof. exact (timer_discard_nothing w s secs nanos). Qed.

(* ---- at most once --------------------------------------------------------------------------------------- *)
(* ending a timer ends it: any further stop is refused and changes nothing *)
Theorem c18_stop_once w s m secs nanos m' secs' nanos' :
  (exists c, slot w s = HTimer c) \/ (exists c l, slot w s = HLocalTimer c l) ->
  let w' := fst (step w (OpTimerStop s m secs nanos)) in
  step w' (OpTimerStop s m' secs' nanos') = (w', OBad).
Proof. exact (timer_stop_once w s m secs nanos m' secs' nanos'). Qed.

(* until it is stopped, nothing changes a timer: not a flush, clear or drop of the local histogram it
   was started from, not another timer, not a collection *)
Theorem c18_shared_timer_persists w ops s c :
  slot w s = HTimer c -> no_stop s ops -> slot (run_world w ops) s = HTimer c.
Proof. exact (shared_timer_persists w ops s c). Qed.
Theorem c18_local_timer_persists w ops s c l :
  slot w s = HLocalTimer c l -> no_stop s ops -> slot (run_world w ops) s = HLocalTimer c l.
Proof. exact (local_timer_persists w ops s c l). Qed.

(* ---- the closure form ---------------------------------------------------------------------------------- *)
(* observe_closure_duration observes e exactly once - directly on a shared histogram, into the
   pending batch on a local one - and hands the closure's result back (the harness passes a closure
   returning 42 and reports OUnit iff it gets 42 back) *)
Theorem c18_closure_shared w s c secs nanos :
  slot w s = HHist c ->
  step w (OpClosure s secs nanos) = (set_h w (upd (w_h w) c (fun h => hc_observe h (as_secs_f64 secs nanos))), OUnit).
Proof. exact (closure_shared w s c secs nanos). Qed.
Theorem c18_closure_local w s c l secs nanos :
  slot w s = HLocalHist c l ->
  step w (OpClosure s secs nanos) = (put_slot w s (HLocalHist c (lh_observe (bounds_of w c) l (as_secs_f64 secs nanos))), OUnit).
Proof. exact (closure_local w s c l secs nanos). Qed.


(* ---- the property as written from the text holds of the model ------------------------------------- *)
(* [spec_c18] (Spec/SpecC18.v) is the executable statement of C18 written from the property text (one
   observation of the elapsed seconds per timer ended by record / observe / drop, to the SHARED
   histogram also for a local timer, nothing for a discarded one, one per closure; returned seconds
   equal to the elapsed input and not negative; the closure's result handed back).  It accepts the
   model's own observations for every history in the domain of Proofs/C12Spec.v, which contains
   everything the C18 generator emits (all timer operations in all modes on shared histograms - plain
   or children of a histogram vector - and on local histograms, interleaved with observe / flush /
   clear / clone / drop / reads / collections; fewer than 2^63 observations; label tuples that do
   not collide under the label hash). *)
Theorem c18_spec_model ops : ops_in_domain ops = true -> spec_c18 ops (run world0 ops) = true.
Proof. exact (C18Spec.c18_spec_model ops). Qed.

(* ---- non-vacuity --------------------------------------------------------------------------------------- *)
Set Warnings "-inexact-float".
Definition ex_o : Opts := mkOpts [] [] [99] [104] [] [].
(* slot 0 shared histogram, 1 a local of it, 2 and 5 shared timers, 3 and 4 local timers (3 started
   before the local observed 0.5 and was flushed).  record 1.5 s; drop of the local timer 0.25 s (goes
   straight to the shared histogram, the local stays empty); discard; observe_duration 2 s; a second
   stop of timer 2 is refused; closure on the shared handle 0.125 s; closure on the local 3 s, which
   reaches the shared histogram when the local is dropped *)
Definition ex_ops : list op :=
  [OpHistogram (mkHOpts ex_o [1%float; 2%float]); OpLocal 0; OpTimer 0; OpTimer 1; OpObserve 1 0.5%float; OpTimer 1; OpTimer 0;
   OpFlush 1; OpSampleCount 0;
   OpTimerStop 2 TRecord 1 500000000; OpSampleCount 0; OpSampleSum 0;
   OpTimerStop 3 TDrop 0 250000000; OpSampleCount 0; OpSampleSum 0; OpSampleCount 1;
   OpTimerStop 4 TDiscard 7 0; OpSampleCount 0;
   OpTimerStop 5 TObserve 2 0; OpSampleCount 0; OpSampleSum 0;
   OpTimerStop 2 TRecord 9 9;
   OpClosure 0 0 125000000; OpSampleCount 0; OpClosure 1 3 0; OpSampleCount 0; OpSampleCount 1; OpDrop 1; OpSampleCount 0; OpSampleSum 0].
Example c18_ex_run :
  run world0 ex_ops
  = [ORes (Ok tt); OUnit; OUnit; OUnit; OUnit; OUnit; OUnit; OUnit; ON 1; OF64 1.5%float; ON 2; OF64 2%float; OUnit; ON 3;
     OF64 2.25%float; ON 0; OF64 7%float; ON 3; OUnit; ON 4; OF64 4.25%float; OBad; OUnit; ON 5; OUnit; ON 5; ON 1; OUnit; ON 6;
     OF64 7.375%float].
Proof. vm_compute. reflexivity. Qed.
Example c18_ex_account :
  timer_values_hist world0 ex_ops 0 = [1.5; 0.25; 2; 0.125]%float
  /\ other_count world0 ex_ops 0 = 2
  /\ addends_hist world0 ex_ops 0 = [0.5; 1.5; 0.25; 2; 0.125; 3]%float.
Proof. vm_compute. repeat split; reflexivity. Qed.
(* the hypotheses of c18_exactly_once are satisfiable *)
Example c18_ex_hyp :
  let w := run_world world0 [OpHistogram (mkHOpts ex_o [1%float; 2%float])] in
  wok w /\ timers_clear w /\ exists h, nth_error (w_h w) 0 = Some h.
Proof. cbv zeta. split; [apply c18_reachable|]. split; [apply c18_reachable|]. vm_compute. eexists; reflexivity. Qed.
Example c18_ex_elapsed : as_secs_f64 1 500000000 = 1.5%float /\ as_secs_f64 0 0 = 0%float /\ as_secs_f64 18446744073709551615 999999999 = 0x1p64%float.
Proof. vm_compute. repeat split; reflexivity. Qed.

(* the corpus scenario above is inside the domain *)
Example c18_ex_domain : ops_in_domain ex_ops = true.
Proof. vm_compute. reflexivity. Qed.

Check c18_exactly_once : forall w ops c h,
  wok w -> timers_clear w -> nth_error (w_h w) c = Some h ->
  exists h', nth_error (w_h (run_world w ops)) c = Some h'
    /\ hc_sample_count h' = hc_sample_count h + other_count w ops c + N.of_nat (length (timer_values_hist w ops c))
    /\ hc_sample_sum h' = fold_left PrimFloat.add (addends_hist w ops c) (hc_sample_sum h).
Check c18_nonneg : forall secs nanos, PrimFloat.leb 0 (as_secs_f64 secs nanos) = true.
Check c18_discard_nothing : forall w s secs nanos,
  timers_clear w -> (exists c, slot w s = HTimer c) \/ (exists c l, slot w s = HLocalTimer c l) ->
  step w (OpTimerStop s TDiscard secs nanos) = (put_slot w s HDead, OF64 (as_secs_f64 secs nanos)).
Check c18_local_timer_shared : forall w s c l m secs nanos h,
  timers_clear w -> slot w s = HLocalTimer c l -> stop_records m = true -> nth_error (w_h w) c = Some h ->
  let e := as_secs_f64 secs nanos in
  let w' := fst (step w (OpTimerStop s m secs nanos)) in
  (exists h', nth_error (w_h w') c = Some h'
      /\ hc_sample_count h' = hc_sample_count h + 1
      /\ hc_sample_sum h' = (hc_sample_sum h + (f_zero + e))%float)
  /\ (forall c', c' <> c -> nth_error (w_h w') c' = nth_error (w_h w) c')
  /\ w_v w' = w_v w
  /\ (forall s', s' <> s -> slot w' s' = slot w s')
  /\ slot w' s = HDead.
Check c18_stop_once : forall w s m secs nanos m' secs' nanos',
  (exists c, slot w s = HTimer c) \/ (exists c l, slot w s = HLocalTimer c l) ->
  let w' := fst (step w (OpTimerStop s m secs nanos)) in
  step w' (OpTimerStop s m' secs' nanos') = (w', OBad).
Check c18_closure_shared : forall w s c secs nanos,
  slot w s = HHist c ->
  step w (OpClosure s secs nanos) = (set_h w (upd (w_h w) c (fun h => hc_observe h (as_secs_f64 secs nanos))), OUnit).

Check c18_spec_model : forall ops, ops_in_domain ops = true -> spec_c18 ops (run world0 ops) = true.

Print Assumptions c18_spec_model.
Print Assumptions c18_exactly_once.
Print Assumptions c18_reachable.
Print Assumptions c18_nonneg.
Print Assumptions c18_contributed_values_nonneg.
Print Assumptions c18_local_value.
Print Assumptions c18_shared_stop.
Print Assumptions c18_shared_records.
Print Assumptions c18_local_stop.
Print Assumptions c18_local_timer_shared.
Print Assumptions c18_discard_nothing.
Print Assumptions c18_stop_once.
Print Assumptions c18_shared_timer_persists.
Print Assumptions c18_local_timer_persists.
Print Assumptions c18_closure_shared.
Print Assumptions c18_closure_local.
