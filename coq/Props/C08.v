(* C08  Bucket counts follow "value <= upper bound" for every input.
   Only statements, closed by [exact], pinned by [Check], with their assumptions printed.
   Model: Model/Hist.v (the repaired check_and_adjust_buckets, the two-shard core run by one
   thread, the local histogram).  Lemmas: Proofs/HistFacts.v, float facts Proofs/F64Facts.v. *)
Require Import PV.Base.Prelude PV.Base.F64 PV.Model.Proto PV.Model.Desc PV.Model.Value PV.Model.Hist.
Require Import PV.Proofs.F64Facts PV.Proofs.HistFacts.
Open Scope N_scope.

(* ---- which configurations are accepted ------------------------------------------------- *)

(* A bucket list is accepted exactly when, after an empty list has been replaced by the default
   buckets, no bound is NaN and every bound is < its successor; the configured bounds are that
   list without a trailing +inf. *)
Theorem c08_accept_iff bs bs' :
  check_and_adjust_buckets bs = Some bs' <->
  let bs0 := match bs with [] => DEFAULT_BUCKETS | _ => bs end in
  (forall b, In b bs0 -> b <> nan)
  /\ (forall i a b, nth_error bs0 i = Some a -> nth_error bs0 (S i) = Some b -> PrimFloat.ltb a b = true)
  /\ ((last bs0 f_zero = infinity /\ bs' = removelast bs0) \/ (last bs0 f_zero <> infinity /\ bs' = bs0)).
Proof. exact (check_and_adjust_iff' bs bs'). Qed.

Theorem c08_default_ok : check_and_adjust_buckets [] = Some DEFAULT_BUCKETS.
Proof. exact default_ok. Qed.

(* the configured bounds are numbers and strictly increasing (any two, not only neighbours) *)
Theorem c08_accepted_sorted bs bs' :
  check_and_adjust_buckets bs = Some bs' ->
  (forall b, In b bs' -> b <> nan)
  /\ (forall i j bi bj, (i < j)%nat -> nth_error bs' i = Some bi -> nth_error bs' j = Some bj -> PrimFloat.ltb bi bj = true).
Proof. exact (accepted_sorted bs bs'). Qed.

(* ---- what a collection reports ----------------------------------------------------------- *)

(* A history of one histogram: direct observations, flushes of a local histogram that observed
   [batch] (lh_observe, starting from a new / just flushed local), collections (proto).
     run_hops h0 ops    = the core after the history
     hist_values ops    = every value that reached the histogram, in the order applied
     spec_sum ops       = fold_left (+) addends (+0), where a direct observation contributes its
                          value and a flushed non-empty batch contributes fold_left (+) batch (+0)
     count_le b obs     = number of v in obs with (v <=? b) = true
   After ANY history with fewer than 2^63 observations on a fresh core whose bounds are strictly
   increasing, a collection returns (it does not hang) count = number of observations, the
   bit-exact sum, and for each bound b, in order, the cumulative count #(v <= b). *)
Theorem c08_counts bs h0 ops :
  fresh_core bs h0 ->
  (forall i a b, nth_error bs i = Some a -> nth_error bs (S i) = Some b -> PrimFloat.ltb a b = true) ->
  N.of_nat (length (hist_values ops)) < 2 ^ 63 ->
  let obs := hist_values ops in
  let h := run_hops h0 ops in
  (exists h', hc_proto h =
              Some (mkHist (N.of_nat (length obs)) (spec_sum ops) (map (fun b => mkBucket (count_le b obs) b) bs), h'))
  /\ hc_sample_count h = N.of_nat (length obs)
  /\ hc_sample_sum h = spec_sum ops.
Proof.
  intros F Hc Hlen. apply chain_lt_iff in Hc. change (2 ^ 63) with two63 in Hlen.
  exact (hist_history bs h0 ops F Hc Hlen).
Qed.

(* the same for every core HistogramCore::new builds: its bounds are the accepted configuration *)
Theorem c08_counts_new o vals h0 ops :
  hcore_new o vals = Ok h0 ->
  N.of_nat (length (hist_values ops)) < 2 ^ 63 ->
  let bs := hc_bounds h0 in
  let obs := hist_values ops in
  let h := run_hops h0 ops in
  check_and_adjust_buckets (ho_buckets o) = Some bs
  /\ (exists h', hc_proto h =
                 Some (mkHist (N.of_nat (length obs)) (spec_sum ops) (map (fun b => mkBucket (count_le b obs) b) bs), h'))
  /\ hc_sample_count h = N.of_nat (length obs)
  /\ hc_sample_sum h = spec_sum ops.
Proof.
  intros Hn Hlen. change (2 ^ 63) with two63 in Hlen. exact (hist_history_new o vals h0 ops Hn Hlen).
Qed.

(* with direct observations only, the sum is the sum of the observations in observation order *)
Theorem c08_direct_sum ops :
  direct_only ops -> spec_sum ops = fold_left PrimFloat.add (hist_values ops) f_zero.
Proof. exact (spec_sum_direct ops). Qed.

(* the counters never wrap below 2^64 observations *)
Theorem c08_no_wrap x : x < 2 ^ 64 -> wrap64 x = x.
Proof. exact (wrap64_small x). Qed.

(* ---- NaN and values above every bound ------------------------------------------------------ *)

(* they match no bucket and are <= no bound, so by c08_counts they are counted in h_count (the
   implicit +Inf bucket) only *)
Theorem c08_nan_inf v bs j :
  (v = nan \/ forall b, In b bs -> PrimFloat.ltb b v = true) ->
  find_bucket v bs j = None /\ forall b, In b bs -> PrimFloat.leb v b = false.
Proof. exact (outside_no_bucket v bs j). Qed.

(* the bucket an observation is counted in is the first bound it does not exceed *)
Theorem c08_first_match v bs j :
  find_bucket v bs O = Some j <->
  (exists b, nth_error bs j = Some b /\ PrimFloat.leb v b = true)
  /\ forall i b, (i < j)%nat -> nth_error bs i = Some b -> PrimFloat.leb v b = false.
Proof. exact (find_bucket_some v bs j). Qed.

(* ---- the local histogram --------------------------------------------------------------------- *)

(* bucket_vector bs obs = for each bucket index j, the number of v in obs whose first matching
   bound (find_bucket) is j.  A local histogram that observed [obs] holds exactly that vector,
   the number of observations and their sum; clearing it gives a new one. *)
Theorem c08_local_same bs obs :
  N.of_nat (length obs) < 2 ^ 64 ->
  let l := fold_left (lh_observe bs) obs (lh_new (length bs)) in
  lh_counts l = bucket_vector bs obs /\ lh_count l = N.of_nat (length obs)
  /\ lh_sum l = fold_left PrimFloat.add obs f_zero /\ lh_clear l = lh_new (length bs).
Proof. exact (local_same bs obs). Qed.

(* flushing it adds exactly that vector, that count and that sum (one addend) to the shard
   observers write to, and touches nothing else *)
Theorem c08_flush_adds bs h obs :
  hc_bounds h = bs -> obs <> [] -> N.of_nat (length obs) < 2 ^ 64 ->
  let s := hc_shard h (hc_hot h) in
  let h' := hc_flush h (local_of bs obs) in
  hc_total h' = hc_total h + N.of_nat (length obs)
  /\ hc_shard h' (negb (hc_hot h)) = hc_shard h (negb (hc_hot h))
  /\ hc_hot h' = hc_hot h
  /\ hc_shard h' (hc_hot h) =
     mkShard (sh_sum s + batch_sum obs)%float (wrap64 (sh_count s + N.of_nat (length obs)))
             (zip_add (sh_buckets s) (bucket_vector bs obs)).
Proof. exact (flush_adds bs h obs). Qed.

(* and the shared histogram fills its buckets by the same rule *)
Theorem c08_shared_same_rule bs h0 obs :
  fresh_core bs h0 ->
  (forall i a b, nth_error bs i = Some a -> nth_error bs (S i) = Some b -> PrimFloat.ltb a b = true) ->
  N.of_nat (length obs) < 2 ^ 63 ->
  let h := fold_left hc_observe obs h0 in
  sh_buckets (hc_shard h (hc_hot h)) = lh_counts (local_of bs obs)
  /\ sh_buckets (hc_shard h (hc_hot h)) = bucket_vector bs obs.
Proof.
  intros F Hc Hlen. apply chain_lt_iff in Hc. change (2 ^ 63) with two63 in Hlen.
  exact (shared_buckets_as_local bs h0 obs F Hc Hlen).
Qed.

(* ---- non-vacuity ------------------------------------------------------------------------------ *)
Set Warnings "-inexact-float".


Definition ex_opts (bs : list f64) : HistogramOpts := mkHOpts (mkOpts [] [] [104] [104] [] []) bs.
Definition ex_core (bs : list f64) : hcore :=
  match hcore_new (ex_opts bs) [] with Ok h => h | Err _ => mkHCore (mkDesc [] [] [] [] 0 0) [] [] false 0 (shard_new 0) (shard_new 0) end.

(* the hypotheses of c08_counts / c08_counts_new are satisfiable: [1; 2; +inf] is accepted as [1; 2] *)
Example c08_ex_new : hcore_new (ex_opts [1; 2; infinity]%float) [] = Ok (ex_core [1; 2; infinity]%float)
                     /\ fresh_core [1; 2]%float (ex_core [1; 2; infinity]%float).
Proof. vm_compute. repeat split. Qed.

(* direct observations (a bound itself, NaN, -0, a value above every bound), a flushed batch and
   a second collection *)
Definition ex_ops : list hop :=
  [HObserve 1; HObserve nan; HCollect; HFlush [0.5; 3]; HObserve (-0); HObserve 2; HFlush []; HCollect; HObserve 1.5]%float.
Example c08_ex_values : hist_values ex_ops = [1; nan; 0.5; 3; -0; 2; 1.5]%float.
Proof. reflexivity. Qed.
Example c08_ex_collect :
  option_map fst (hc_proto (run_hops (ex_core [1; 2; infinity]%float) ex_ops))
  = Some (mkHist 7 nan [mkBucket 3 1%float; mkBucket 5 2%float]).
Proof. vm_compute. reflexivity. Qed.
Example c08_ex_sum :
  option_map (fun p => h_sum (fst p)) (hc_proto (run_hops (ex_core [1; 2]%float) [HObserve 0.1; HFlush [0.2; 0.3]; HCollect; HObserve 0.4]%float))
  = Some (0.1 + (0 + 0.2 + 0.3) + 0.4)%float.
Proof. vm_compute. reflexivity. Qed.

(* refused configurations: NaN anywhere, equal or decreasing neighbours, -0 before +0 *)
Example c08_ex_refused :
  map check_and_adjust_buckets [[nan]; [1; nan]; [1; nan; 0.5]; [1; 1]; [2; 1]; [-0; 0]; [infinity; infinity]]%float
  = [None; None; None; None; None; None; None].
Proof. vm_compute. reflexivity. Qed.
Example c08_ex_accepted :
  map check_and_adjust_buckets [[infinity]; [neg_infinity; 0; infinity]; [0x1p-1074; 1]]%float
  = [Some []; Some [neg_infinity; 0]; Some [0x1p-1074; 1]]%float.
Proof. vm_compute. reflexivity. Qed.

Check c08_accept_iff : forall bs bs',
  check_and_adjust_buckets bs = Some bs' <->
  let bs0 := match bs with [] => DEFAULT_BUCKETS | _ => bs end in
  (forall b, In b bs0 -> b <> nan)
  /\ (forall i a b, nth_error bs0 i = Some a -> nth_error bs0 (S i) = Some b -> PrimFloat.ltb a b = true)
  /\ ((last bs0 f_zero = infinity /\ bs' = removelast bs0) \/ (last bs0 f_zero <> infinity /\ bs' = bs0)).
Check c08_counts : forall bs h0 ops,
  fresh_core bs h0 ->
  (forall i a b, nth_error bs i = Some a -> nth_error bs (S i) = Some b -> PrimFloat.ltb a b = true) ->
  N.of_nat (length (hist_values ops)) < 2 ^ 63 ->
  let obs := hist_values ops in
  let h := run_hops h0 ops in
  (exists h', hc_proto h =
              Some (mkHist (N.of_nat (length obs)) (spec_sum ops) (map (fun b => mkBucket (count_le b obs) b) bs), h'))
  /\ hc_sample_count h = N.of_nat (length obs)
  /\ hc_sample_sum h = spec_sum ops.
Check c08_local_same : forall bs obs,
  N.of_nat (length obs) < 2 ^ 64 ->
  let l := fold_left (lh_observe bs) obs (lh_new (length bs)) in
  lh_counts l = bucket_vector bs obs /\ lh_count l = N.of_nat (length obs)
  /\ lh_sum l = fold_left PrimFloat.add obs f_zero /\ lh_clear l = lh_new (length bs).
Check c08_nan_inf : forall v bs j,
  (v = nan \/ forall b, In b bs -> PrimFloat.ltb b v = true) ->
  find_bucket v bs j = None /\ forall b, In b bs -> PrimFloat.leb v b = false.

Print Assumptions c08_accept_iff.
Print Assumptions c08_default_ok.
Print Assumptions c08_accepted_sorted.
Print Assumptions c08_counts.
Print Assumptions c08_counts_new.
Print Assumptions c08_direct_sum.
Print Assumptions c08_no_wrap.
Print Assumptions c08_nan_inf.
Print Assumptions c08_first_match.
Print Assumptions c08_local_same.
Print Assumptions c08_flush_adds.
Print Assumptions c08_shared_same_rule.

(* ---- the executable spec written from the property text holds of the model, for ALL histories (Proofs/C08Spec.v) *)
Require Export PV.Proofs.C08SpecPinned.
