(* C04  Text exposition is a faithful, parseable rendering of the gathered state.
   Only statements, closed by [exact], pinned by [Check], with their assumptions printed.

   Model     Model/Text.v       src/encoder/text.rs statement by statement (writer model) and as a pure
                                list of lines (render model); f64::to_string / i64::to_string are the
                                oracles [show] / [showz] (Rust std, not this repository).
   Reader    Model/TextParse.v  an independent parser of text format 0.0.4 (lines, HELP/TYPE, sample
                                grammar, unescaping, Go-style float words, regrouping of _bucket/_sum/_count
                                and le/quantile), written from the format description; [view] = the data
                                model a faithful exposition must read back as.
   Lemmas    Proofs/TextEscape.v TextLine.v TextFamily.v TextFacts.v.
   Spec      Spec/SpecC04.v     the executable statement the driver evaluates on the implementation's bytes.

   Reading assumption (fixed once): after `# HELP name` exactly ONE blank separates the doc string, which
   is taken verbatim (the Go reference parser also strips further leading blanks of the doc string, which
   format 0.0.4 gives no way to protect). *)
From Coq Require Import String Ascii.
Require Import PV.Base.Prelude PV.Base.F64 PV.Base.Utf8 PV.Model.Proto PV.Model.Desc PV.Model.Value PV.Model.Text PV.Model.TextParse.
Require Import PV.Spec.SpecC04.
Require Import PV.Proofs.TextEscape PV.Proofs.TextLine PV.Proofs.TextFamily PV.Proofs.TextFacts.
Open Scope N_scope.

(* ---- the hypotheses, spelled out ------------------------------------------------------------ *)

(* the families the read-back is claimed for: names the library's validators accept, help and label
   values any lists of Unicode scalar values, and a histogram (summary) metric has no label of its
   own called le (quantile) *)
Theorem c04_family_valid_meaning f :
  family_valid f <->
  is_valid_metric_name (mf_name f) = true
  /\ wf_str (mf_help f)
  /\ forall m l, In m (mf_metric f) -> In l (m_label m) ->
       is_valid_label_name (lp_name l) = true /\ wf_str (lp_value l)
       /\ (mf_type f = HISTOGRAM -> lp_name l <> k_le) /\ (mf_type f = SUMMARY -> lp_name l <> k_quantile).
Proof. exact (iff_refl _). Qed.

(* the contract of the number oracles: every number the encoder prints for these families is rendered
   as a token of [0-9a-zA-Z.+-] that the exact decimal -> binary64 reader (resp. the int64 reader) maps
   back to the very same value.  Checked in Coq on every number of every scenario of every run. *)
Theorem c04_contract_meaning show showz fams :
  numbers_ok show showz fams = true <->
  (forall x, In x (fams_floats fams) -> parse_float (show x) = Some x /\ forallb num_char (show x) = true)
  /\ (forall z, In z (fams_ints fams) -> parse_int (showz z) = Some z /\ forallb num_char (showz z) = true).
Proof. exact (numbers_ok_iff show showz fams). Qed.

(* ---- the round trip ---------------------------------------------------------------------------- *)

(* For ALL lists of valid families and any oracles satisfying the contract: whatever a successful
   encode writes, the independent reader reads back as exactly the families: same order, names, help,
   types, label sets in order, values bit for bit (one NaN), non-zero timestamps, each histogram as its
   cumulative buckets plus a +Inf bucket equal to the count (unless a +inf bucket is given), then sum
   and count. *)
Theorem c04_roundtrip show showz fams out :
  Forall family_valid fams -> numbers_ok show showz fams = true ->
  encode show showz [] fams = EOk out ->
  parse out = Some (view fams).
Proof. exact (roundtrip_valid show showz fams out). Qed.

(* the layers below it *)
Theorem c04_escape_is_plain s q : escape_string s q = escape_plain q s.          (* the fast path changes nothing *)
Proof. exact (escape_string_plain s q). Qed.
Theorem c04_label_value_inverse v rest : read_quoted (escape_string v true ++ 34 :: rest) = Some (v, rest).
Proof. rewrite escape_string_plain. exact (read_quoted_escape v rest). Qed.
Theorem c04_help_inverse s : unescape_help (escape_string s false) = s.
Proof. rewrite escape_string_plain. exact (unescape_help_escape s). Qed.
Theorem c04_sample_line show showz name postfix m additional v :
  p_valid_name mname_char name = true -> forallb mname_char (opt_str postfix) = true ->
  Forall lname_ok (m_label m ++ opt_list additional) ->
  float_token_ok v (show v) = true -> ts_ok showz m ->
  parse_sample (sample_line show showz name postfix m additional v) = Some (mk_sample name postfix m additional v).
Proof. exact (parse_sample_line show showz name postfix m additional v). Qed.
(* histogram / summary regrouping, all metrics of all families, from the parsed lines *)
Theorem c04_regroup show fams : Forall good_family fams ->
  (forall f m, In f fams -> In m (mf_metric f) -> metric_ok show (mf_type f) m) ->
  parse_plines (flat_map (family_plines show) fams) = Some (view fams).
Proof. exact (parse_plines_families show fams). Qed.

(* ---- no help text or label value can add, remove or alter a line ------------------------------ *)

(* no rendered line contains a raw LF, whatever the help text and the label values are *)
Theorem c04_no_raw_lf show showz f :
  names_ok f -> (forall m, In m (mf_metric f) -> metric_nums show showz (mf_type f) m) ->
  Forall line_nolf (family_lines show showz f).
Proof. exact (family_lines_nolf show showz f). Qed.

(* the number of LF in the output is a function of the shape *)
Theorem c04_line_count show showz fams out :
  Forall family_valid fams -> numbers_ok show showz fams = true ->
  encode show showz [] fams = EOk out ->
  count_lf out = shape_lines fams.
Proof. exact (line_count_valid show showz fams out). Qed.
(* ... and the shape does not look at help texts (beyond empty / non-empty) or label values *)
Theorem c04_shape_only fams fams' : Forall2 same_shape_family fams fams' -> shape_lines fams = shape_lines fams'.
Proof. exact (same_shape_lines fams fams'). Qed.

(* ---- one function behind three entry points; append-only; UTF-8 -------------------------------- *)

Theorem c04_append_only show showz buf fams :
  encode show showz buf fams =
  match encode show showz [] fams with
  | EOk out => EOk (buf ++ out)
  | EErr e out => EErr e (buf ++ out)
  | EPanic => EPanic
  end.
Proof. exact (encode_append_only show showz buf fams). Qed.

Theorem c04_entry_points show showz buf fams :
  encode_utf8 show showz buf fams = encode show showz buf fams
  /\ encode_to_string show showz fams =
     match encode show showz [] fams with EOk out => EOk out | EErr e _ => EErr e [] | EPanic => EPanic end.
Proof. exact (entry_points_same show showz buf fams). Qed.

(* the statement-by-statement writer model is the render model: buffer ++ utf8 (lines joined by LF) *)
Theorem c04_writer_is_render show showz fams w :
  encode_impl show showz fams w
  = (w ++ utf8 (unlines (fst (render_families show showz fams))), snd (render_families show showz fams)).
Proof. exact (encode_impl_render show showz fams w). Qed.

(* the output is the UTF-8 encoding of a list of scalar values (and strict decoding gives it back) *)
Theorem c04_utf8 show showz fams out :
  Forall family_valid fams -> numbers_ok show showz fams = true ->
  encode show showz [] fams = EOk out ->
  exists text, out = utf8 text /\ wf_str text /\ decode_utf8 out = Some text.
Proof. exact (output_utf8_valid show showz fams out). Qed.

(* ---- Err iff ------------------------------------------------------------------------------------ *)

Theorem c04_err_iff show showz buf fams :
  (exists e out, encode show showz buf fams = EErr e out)
  <-> (exists f, In f fams /\ (mf_metric f = [] \/ mf_name f = [] \/ mf_type f = UNTYPED)).
Proof. exact (err_iff show showz buf fams). Qed.
Theorem c04_ok_iff show showz buf fams :
  (exists out, encode show showz buf fams = EOk out)
  <-> (forall f, In f fams -> ~ (mf_metric f = [] \/ mf_name f = [] \/ mf_type f = UNTYPED)).
Proof. exact (ok_iff show showz buf fams). Qed.
Theorem c04_never_panics show showz buf fams : encode show showz buf fams <> EPanic.
Proof. exact (never_panics show showz buf fams). Qed.

(* ---- the executable spec of the driver holds of the model, for all inputs ---------------------- *)

(* spec_c04 (Spec/SpecC04.v: read-back of Ok runs, read-back of the prefix of Err runs, line count,
   append-only, equal entry points, Err iff) is true of the model's five answers for EVERY list of
   families and pre-filled buffers, under the contract of the oracles alone.  The per-run check
   [model_agrees show showz c] then transfers it to the implementation's answers. *)
Theorem c04_spec_model show showz fams pt pu :
  numbers_ok show showz fams = true ->
  spec_c04 (model_case show showz fams pt pu) = true
  /\ model_agrees show showz (model_case show showz fams pt pu) = true.
Proof. exact (spec_c04_model show showz fams pt pu). Qed.

Check c04_roundtrip : forall show showz fams out,
  Forall family_valid fams -> numbers_ok show showz fams = true ->
  encode show showz [] fams = EOk out -> parse out = Some (view fams).
Check c04_line_count : forall show showz fams out,
  Forall family_valid fams -> numbers_ok show showz fams = true ->
  encode show showz [] fams = EOk out -> count_lf out = shape_lines fams.
Check c04_append_only : forall show showz buf fams,
  encode show showz buf fams =
  match encode show showz [] fams with EOk out => EOk (buf ++ out) | EErr e out => EErr e (buf ++ out) | EPanic => EPanic end.
Check c04_utf8 : forall show showz fams out,
  Forall family_valid fams -> numbers_ok show showz fams = true -> encode show showz [] fams = EOk out ->
  exists text, out = utf8 text /\ wf_str text /\ decode_utf8 out = Some text.
Check c04_err_iff : forall show showz buf fams,
  (exists e out, encode show showz buf fams = EErr e out)
  <-> (exists f, In f fams /\ (mf_metric f = [] \/ mf_name f = [] \/ mf_type f = UNTYPED)).

Print Assumptions c04_family_valid_meaning.
Print Assumptions c04_contract_meaning.
Print Assumptions c04_roundtrip.
Print Assumptions c04_escape_is_plain.
Print Assumptions c04_label_value_inverse.
Print Assumptions c04_help_inverse.
Print Assumptions c04_sample_line.
Print Assumptions c04_regroup.
Print Assumptions c04_no_raw_lf.
Print Assumptions c04_line_count.
Print Assumptions c04_shape_only.
Print Assumptions c04_append_only.
Print Assumptions c04_entry_points.
Print Assumptions c04_writer_is_render.
Print Assumptions c04_utf8.
Print Assumptions c04_err_iff.
Print Assumptions c04_ok_iff.
Print Assumptions c04_never_panics.
Print Assumptions c04_spec_model.

(* ---- non-vacuity: a concrete list of families, with a concrete table for the oracles ----------- *)
Module Ex.
  Definition b (s : string) : list N := List.map N_of_ascii (list_ascii_of_string s).   (* bytes / ASCII code points *)

  Definition ftab : list (N * str) :=
    [(4613937818241073152, b "3"); (4602678819172646912, b "0.5"); (4607182418800017408, b "1");
     (4612811918334230528, b "2.5"); (4616471093031469056, b "4.25"); (9218868437227405312, b "inf");
     (4611686018427387904, b "2"); (18442240474082181120, b "-inf"); (9221120237041090560, b "NaN")].
  Definition ztab : list (Z * str) := [(1700000000000%Z, b "1700000000000"); ((-5)%Z, b "-5")].
  Definition show := tab_show ftab.
  Definition showz := tab_showz ztab.

  (* a label value with backslash, the two characters backslash n, quote and a raw LF *)
  Definition nasty : str := b "x\n""y" ++ [10].
  Definition fams : list MetricFamily :=
    [ mkMF (b "req_total") (b "Total ""requests""" ++ [10] ++ b "second \ line") COUNTER
        [ mkMetric [mkLP (b "path") (b "/a""b\c" ++ [10] ++ b "d"); mkLP (b "who") [233; 128512]]
                   None (Some 3%float) None None None (Some 1700000000000%Z) ];
      mkMF (b "lat") [] HISTOGRAM
        [ mkMetric [mkLP (b "k") nasty] None None None None
                   (Some (mkHist 3 4.25%float [mkBucket 1 0.5%float; mkBucket 3 2.5%float])) None;
          mkMetric [] None None None None (Some (mkHist 2 1%float [mkBucket 2 infinity])) (Some (-5)%Z) ];
      mkMF (b "s") (b "quantiles") SUMMARY
        [ mkMetric [] None None (Some (mkSummary 2 nan [mkQuantile 0.5%float 1%float])) None None None ];
      mkMF (b "g") [] GAUGE [ mkMetric [] (Some neg_infinity) None None None None None ] ].

  (* the text, as the bytes of this (UTF-8) source file *)
  Definition expected : list N := b
"# HELP req_total Total ""requests""\nsecond \\ line
# TYPE req_total counter
req_total{path=""/a\""b\\c\nd"",who=""é😀""} 3 1700000000000
# TYPE lat histogram
lat_bucket{k=""x\\n\""y\n"",le=""0.5""} 1
lat_bucket{k=""x\\n\""y\n"",le=""2.5""} 3
lat_bucket{k=""x\\n\""y\n"",le=""+Inf""} 3
lat_sum{k=""x\\n\""y\n""} 4.25
lat_count{k=""x\\n\""y\n""} 3
lat_bucket{le=""inf""} 2 -5
lat_sum 1 -5
lat_count 2 -5
# HELP s quantiles
# TYPE s summary
s{quantile=""0.5""} 1
s_sum NaN
s_count 2
# TYPE g gauge
g -inf
".
End Ex.

(* the model writes exactly this text *)
Example c04_example_text : encode Ex.show Ex.showz [] Ex.fams = EOk Ex.expected.
Proof. vm_compute. reflexivity. Qed.
(* the hypotheses of c04_roundtrip / c04_line_count / c04_utf8 hold of it *)
Example c04_example_hyps : forallb family_ok Ex.fams = true /\ numbers_ok Ex.show Ex.showz Ex.fams = true.
Proof. vm_compute. split; reflexivity. Qed.
Example c04_example_valid : Forall family_valid Ex.fams.
Proof. exact (families_ok_valid Ex.fams (proj1 c04_example_hyps)). Qed.
(* and so do the conclusions: by the theorem ... *)
Example c04_example_by_theorem :
  parse Ex.expected = Some (view Ex.fams) /\ count_lf Ex.expected = shape_lines Ex.fams.
Proof.
  split.
  - exact (c04_roundtrip Ex.show Ex.showz Ex.fams Ex.expected c04_example_valid (proj2 c04_example_hyps) c04_example_text).
  - exact (c04_line_count Ex.show Ex.showz Ex.fams Ex.expected c04_example_valid (proj2 c04_example_hyps) c04_example_text).
Qed.
(* ... and by running the independent reader on the bytes *)
Example c04_example_by_computation :
  (match parse Ex.expected with Some v => vfams_eqb v (view Ex.fams) | None => false end) = true
  /\ (count_lf Ex.expected =? 19) = true.
Proof. vm_compute. split; reflexivity. Qed.
(* an unescaped LF in a label value would have been read as a different text: the reader is not lenient *)
Example c04_example_reader_strict : parse (Ex.b ("a{k=""x" ++ String (ascii_of_nat 10) "y""} 1" ++ String (ascii_of_nat 10) "")) = None.
Proof. vm_compute. reflexivity. Qed.
(* Err paths are inhabited: an UNTYPED family, a family without metrics, and what was written before *)
Example c04_example_err :
  encode Ex.show Ex.showz [1; 2] [mkMF (Ex.b "g") [] GAUGE [mkMetric [] (Some neg_infinity) None None None None None];
                                 mkMF (Ex.b "u") (Ex.b "h") UNTYPED [empty_metric []]]
  = EErr EMsg ([1; 2] ++ Ex.b ("# TYPE g gauge" ++ String (ascii_of_nat 10) "g -inf" ++ String (ascii_of_nat 10)
                              "# HELP u h" ++ String (ascii_of_nat 10) "# TYPE u untyped" ++ String (ascii_of_nat 10) ""))
  /\ encode Ex.show Ex.showz [] [mkMF (Ex.b "x") [] COUNTER []] = EErr EMsg [].
Proof. vm_compute. split; reflexivity. Qed.

(* ================================================================================================= *)
(* End to end: Registry::gather -> TextEncoder -> independent reader.                                 *)
(* [family_valid], the hypothesis of c04_roundtrip, is derived for what gather returns               *)
(* (Proofs/TextGather.v, on top of C09's gather_names_wf and GatherFacts).                            *)
(* ================================================================================================= *)
Require Import PV.Model.Hist PV.Model.Vec PV.Model.Registry PV.Model.World.
Require Import PV.Proofs.GatherFacts PV.Proofs.C09Facts PV.Proofs.TextGather.

(* the hypotheses that are not consequences of the library's own checks, spelled out *)
Theorem c04_gather_hyps_meaning l collected :
  (Forall strings_wf collected <->
   forall f, In f collected -> wf_str (mf_help f) /\ forall m lp, In m (mf_metric f) -> In lp (m_label m) -> wf_str (lp_value lp))
  /\ (common_strings_wf l <-> forall kv, In kv (match l with Some x => x | None => [] end) -> wf_str (snd kv))
  /\ (agree_type collected <->
      forall f g, In f collected -> In g collected -> mf_metric f <> [] -> mf_metric g <> [] -> mf_name f = mf_name g -> mf_type f = mf_type g).
Proof. split; [apply Forall_forall|split; apply iff_refl]. Qed.

(* what a library metric hands to gather is a counter, a gauge or a histogram, and its histogram samples
   carry no label called le (HistogramOpts / HistogramVec::new refuse it) *)
Theorem c04_lib_family_reserved d mf :
  lib_family d mf ->
  (mf_type mf = COUNTER \/ mf_type mf = GAUGE \/ mf_type mf = HISTOGRAM)
  /\ forall m lp, In m (mf_metric mf) -> In lp (m_label m) ->
       (mf_type mf = HISTOGRAM -> lp_name lp <> k_le) /\ (mf_type mf = SUMMARY -> lp_name lp <> k_quantile).
Proof. exact (lib_family_reserved d mf). Qed.

(* For a registry built by new_custom (its common labels being a map) and collected families that come
   from library metrics admitted by a successful register call (C09's hypotheses, which give the names):
   if moreover
     - families of one name declare one type                               (the hypothesis of C14),
     - help texts, label values and common label values are Rust Strings   (lists of scalar values),
   then every gathered family is inside the domain of the round trip.  (That no common label of the
   registry is called le is part of what new_custom checks since the repair `fix: refuse the reserved
   label name le among the registry's common labels`; before it, it was a fourth hypothesis here.) *)
Theorem c04_gathered_valid {C} p l collected :
  (exists r0 : regcore C, reg_new_custom p l = Ok r0) ->
  map_like match l with Some x => x | None => [] end ->
  Forall (fun mf => exists d, lib_family d mf /\ @admitted C p l d) collected ->
  agree_type collected ->
  Forall strings_wf collected -> common_strings_wf l ->
  Forall family_valid (gather_families p l collected).
Proof. exact (@gather_family_valid_lib C p l collected). Qed.

(* gather prunes empty families, names are valid hence non-empty, the library produces no UNTYPED family:
   TextEncoder cannot return Err on what gather returns (C09's hypotheses suffice) *)
Theorem c04_gathered_never_errs {C} show showz p l collected buf :
  (exists r0 : regcore C, reg_new_custom p l = Ok r0) ->
  map_like match l with Some x => x | None => [] end ->
  Forall (fun mf => exists d, lib_family d mf /\ @admitted C p l d) collected ->
  exists out, encode show showz buf (gather_families p l collected) = EOk out.
Proof. exact (@gathered_encode_ok_lib show showz C p l collected buf). Qed.

(* gather -> encode -> parse = the gathered families; and the line count is their shape *)
Theorem c04_gathered_roundtrip {C} show showz p l collected :
  (exists r0 : regcore C, reg_new_custom p l = Ok r0) ->
  map_like match l with Some x => x | None => [] end ->
  Forall (fun mf => exists d, lib_family d mf /\ @admitted C p l d) collected ->
  agree_type collected ->
  Forall strings_wf collected -> common_strings_wf l ->
  numbers_ok show showz (gather_families p l collected) = true ->
  exists out, encode show showz [] (gather_families p l collected) = EOk out
              /\ parse out = Some (view (gather_families p l collected))
              /\ count_lf out = shape_lines (gather_families p l collected).
Proof. exact (@gathered_roundtrip_lib show showz C p l collected). Qed.

(* the same for arbitrary collectors (custom ones included), in terms of the collected families only:
   gathered names well-formed (the conclusion of C09), types agree per name, strings are Strings, and no
   histogram (summary) sample ends up with a label le (quantile), own or common *)
Theorem c04_gathered_roundtrip_gen show showz p l collected out :
  Forall C09Facts.family_wf (gather_families p l collected) ->
  agree_type collected ->
  Forall strings_wf collected -> common_strings_wf l ->
  Forall reserved_free collected -> common_reserved_free l collected ->
  numbers_ok show showz (gather_families p l collected) = true ->
  encode show showz [] (gather_families p l collected) = EOk out ->
  parse out = Some (view (gather_families p l collected)).
Proof. exact (gathered_roundtrip_gen show showz p l collected out). Qed.

Check @c04_gathered_roundtrip : forall C show showz p l collected,
  (exists r0 : regcore C, reg_new_custom p l = Ok r0) ->
  map_like match l with Some x => x | None => [] end ->
  Forall (fun mf => exists d, lib_family d mf /\ @admitted C p l d) collected ->
  agree_type collected ->
  Forall strings_wf collected -> common_strings_wf l ->
  numbers_ok show showz (gather_families p l collected) = true ->
  exists out, encode show showz [] (gather_families p l collected) = EOk out
              /\ parse out = Some (view (gather_families p l collected))
              /\ count_lf out = shape_lines (gather_families p l collected).
Print Assumptions c04_gather_hyps_meaning.
Print Assumptions c04_lib_family_reserved.
Print Assumptions c04_gathered_valid.
Print Assumptions c04_gathered_never_errs.
Print Assumptions c04_gathered_roundtrip.
Print Assumptions c04_gathered_roundtrip_gen.

(* World-level form (NOT proved; stated here so that what is missing is visible):
     forall ops, (no OpCustom in ops) -> forall fams, In (OFams fams) (run world0 ops) -> Forall family_valid fams
   needs the extra hypotheses of c04_gathered_valid restated on the history (types agree per name; strings
   are Strings) and one lemma that no file provides yet:
     world_collect_lib : forall ops ri rc fs w', nth_error (w_reg (run_world world0 ops)) ri = Some rc ->
       collect_all (run_world world0 ops) (r_collectors rc) = Some (fs, w') ->
       reg_reach p l rc /\ Forall (fun mf => exists d, lib_family d mf /\ admitted p l d) fs
   i.e. an invariant of World.step over all constructor / update / register ops tying every slot to the
   lib_family constructor it was built by (C05Facts.world_ok is the analogous invariant for vectors only).
   The example below does the instance by computation. *)

(* ---- non-vacuity: a history of library calls (World.v), its gather, the hypotheses, the round trip ---- *)
Module GEx.
  (* Registry::new_custom(Some("p"), {z="1"}); Counter c{a="1"} (help h); HistogramVec n_v{b} (help h, buckets [1]);
     with_label_values(["x"]).observe(1.0); register both; gather *)
  Definition ops : list op :=
    [OpRegistry ex_prefix ex_labels; OpCounter NF ex_o; OpHistVec (mkHOpts (mkOpts [110] [] [118] [104] [] []) ex_bs) [[98]];
     OpWith 2 [[120]]; OpObserve 3 f_one; OpRegister 0 1; OpRegister 0 2; OpGather 0].
  Definition gathered : list MetricFamily := gather_families ex_prefix ex_labels ex_collected.
  Definition show := tab_show [(0, Ex.b "0"); (4607182418800017408, Ex.b "1")].
  Definition showz := tab_showz [].
  Definition expected : list N := Ex.b
"# HELP p_c h
# TYPE p_c counter
p_c{a=""1"",z=""1""} 0
# HELP p_n_v h
# TYPE p_n_v histogram
p_n_v_bucket{b=""x"",z=""1"",le=""1""} 1
p_n_v_bucket{b=""x"",z=""1"",le=""+Inf""} 1
p_n_v_sum{b=""x"",z=""1""} 1
p_n_v_count{b=""x"",z=""1""} 1
".
  (* a registry whose common label is called le, one histogram *)
  Definition le_ops : list op :=
    [OpRegistry None (Some [(k_le, [120])]); OpHistogram (mkHOpts (mkOpts [] [] [104] [104] [] []) [f_one]);
     OpObserve 1 f_one; OpRegister 0 1; OpGather 0].
End GEx.

(* the history is accepted call by call and its gather is gather_families of the collected families *)
Example c04_gathered_example_run :
  run world0 GEx.ops = [ORes (Ok tt); ORes (Ok tt); ORes (Ok tt); ORes (Ok tt); OUnit; ORes (Ok tt); ORes (Ok tt); OFams GEx.gathered].
Proof. vm_compute. reflexivity. Qed.
(* every hypothesis of c04_gathered_roundtrip holds of it (the first three are C09's example) *)
Example c04_gathered_example_hyps :
  (exists r0 : regcore nat, reg_new_custom ex_prefix ex_labels = Ok r0)
  /\ map_like match ex_labels with Some x => x | None => [] end
  /\ Forall (fun mf => exists d, lib_family d mf /\ @admitted nat ex_prefix ex_labels d) ex_collected
  /\ agree_type ex_collected
  /\ Forall strings_wf ex_collected /\ common_strings_wf ex_labels
  /\ numbers_ok GEx.show GEx.showz GEx.gathered = true.
Proof.
  destruct gather_names_wf_example as (H1 & H2 & H3 & _).
  split; [exact H1|]. split; [exact H2|]. split; [exact H3|].
  split; [apply agree_typeb_ok; vm_compute; reflexivity|].
  split; [repeat constructor; apply strings_wfb_ok; vm_compute; reflexivity|].
  split; [intros kv [<-|[]]; repeat constructor|].
  vm_compute. reflexivity.
Qed.
(* the conclusion by the theorem ... *)
Example c04_gathered_example_by_theorem :
  exists out, encode GEx.show GEx.showz [] GEx.gathered = EOk out /\ parse out = Some (view GEx.gathered)
              /\ count_lf out = shape_lines GEx.gathered.
Proof.
  destruct c04_gathered_example_hyps as (H1 & H2 & H3 & H4 & H5 & H6 & H8).
  exact (@c04_gathered_roundtrip nat GEx.show GEx.showz ex_prefix ex_labels ex_collected H1 H2 H3 H4 H5 H6 H8).
Qed.
(* ... and by computation, with the text spelled out *)
Example c04_gathered_example_by_computation :
  encode GEx.show GEx.showz [] GEx.gathered = EOk GEx.expected
  /\ (match parse GEx.expected with Some v => vfams_eqb v (view GEx.gathered) | None => false end) = true.
Proof. vm_compute. split; reflexivity. Qed.

(* The reserved name le among the registry's common labels.  Before the repair `fix: refuse the reserved
   label name le among the registry's common labels` the history GEx.le_ops
     Registry::new_custom(None, {le="x"}); Histogram h; observe(1.0); register; gather
   was accepted call by call, the encoder returned Ok, and the text carried two labels called le on every
   bucket line (h_bucket{le="x",le="1"} 1 - confirmed on the real crate), which no reader of format 0.0.4
   can regroup into the histogram: parse out <> Some (view [g]).  It was found by this development as the
   one hypothesis of c04_gathered_roundtrip the library did not enforce.  After the repair the registry
   itself is refused, and nothing is registered or gathered: *)
Example c04_gathered_common_le_refused :
  (forall C, ~ exists r0 : regcore C, reg_new_custom None (Some [(k_le, [120])]) = Ok r0)
  /\ run world0 GEx.le_ops = [ORes (Err EMsg); ORes (Ok tt); OUnit; OBad; OBad].
Proof.
  split.
  - intros C [r0 H]. vm_compute in H. discriminate.
  - vm_compute. reflexivity.
Qed.
