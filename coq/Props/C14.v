(* C14  A gathered family never mixes metric types.
   Only statements, closed by [exact], pinned by [Check], with their assumptions printed.

   Full statement of the property: for ALL sets of successfully registered collectors, every
   sample of every gathered family carries the payload of the family's declared type, and that
   type does not depend on registration order or hash seed.
   It is FALSE of the faithful model (and of the code): a Desc carries no metric type, so
   register accepts a Counter and a Gauge under one name, and gather merges them into one family
   typed after whichever collector is iterated first ([c14_refuted]).  What holds is the
   conditional statement [c14_homogeneous_if]: under the hypothesis that collectors sharing a
   name share a type.  The failure is recorded as known finding C14-mixed-kinds. *)
Require Import PV.Base.Prelude PV.Base.F64.
Require Import PV.Model.Proto PV.Model.Desc PV.Model.Value PV.Model.Registry PV.Model.World.
Require Import PV.Proofs.GatherFacts PV.Proofs.GatherWorld.
From Coq Require Import Permutation.

(* [payload_matches t m]: exactly the value field that the encoders read for a family of type t
   is present in m (COUNTER: m_counter, GAUGE: m_gauge, HISTOGRAM: m_histogram, ...) *)
Theorem c14_payload_matches_spec t m :
  payload_matches t m = true <->
  (is_some (m_gauge m), is_some (m_counter m), is_some (m_summary m), is_some (m_untyped m), is_some (m_histogram m))
  = match t with
    | GAUGE => (true, false, false, false, false)
    | COUNTER => (false, true, false, false, false)
    | SUMMARY => (false, false, true, false, false)
    | UNTYPED => (false, false, false, true, false)
    | HISTOGRAM => (false, false, false, false, true)
    end.
Proof. exact (payload_matches_spec t m). Qed.

(* if collected families of one name declare one type and every collected sample carries the
   payload of its family's type, then so does every sample of every gathered family ... *)
Theorem c14_homogeneous_if p l collected :
  agree_type collected -> payloads_ok collected -> payloads_ok (gather_families p l collected).
Proof. exact (gather_homogeneous p l collected). Qed.
(* ... and the declared type of every family is the same for every order in which the collectors
   (and every vector's children) are iterated *)
Theorem c14_type_order_invariant p l collected mid collected' :
  Permutation collected mid -> Forall2 fam_perm mid collected' -> agree_type collected ->
  map name_type (gather_families p l collected) = map name_type (gather_families p l collected').
Proof. exact (gather_types_order_invariant p l collected mid collected'). Qed.
Theorem c14_type_perm_invariant p l collected collected' :
  Permutation collected collected' -> agree_type collected ->
  map name_type (gather_families p l collected) = map name_type (gather_families p l collected').
Proof. exact (gather_types_perm_invariant p l collected collected'). Qed.

(* the unconditional statement is false: two registration orders of Counter x{k="1"} = 5 and
   Gauge x{k="2"} = 7 (same help), both accepted by register; one family, COUNTER in one order
   and GAUGE in the other, each holding a sample of the other kind *)
Theorem c14_refuted :
  exists fC fG,
    run world0 (c14_ops true) = repeat (ORes (Ok tt)) 2 ++ repeat OUnit 2 ++ repeat (ORes (Ok tt)) 3 ++ [OFams [fC]]
    /\ run world0 (c14_ops false) = repeat (ORes (Ok tt)) 2 ++ repeat OUnit 2 ++ repeat (ORes (Ok tt)) 3 ++ [OFams [fG]]
    /\ Permutation (final_collectors (c14_ops true)) (final_collectors (c14_ops false))
    /\ mf_type fC = COUNTER /\ mf_type fG = GAUGE
    /\ mf_name fC = mf_name fG /\ mf_help fC = mf_help fG /\ mf_metric fC = mf_metric fG
    /\ (exists m, In m (mf_metric fC) /\ payload_matches COUNTER m = false /\ payload_matches GAUGE m = true)
    /\ (exists m, In m (mf_metric fG) /\ payload_matches GAUGE m = false /\ payload_matches COUNTER m = true).
Proof. exact c14_witness. Qed.
(* at the level of gather_families: the type hypothesis of c14_homogeneous_if (and of
   c07_perm_invariant) cannot be dropped; all other hypotheses hold for the witness *)
Theorem c14_refuted_gather :
  Permutation [famC; famG] [famG; famC]
  /\ cmp_separates [famC; famG]
  /\ payloads_ok [famC; famG]
  /\ map name_type (gather_families None None [famC; famG]) = [(s_x, COUNTER)]
  /\ map name_type (gather_families None None [famG; famC]) = [(s_x, GAUGE)]
  /\ ~ payloads_ok (gather_families None None [famC; famG])
  /\ ~ payloads_ok (gather_families None None [famG; famC]).
Proof. exact c14_gather_depends_on_order. Qed.

(* non-vacuity of c14_homogeneous_if: two counters of one name and a gauge of another *)
Example c14_hypotheses_satisfiable :
  agree_type ex_fams /\ payloads_ok ex_fams /\ length (gather_families None None ex_fams) = 2%nat.
Proof. exact ex_fams_ok. Qed.

Check c14_homogeneous_if : forall p l collected,
  agree_type collected -> payloads_ok collected -> payloads_ok (gather_families p l collected).
Check c14_type_perm_invariant : forall p l collected collected',
  Permutation collected collected' -> agree_type collected ->
  map name_type (gather_families p l collected) = map name_type (gather_families p l collected').
Print Assumptions c14_payload_matches_spec.
Print Assumptions c14_homogeneous_if.
Print Assumptions c14_type_order_invariant.
Print Assumptions c14_type_perm_invariant.
Print Assumptions c14_refuted.
Print Assumptions c14_refuted_gather.
Print Assumptions c14_hypotheses_satisfiable.

(* ---- the executable spec written from the property text holds of the model (Proofs/C14Spec.v), for all histories of
   all operations except OpCustom, outside the recorded mixed-kinds class *)
Require Import PV.Spec.SpecC07 PV.Spec.SpecC14 PV.Proofs.C07SpecRegs PV.Proofs.C14Spec.
Require Export PV.Proofs.C14SpecPinned.
Check c14_spec_of_model : forall ops, dom14 ops = true ->
  spec_c14 ops (run world0 ops) = true \/ known_c14 ops (run world0 ops) = true.
Check c14_spec_of_model_strict : forall ops, dom14 ops = true ->
  mixed_kinds_registered ops (run world0 ops) = false -> spec_c14 ops (run world0 ops) = true.
Check c14_spec_of_model_custom : forall ops, PV.Proofs.C14SpecCustom.dom14c ops = true ->
  spec_c14 ops (run world0 ops) = true \/ known_c14 ops (run world0 ops) = true.
Check c14_spec_of_model_strict_custom : forall ops, PV.Proofs.C14SpecCustom.dom14c ops = true ->
  mixed_kinds_registered ops (run world0 ops) = false -> spec_c14 ops (run world0 ops) = true.
