(* C16  Exposition does not depend on the protobuf feature.
   Only statements, closed by [exact] (or a few lines from lemmas), pinned by [Check], with their
   assumptions printed.

   Vocabulary (Model/DataModel.v, Proofs/C16Facts.v):
     DM                 the accessor interface of `crate::proto` that the shared source text uses
                        (67 operations over ten abstract message types)
     pb, plain, wm      its instances: proto/proto_model.rs + src/proto_ext.rs (Option-wrapped
                        fields, defaulting getters), src/plain_model.rs (plain fields), and the
                        data model of the world model (Model/Proto.v = what the harness prints)
     Hom A B            maps between two instances commuting with every operation (69 laws)
     view_x I           all getters of a value, recursively, as a plain record
     R_X x y            view_x pb x = y : the protobuf-side value x and the plain value y answer
                        every getter alike
     collect_dm, gather_dm, encode_dm, exposition_dm, exposition_text_dm
                        the library's collectors, RegistryCore::gather and TextEncoder, written
                        once for an arbitrary instance
     csrc               what a registered collector exposes: the numbers and strings a counter /
                        gauge / histogram / vector / pulling gauge holds, or the setter calls a
                        custom collector makes
     run_prog           straight-line programs over the interface operations *)
Require Import PV.Base.Prelude PV.Base.F64 PV.Base.Utf8.
Require Import PV.Model.Proto PV.Model.Desc PV.Model.Value PV.Model.Hist PV.Model.Vec PV.Model.Registry PV.Model.World.
Require Import PV.Model.Text PV.Model.DataModel PV.Proofs.C16Facts.
Open Scope N_scope.

(* ---------------------------------------------------------------------------------------- *)
(* The simulation relation                                                                    *)
(* ---------------------------------------------------------------------------------------- *)

(* related = every getter agrees, recursively (for each of the ten message types) *)
Theorem c16_relation_iff_getters :
  (forall x y, R_LP x y <-> LP_name pb x = LP_name plain y /\ LP_value pb x = LP_value plain y)
  /\ (forall x y, R_G x y <-> G_value pb x = G_value plain y)
  /\ (forall x y, R_C x y <-> C_value pb x = C_value plain y)
  /\ (forall x y, R_U x y <-> U_value pb x = U_value plain y)
  /\ (forall x y, R_Q x y <-> Q_quantile pb x = Q_quantile plain y /\ Q_value pb x = Q_value plain y)
  /\ (forall x y, R_B x y <-> B_cumulative_count pb x = B_cumulative_count plain y /\ B_upper_bound pb x = B_upper_bound plain y)
  /\ (forall x y, R_S x y <-> S_sample_count pb x = S_sample_count plain y /\ S_sample_sum pb x = S_sample_sum plain y
                              /\ Forall2 R_Q (S_get_quantile pb x) (S_get_quantile plain y))
  /\ (forall x y, R_H x y <-> H_get_sample_count pb x = H_get_sample_count plain y /\ H_get_sample_sum pb x = H_get_sample_sum plain y
                              /\ Forall2 R_B (H_get_bucket pb x) (H_get_bucket plain y))
  /\ (forall x y, R_M x y <-> Forall2 R_LP (M_get_label pb x) (M_get_label plain y)
                              /\ R_G (M_get_gauge pb x) (M_get_gauge plain y) /\ R_C (M_get_counter pb x) (M_get_counter plain y)
                              /\ R_S (M_get_summary pb x) (M_get_summary plain y) /\ R_U (M_get_untyped pb x) (M_get_untyped plain y)
                              /\ R_H (M_get_histogram pb x) (M_get_histogram plain y)
                              /\ M_timestamp_ms pb x = M_timestamp_ms plain y)
  /\ (forall x y, R_MF x y <-> MF_name pb x = MF_name plain y /\ MF_help pb x = MF_help plain y
                               /\ MF_get_field_type pb x = MF_get_field_type plain y
                               /\ Forall2 R_M (MF_get_metric pb x) (MF_get_metric plain y)).
Proof.
  exact (conj R_LP_iff (conj R_G_iff (conj R_C_iff (conj R_U_iff (conj R_Q_iff (conj R_B_iff
         (conj R_S_iff (conj R_H_iff (conj R_M_iff R_MF_iff))))))))).
Qed.
Print Assumptions c16_relation_iff_getters.

(* every one of the 67 interface operations preserves it: the views form a homomorphism of
   instances (the record type [Hom] lists one law per operation, two for each take_* ) *)
Theorem c16_simulation :
  exists h : Hom pb plain,
    hLP h = view_lp pb /\ hG h = view_g pb /\ hC h = view_c pb /\ hU h = view_u pb /\ hQ h = view_q pb /\ hS h = view_s pb
    /\ hB h = view_b pb /\ hH h = view_h pb /\ hM h = view_m pb /\ hMF h = view_mf pb.
Proof. exists hom_view_pb. repeat split; reflexivity. Qed.
Print Assumptions c16_simulation.

(* the same, read relationally, for the shapes of operation that occur *)
Theorem c16_relation_preserved :
  (forall x y v, R_MF x y -> R_MF (MF_set_name pb x v) (MF_set_name plain y v))
  /\ (forall x y g g', R_M x y -> R_G g g' -> R_M (M_set_gauge pb x g) (M_set_gauge plain y g'))
  /\ (forall x y, R_M x y -> R_H (M_get_histogram pb x) (M_get_histogram plain y))
  /\ (forall x y, R_M x y -> M_timestamp_ms pb x = M_timestamp_ms plain y)
  /\ (forall x y, R_M x y -> Forall2 R_LP (fst (M_take_label pb x)) (fst (M_take_label plain y))
                             /\ R_M (snd (M_take_label pb x)) (snd (M_take_label plain y)))
  /\ (forall x y f g, R_MF x y -> (forall l l', Forall2 R_M l l' -> Forall2 R_M (f l) (g l')) ->
                      R_MF (MF_mut_metric pb x f) (MF_mut_metric plain y g)).
Proof. exact R_preserved_shapes. Qed.
Print Assumptions c16_relation_preserved.

(* the relation is not equality of representations: the protobuf side distinguishes "never set"
   from "set to the default", the getters do not (non-vacuity of the relation) *)
Example c16_relation_forgets_presence :
  R_M pb_m0 pl_m0 /\ R_M (M_set_timestamp_ms pb pb_m0 0%Z) pl_m0 /\ pb_m0 <> M_set_timestamp_ms pb pb_m0 0%Z.
Proof. exact R_forgets_presence. Qed.
Print Assumptions c16_relation_forgets_presence.

(* ---------------------------------------------------------------------------------------- *)
(* The property                                                                               *)
(* ---------------------------------------------------------------------------------------- *)

(* For every set of registered collectors (in any iteration order), every registry prefix and
   common labels, and every behaviour of the number formatting of std: what gather() returns in
   the protobuf build answers every getter like what it returns in the plain build, and
   TextEncoder::encode_to_string gives the same result (same bytes, Err for Err). *)
Theorem c16_same prefix labels (cs : list csrc) (show : f64 -> str) (showz : Z -> str) :
  Forall2 R_MF (exposition_dm pb prefix labels cs) (exposition_dm plain prefix labels cs)
  /\ exposition_text_dm pb show showz prefix labels cs = exposition_text_dm plain show showz prefix labels cs.
Proof.
  split.
  - apply map_eq_Forall2. exact (exposition_hom hom_view_pb prefix labels cs).
  - exact (exposition_text_hom hom_view_pb show showz prefix labels cs).
Qed.
Print Assumptions c16_same.

(* metric creation and registration read label names back from the label pairs they built
   (HistogramCore::new: the reserved name le; register: clash with the registry's common labels);
   the names, hence those Ok / Err decisions, are the same *)
Theorem c16_same_label_names vars consts :
  label_names_dm pb (make_label_pairs_dm pb vars (const_pairs_dm pb consts))
  = label_names_dm plain (make_label_pairs_dm plain vars (const_pairs_dm plain consts))
  /\ label_names_dm pb (const_pairs_dm pb consts) = label_names_dm plain (const_pairs_dm plain consts).
Proof. exact (created_label_names_hom hom_view_pb vars consts). Qed.
Print Assumptions c16_same_label_names.

(* the two halves for ARBITRARY related arguments (families that were not produced by the
   modelled collectors, any output buffer, all three entry points) *)
Theorem c16_same_gather prefix labels cpb cpl :
  Forall2 R_MF cpb cpl -> Forall2 R_MF (gather_dm pb prefix labels cpb) (gather_dm plain prefix labels cpl).
Proof. exact (gather_R prefix labels cpb cpl). Qed.
Print Assumptions c16_same_gather.
Theorem c16_same_text show showz buf fpb fpl :
  Forall2 R_MF fpb fpl ->
  encode_dm pb show showz buf fpb = encode_dm plain show showz buf fpl
  /\ encode_to_string_dm pb show showz fpb = encode_to_string_dm plain show showz fpl.
Proof. exact (encode_R show showz buf fpb fpl). Qed.
Print Assumptions c16_same_text.

(* any straight-line client of the interface computes the same scalars in both configurations,
   and its message-typed results are related *)
Theorem c16_same_programs (p : list instr) :
  map (hVal hom_view_pb) (run_prog pb p) = run_prog plain p
  /\ map (scalar_of pb) (run_prog pb p) = map (scalar_of plain) (run_prog plain p).
Proof. split; [exact (run_prog_hom hom_view_pb p)|exact (run_prog_scalars hom_view_pb p)]. Qed.
Print Assumptions c16_same_programs.

(* ---------------------------------------------------------------------------------------- *)
(* Defaults: fields that are read without having been set                                     *)
(* ---------------------------------------------------------------------------------------- *)
(* [both a b v]: the protobuf-side read a and the plain read b both give v.  Left: a defaulting
   getter on an unset Option / MessageField / enum; right: the #[derive(Default)] initial value. *)
Theorem c16_defaults :
  (* LabelPair::default() *)
  both (LP_name pb (LP_default pb)) (LP_name plain (LP_default plain)) []
  /\ both (LP_value pb (LP_default pb)) (LP_value plain (LP_default plain)) []
  (* Gauge / Counter / Untyped / Quantile / Bucket ::default() *)
  /\ both (G_value pb (G_default pb)) (G_value plain (G_default plain)) f_zero
  /\ both (C_value pb (C_default pb)) (C_value plain (C_default plain)) f_zero
  /\ both (U_value pb (U_default pb)) (U_value plain (U_default plain)) f_zero
  /\ both (Q_quantile pb (Q_default pb)) (Q_quantile plain (Q_default plain)) f_zero
  /\ both (Q_value pb (Q_default pb)) (Q_value plain (Q_default plain)) f_zero
  /\ both (B_cumulative_count pb (B_default pb)) (B_cumulative_count plain (B_default plain)) 0
  /\ both (B_upper_bound pb (B_default pb)) (B_upper_bound plain (B_default plain)) f_zero
  (* Summary / Histogram ::default() *)
  /\ both (S_sample_count pb (S_default pb)) (S_sample_count plain (S_default plain)) 0
  /\ both (S_sample_sum pb (S_default pb)) (S_sample_sum plain (S_default plain)) f_zero
  /\ (S_get_quantile pb (S_default pb) = [] /\ S_get_quantile plain (S_default plain) = [])
  /\ both (H_get_sample_count pb (H_default pb)) (H_get_sample_count plain (H_default plain)) 0
  /\ both (H_get_sample_sum pb (H_default pb)) (H_get_sample_sum plain (H_default plain)) f_zero
  /\ (H_get_bucket pb (H_default pb) = [] /\ H_get_bucket plain (H_default plain) = [])
  (* timestamp_ms: never set by the library; read by gather's sort_by and by the text encoder *)
  /\ both (M_timestamp_ms pb (M_default pb)) (M_timestamp_ms plain (M_default plain)) 0%Z
  /\ ((forall ls, M_timestamp_ms pb (M_from_label pb ls) = 0%Z) /\ (forall ls, M_timestamp_ms plain (M_from_label plain ls) = 0%Z))
  /\ ((forall g, M_timestamp_ms pb (M_from_gauge pb g) = 0%Z) /\ (forall g, M_timestamp_ms plain (M_from_gauge plain g) = 0%Z))
  (* label of a metric made by from_gauge (PullingGauge): read by gather and by the encoder *)
  /\ ((forall g, M_get_label pb (M_from_gauge pb g) = []) /\ (forall g, M_get_label plain (M_from_gauge plain g) = []))
  (* a payload the family type asks for but the metric does not carry (a custom collector; a gauge
     sample merged into a counter family = C14's finding): the encoder reads it anyway *)
  /\ ((forall ls, C_value pb (M_get_counter pb (M_from_label pb ls)) = f_zero)
      /\ (forall ls, C_value plain (M_get_counter plain (M_from_label plain ls)) = f_zero))
  /\ ((forall ls, G_value pb (M_get_gauge pb (M_from_label pb ls)) = f_zero)
      /\ (forall ls, G_value plain (M_get_gauge plain (M_from_label plain ls)) = f_zero))
  /\ ((forall ls g, C_value pb (M_get_counter pb (M_set_gauge pb (M_from_label pb ls) g)) = f_zero)
      /\ (forall ls g, C_value plain (M_get_counter plain (M_set_gauge plain (M_from_label plain ls) g)) = f_zero))
  /\ ((forall ls c, G_value pb (M_get_gauge pb (M_set_counter pb (M_from_label pb ls) c)) = f_zero)
      /\ (forall ls c, G_value plain (M_get_gauge plain (M_set_counter plain (M_from_label plain ls) c)) = f_zero))
  /\ ((forall g, C_value pb (M_get_counter pb (M_from_gauge pb g)) = f_zero)
      /\ (forall g, C_value plain (M_get_counter plain (M_from_gauge plain g)) = f_zero))
  /\ ((forall ls, U_value pb (M_get_untyped pb (M_from_label pb ls)) = f_zero)
      /\ (forall ls, U_value plain (M_get_untyped plain (M_from_label plain ls)) = f_zero))
  /\ ((forall ls, H_get_sample_count pb (M_get_histogram pb (M_from_label pb ls)) = 0
                  /\ H_get_sample_sum pb (M_get_histogram pb (M_from_label pb ls)) = f_zero
                  /\ H_get_bucket pb (M_get_histogram pb (M_from_label pb ls)) = [])
      /\ (forall ls, H_get_sample_count plain (M_get_histogram plain (M_from_label plain ls)) = 0
                     /\ H_get_sample_sum plain (M_get_histogram plain (M_from_label plain ls)) = f_zero
                     /\ H_get_bucket plain (M_get_histogram plain (M_from_label plain ls)) = []))
  /\ ((forall ls, S_sample_count pb (M_get_summary pb (M_from_label pb ls)) = 0
                  /\ S_sample_sum pb (M_get_summary pb (M_from_label pb ls)) = f_zero
                  /\ S_get_quantile pb (M_get_summary pb (M_from_label pb ls)) = [])
      /\ (forall ls, S_sample_count plain (M_get_summary plain (M_from_label plain ls)) = 0
                     /\ S_sample_sum plain (M_get_summary plain (M_from_label plain ls)) = f_zero
                     /\ S_get_quantile plain (M_get_summary plain (M_from_label plain ls)) = []))
  (* MetricFamily::default() and partially initialised families (custom collectors) *)
  /\ both (MF_name pb (MF_default pb)) (MF_name plain (MF_default plain)) []
  /\ both (MF_help pb (MF_default pb)) (MF_help plain (MF_default plain)) []
  /\ both (MF_get_field_type pb (MF_default pb)) (MF_get_field_type plain (MF_default plain)) COUNTER
  /\ (MF_get_metric pb (MF_default pb) = [] /\ MF_get_metric plain (MF_default plain) = [])
  /\ ((forall n, MF_help pb (MF_set_name pb (MF_default pb) n) = []) /\ (forall n, MF_help plain (MF_set_name plain (MF_default plain) n) = []))
  /\ ((forall n, MF_get_field_type pb (MF_set_name pb (MF_default pb) n) = COUNTER)
      /\ (forall n, MF_get_field_type plain (MF_set_name plain (MF_default plain) n) = COUNTER)).
Proof. unfold both. repeat split; intros; reflexivity. Qed.
Print Assumptions c16_defaults.

(* the enum field: set_field_type / get_field_type round-trip through the i32 of EnumOrUnknown;
   a value outside the table (only a parser could store one) would read as COUNTER *)
Theorem c16_enum_field :
  (forall f t, MF_get_field_type pb (MF_set_field_type pb f t) = t)
  /\ (forall name help ms, MF_get_field_type pb (mkPbMF name help (Some 7%Z) ms) = COUNTER).
Proof. split; [exact set_field_type_roundtrip|exact unknown_enum_reads_counter]. Qed.
Print Assumptions c16_enum_field.

(* ---------------------------------------------------------------------------------------- *)
(* Tie to the world model and to what the harness prints                                      *)
(* ---------------------------------------------------------------------------------------- *)
(* The shared code at instance [wm] IS the gather / text encoder of the world model (which the
   per-run check compares with both builds), and OpGather of the world model is that gather. *)
Theorem c16_world_model_is_an_instance :
  (forall p l collected, gather_dm wm p l collected = gather_families p l collected)
  /\ (forall show showz buf fams, encode_dm wm show showz buf fams = encode show showz buf fams)
  /\ (forall show showz fams, encode_to_string_dm wm show showz fams = encode_to_string show showz fams)
  /\ (forall w r ri rc fs w', slot w r = HRegistry ri -> nth_error (w_reg w) ri = Some rc ->
        collect_all w (r_collectors rc) = Some (fs, w') ->
        step w (OpGather r) = (w', OFams (gather_dm wm (r_prefix rc) (r_labels rc) fs))).
Proof. exact (conj gather_wm (conj encode_wm (conj encode_to_string_wm world_gather_dm))). Qed.
Print Assumptions c16_world_model_is_an_instance.

(* What the harness prints: the protobuf build's gather prints as the world model's answer on the
   printed collected families; the plain build's gather of the corresponding plain families prints
   as the getters normal form of that answer (this is the comparison the per-run check makes);
   both text encoders produce the world model's bytes. *)
Theorem c16_printed_outputs p l (cpb : list pbMF) show showz buf :
  map print_pb_mf (gather_dm pb p l cpb) = gather_families p l (map print_pb_mf cpb)
  /\ map print_pl_mf (gather_dm plain p l (map (view_mf pb) cpb))
     = map getters_family (gather_families p l (map print_pb_mf cpb))
  /\ encode_dm pb show showz buf cpb = encode show showz buf (map print_pb_mf cpb)
  /\ encode_dm plain show showz buf (map (view_mf pb) cpb) = encode show showz buf (map print_pb_mf cpb).
Proof.
  destruct (printed_gather_two_builds p l cpb) as [G1 G2]. destruct (text_two_builds show showz buf cpb) as [T1 T2].
  exact (conj G1 (conj G2 (conj T1 T2))).
Qed.
Print Assumptions c16_printed_outputs.

(* ---------------------------------------------------------------------------------------- *)
(* Non-vacuity: a concrete exposition                                                         *)
(* ---------------------------------------------------------------------------------------- *)
(* a counter vector with two children, a histogram, a pulling gauge and a custom collector whose
   family leaves help, type and every payload unset but carries a timestamp; registry prefix "p",
   two common labels given in reverse name order; numbers rendered as "0" *)
Definition ex_cs : list csrc :=
  [ CLib [120] [104] COUNTER [SrcValue [([118], [98])] [([107], [49])] VCounter (bits2f 0x4014000000000000);
                              SrcValue [([118], [97])] [([107], [49])] VCounter f_one];
    CLib [104] [104;104] HISTOGRAM [SrcHist [] [] (bits2f 0x3fe0000000000000) 3 [(1, f_one); (3, bits2f 0x4000000000000000)]];
    CLib [103] [104] GAUGE [SrcPulling f_one];
    CUser [mkSMF (Some [117]) None None (Some [mkPbM [mkPbLP (Some [97]) None] None None None None None (Some 5%Z)])] ].
Definition ex_show (_ : f64) : str := [48].
Definition ex_showz (_ : Z) : str := [48].
Example c16_example :
  (* four families come out, the text is non-empty and the same in both configurations *)
  length (exposition_dm pb (Some [112]) (Some [([122], [50]); ([99], [49])]) ex_cs) = 4%nat
  /\ (exists bytes, bytes <> []
        /\ exposition_text_dm pb ex_show ex_showz (Some [112]) (Some [([122], [50]); ([99], [49])]) ex_cs = EOk bytes
        /\ exposition_text_dm plain ex_show ex_showz (Some [112]) (Some [([122], [50]); ([99], [49])]) ex_cs = EOk bytes)
  (* the protobuf-side result really has unset fields (the relation is doing work) *)
  /\ (exists f, In f (exposition_dm pb (Some [112]) (Some [([122], [50]); ([99], [49])]) ex_cs)
                /\ pb_mf_help f = None /\ pb_mf_type f = None)
  (* the gathered structures, seen through the getters, coincide *)
  /\ map (view_mf pb) (exposition_dm pb (Some [112]) (Some [([122], [50]); ([99], [49])]) ex_cs)
     = exposition_dm plain (Some [112]) (Some [([122], [50]); ([99], [49])]) ex_cs.
Proof.
  split; [vm_compute; reflexivity|]. split.
  - eexists. split; [|split; vm_compute; reflexivity]. discriminate.
  - split; [|vm_compute; reflexivity].
    eexists. split; [vm_compute; right; right; left; reflexivity|]. split; reflexivity.
Qed.
Print Assumptions c16_example.

(* and a program: build a metric from a gauge, read a counter that was never set, copy a name
   through a pure function back into a setter *)
Example c16_example_program :
  let p := [I0 KG; I0 (KF f_one); I2 GSetValue 0 1; I1 MFromGauge 2; I1 MGetCounter 3; I1 CValue 4; I1 MTimestamp 3;
            I0 KMF; I1 MFName 7; I1 (StrFun (fun s => s ++ [95])) 8; I2 MFSetName 7 9; I1 MFName 10; I1 MFType 10] in
  map (scalar_of pb) (run_prog pb p) = map (scalar_of plain) (run_prog plain p)
  /\ nth 5 (map (scalar_of pb) (run_prog pb p)) XOpaque = XF f_zero
  /\ nth 11 (map (scalar_of plain) (run_prog plain p)) XOpaque = XStr [95]
  /\ nth 12 (map (scalar_of pb) (run_prog pb p)) XOpaque = XTy COUNTER.
Proof. cbv zeta. repeat split; vm_compute; reflexivity. Qed.
Print Assumptions c16_example_program.

Check c16_same : forall prefix labels (cs : list csrc) (show : f64 -> str) (showz : Z -> str),
  Forall2 R_MF (exposition_dm pb prefix labels cs) (exposition_dm plain prefix labels cs)
  /\ exposition_text_dm pb show showz prefix labels cs = exposition_text_dm plain show showz prefix labels cs.
Check c16_same_gather : forall prefix labels cpb cpl,
  Forall2 R_MF cpb cpl -> Forall2 R_MF (gather_dm pb prefix labels cpb) (gather_dm plain prefix labels cpl).
Check c16_same_text : forall show showz buf fpb fpl, Forall2 R_MF fpb fpl ->
  encode_dm pb show showz buf fpb = encode_dm plain show showz buf fpl
  /\ encode_to_string_dm pb show showz fpb = encode_to_string_dm plain show showz fpl.
Check c16_same_programs : forall p : list instr,
  map (hVal hom_view_pb) (run_prog pb p) = run_prog plain p
  /\ map (scalar_of pb) (run_prog pb p) = map (scalar_of plain) (run_prog plain p).
Check c16_simulation : exists h : Hom pb plain,
    hLP h = view_lp pb /\ hG h = view_g pb /\ hC h = view_c pb /\ hU h = view_u pb /\ hQ h = view_q pb /\ hS h = view_s pb
    /\ hB h = view_b pb /\ hH h = view_h pb /\ hM h = view_m pb /\ hMF h = view_mf pb.
