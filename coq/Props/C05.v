(* C05  A metric vector keeps exactly one child per distinct label-value tuple.
   Only statements, closed by [exact], pinned by [Check], with their assumptions printed.

   Full statement of the property: within one vector, for ALL label-name lists and ALL pairs of
   label-value tuples over arbitrary UTF-8 strings, two requests return handles to the same child
   exactly when the tuples are equal (map form: equal for every label name); the child exposes
   exactly those values under the declared names plus the constant labels and starts from zero;
   counter, gauge, histogram vectors and the local vectors alike; requests with the wrong number
   or names of labels return an error and create nothing.

   Children are looked up by the FNV-1a-64 hash of the label values only, so the unconditional
   "exactly when" is FALSE of the faithful model and of the code: [c05_refuted_collision] and
   [c05_unconditional_iff_false] give two different one-value tuples with equal hashes that are
   served by one child (known finding C05-fnv-collision; identity by 64-bit hash is a design
   decision of the library).  What holds for all inputs is stated in two layers:
   (i)  the byte string that is hashed is an injective function of the tuple ([c05_enc_inj]; this is
        what the separator repair c29b14e established: boundary-shifted tuples, empty values and
        any characters are told apart);
   (ii) every statement about the 64-bit key carries the explicit hypothesis
        [fnv_injective_on [preimage t1; preimage t2]] on the two tuples concerned
        ([c05_same_child_iff], [c05_with_same_child_iff], [c05_local_key_iff]).
   Everything else (map form, labels, start value, errors, local caches) is unconditional. *)
Require Import PV.Base.Prelude PV.Base.Utf8 PV.Base.Fnv PV.Base.F64 PV.Base.Utf8Facts.
Require Import PV.Model.Proto PV.Model.Desc PV.Model.Value PV.Model.Hist PV.Model.Vec PV.Model.Registry PV.Model.World.
Require Import PV.Proofs.DescFacts PV.Proofs.C05Facts PV.Proofs.C05More PV.Proofs.C05Spec PV.Spec.SpecC05.
From Coq Require Import Permutation.
Open Scope N_scope.

(* ---------- (i) the hashed bytes ---------- *)
(* the bytes fed to the hasher (utf8 of each value followed by 0xFF) determine the tuple: tuples that
   differ only in where one value ends and the next begins, empty values, any scalar values *)
Theorem c05_enc_inj t1 t2 : wf_strs t1 -> wf_strs t2 ->
  (label_values_preimage t1 = label_values_preimage t2 <-> t1 = t2).
Proof. exact (enc_inj t1 t2). Qed.

(* ---------- the invariant of the children maps in every reachable world ---------- *)
(* keys pairwise distinct, children pairwise distinct and allocated, descriptor as created *)
Theorem c05_reachable_ok ops : world_ok (run_world world0 ops).
Proof. exact (reachable_ok ops). Qed.

(* ---------- (ii) same child iff same tuple ---------- *)
(* lookup-or-create level: first request, any operations without removals, second request *)
Theorem c05_same_child_iff w vi v t1 t2 h1 h2 w1 hd1 mid w3 hd2 :
  world_ok w -> nth_error (w_vec w) vi = Some v ->
  hash_label_values (v_desc v) t1 = Ok h1 -> vec_get_or_create w vi h1 t1 = Ok (w1, hd1) ->
  forallb keeps mid = true ->
  hash_label_values (v_desc v) t2 = Ok h2 -> vec_get_or_create (run_world w1 mid) vi h2 t2 = Ok (w3, hd2) ->
  wf_strs t1 -> wf_strs t2 ->
  fnv_injective_on [label_values_preimage t1; label_values_preimage t2] ->
  (hd1 = hd2 <-> t1 = t2).
Proof. exact (same_child_iff w vi v t1 t2 h1 h2 w1 hd1 mid w3 hd2). Qed.
(* the same for two API calls get_metric_with_label_values in a history: the handles they append to the
   slot table are equal exactly when the tuples are *)
Theorem c05_with_same_child_iff w s t1 w1 mid s' t2 w3 vi :
  world_ok w -> slot w s = HVec vi -> step w (OpWith s t1) = (w1, ORes (Ok tt)) ->
  forallb keeps mid = true ->
  slot (run_world w1 mid) s' = HVec vi -> step (run_world w1 mid) (OpWith s' t2) = (w3, ORes (Ok tt)) ->
  wf_strs t1 -> wf_strs t2 ->
  fnv_injective_on [label_values_preimage t1; label_values_preimage t2] ->
  (slot w1 (length (w_slots w)) = slot w3 (length (w_slots (run_world w1 mid))) <-> t1 = t2).
Proof. exact (with_same_child_iff w s t1 w1 mid s' t2 w3 vi). Qed.

(* ---------- the map form ---------- *)
(* a map whose key set is the set of declared names is the positional request for the values read in
   declared order: same new world, same observation, same handle *)
Theorem c05_map_form w s vi v kvs : slot w s = HVec vi -> nth_error (w_vec w) vi = Some v ->
  Permutation (map fst (amap_of kvs)) (d_vars (v_desc v)) ->
  step w (OpWithMap s kvs) = step w (OpWith s (map (value_of (amap_of kvs)) (d_vars (v_desc v)))).
Proof. exact (with_map_is_with w s vi v kvs). Qed.
(* whatever the iteration order of the map ... *)
Theorem c05_map_iteration_order d labels labels' :
  NoDup (map fst labels) -> Permutation labels labels' -> hash_labels d labels = hash_labels d labels'.
Proof. exact (hash_labels_perm d labels labels'). Qed.
(* ... and whatever the order in which the caller supplies the entries *)
Theorem c05_map_key_order w s kvs kvs' : NoDup (map fst kvs) -> Permutation kvs kvs' ->
  step w (OpWithMap s kvs) = step w (OpWithMap s kvs').
Proof. exact (with_map_key_order w s kvs kvs'). Qed.
(* any other map is an error: Ok exactly when the key set is the set of declared names *)
Theorem c05_map_ok_iff w s vi v kvs : world_ok w -> slot w s = HVec vi -> nth_error (w_vec w) vi = Some v -> good_buckets v ->
  NoDup (d_vars (v_desc v)) ->
  (snd (step w (OpWithMap s kvs)) = ORes (Ok tt) <-> Permutation (map fst (amap_of kvs)) (d_vars (v_desc v))).
Proof. exact (with_map_ok_iff w s vi v kvs). Qed.
Theorem c05_map_error_kinds d labels e : hash_labels d labels = Err e ->
  (length labels <> length (d_vars d) /\ e = ECard (lenN (d_vars d)) (lenN labels))
  \/ (length labels = length (d_vars d) /\ e = EMsg /\ exists n, In n (d_vars d) /\ ~ In n (map fst labels)).
Proof. exact (hash_labels_err_inv d labels e). Qed.

(* ---------- the labels and the start value of a child ---------- *)
(* child_labels d t = (declared names x requested values) ++ constant labels, sorted by name *)
Theorem c05_child_labels d t :
  Permutation (child_labels d t) (declared_pairs d t ++ d_const_pairs d) /\ lp_sorted (child_labels d t).
Proof. exact (child_labels_exact d t). Qed.
(* a request for a tuple without a child creates, in a counter / gauge vector, exactly one value cell
   with those labels and the value zero, registers it under the tuple's key and touches nothing else *)
Theorem c05_fresh_child_value w s vi v t tk nk h :
  world_ok w -> slot w s = HVec vi -> nth_error (w_vec w) vi = Some v -> v_kind v = VKValue tk nk ->
  hash_label_values (v_desc v) t = Ok h -> nlookup h (v_children v) = None ->
  exists w', step w (OpWith s t) = (w', ORes (Ok tt))
    /\ slot w' (length (w_slots w)) = HValue (length (w_v w))
    /\ w_v w' = w_v w ++ [mkVCore (v_desc v) tk (num_zero nk) (child_labels (v_desc v) t)]
    /\ w_h w' = w_h w /\ w_reg w' = w_reg w
    /\ w_vec w' = list_set (w_vec w) vi (vec_set_children v (v_children v ++ [(h, length (w_v w))])).
Proof. exact (with_fresh_child_value w s vi v t tk nk h). Qed.
(* in a histogram vector: an empty histogram (count 0, sum +0, every bucket 0) with those labels *)
Theorem c05_fresh_child_hist w s vi v t bs0 bs h :
  world_ok w -> slot w s = HVec vi -> nth_error (w_vec w) vi = Some v -> v_kind v = VKHist bs0 ->
  check_and_adjust_buckets bs0 = Some bs ->
  hash_label_values (v_desc v) t = Ok h -> nlookup h (v_children v) = None ->
  exists w', step w (OpWith s t) = (w', ORes (Ok tt))
    /\ slot w' (length (w_slots w)) = HHist (length (w_h w))
    /\ w_h w' = w_h w ++ [fresh_hcore (v_desc v) (child_labels (v_desc v) t) bs]
    /\ w_v w' = w_v w /\ w_reg w' = w_reg w
    /\ w_vec w' = list_set (w_vec w) vi (vec_set_children v (v_children v ++ [(h, length (w_h w))])).
Proof. exact (with_fresh_child_hist w s vi v t bs0 bs h). Qed.
Theorem c05_fresh_hist_is_empty n :
  sh_count (shard_new n) = 0 /\ sh_sum (shard_new n) = f_zero /\ Forall (fun c => c = 0) (sh_buckets (shard_new n)).
Proof. exact (shard_new_zero n). Qed.
(* a request whose key is present returns the registered child and changes nothing *)
Theorem c05_existing_child w s vi v t h c :
  slot w s = HVec vi -> nth_error (w_vec w) vi = Some v ->
  hash_label_values (v_desc v) t = Ok h -> nlookup h (v_children v) = Some c ->
  step w (OpWith s t) = (push_slot w (child_handle v c), ORes (Ok tt)).
Proof. exact (with_existing_child w s vi v t h c). Qed.

(* ---------- erroneous requests ---------- *)
(* Ok exactly when the number of values is the number of declared names *)
Theorem c05_with_ok_iff w s vi v vals : world_ok w -> slot w s = HVec vi -> nth_error (w_vec w) vi = Some v -> good_buckets v ->
  (snd (step w (OpWith s vals)) = ORes (Ok tt) <-> length vals = length (d_vars (v_desc v))).
Proof. exact (with_ok_iff w s vi v vals). Qed.
(* an Err leaves vectors, value cells, histogram cells and registries untouched: only a dead slot is appended *)
Theorem c05_error_creates_nothing w s vals e w' : step w (OpWith s vals) = (w', ORes (Err e)) -> w' = push_slot w HDead.
Proof. exact (with_error_creates_nothing w s vals e w'). Qed.
Theorem c05_map_error_creates_nothing w s kvs e w' : step w (OpWithMap s kvs) = (w', ORes (Err e)) -> w' = push_slot w HDead.
Proof. exact (with_map_error_creates_nothing w s kvs e w'). Qed.
Theorem c05_dead_slot_only w : let w' := push_slot w HDead in
  w_vec w' = w_vec w /\ w_v w' = w_v w /\ w_h w' = w_h w /\ w_reg w' = w_reg w /\ w_slots w' = w_slots w ++ [HDead].
Proof. exact (push_dead_unchanged w). Qed.
Theorem c05_wrong_cardinality w s vi v vals : slot w s = HVec vi -> nth_error (w_vec w) vi = Some v ->
  length vals <> length (d_vars (v_desc v)) ->
  step w (OpWith s vals) = (push_slot w HDead, ORes (Err (ECard (lenN (d_vars (v_desc v))) (lenN vals)))).
Proof. exact (with_wrong_cardinality w s vi v vals). Qed.
Theorem c05_map_wrong_names w s vi v kvs : slot w s = HVec vi -> nth_error (w_vec w) vi = Some v ->
  length (amap_of kvs) = length (d_vars (v_desc v)) ->
  (exists n, In n (d_vars (v_desc v)) /\ ~ In n (map fst (amap_of kvs))) ->
  step w (OpWithMap s kvs) = (push_slot w HDead, ORes (Err EMsg)).
Proof. exact (with_map_wrong_names w s vi v kvs). Qed.

(* ---------- the local vectors ---------- *)
(* LocalCounterVec::with_label_values(t).inc_by(d): afterwards the cache entry under t's key targets the
   child a direct request for t is served with (which then changes nothing) *)
Theorem c05_local_inc_targets w s vi cache v t d h :
  world_ok w -> slot w s = HLocalCounterVec vi cache -> cache_targets w vi cache ->
  nth_error (w_vec w) vi = Some v -> is_hist (v_kind v) = false -> hash_label_values (v_desc v) t = Ok h ->
  exists w' cache' c x, step w (OpLvInc s t d) = (w', OUnit) /\ slot w' s = HLocalCounterVec vi cache'
    /\ cache_targets w' vi cache' /\ nlookup h cache' = Some (c, x)
    /\ vec_get_or_create w' vi h t = Ok (w', HValue c).
Proof. exact (lv_inc_targets w s vi cache v t d h). Qed.
Theorem c05_local_observe_targets w s vi cache v t x h :
  world_ok w -> slot w s = HLocalHistVec vi cache -> cache_targets w vi cache ->
  nth_error (w_vec w) vi = Some v -> is_hist (v_kind v) = true -> good_buckets v -> hash_label_values (v_desc v) t = Ok h ->
  exists w' cache' c l, step w (OpLvObserve s t x) = (w', OUnit) /\ slot w' s = HLocalHistVec vi cache'
    /\ cache_targets w' vi cache' /\ nlookup h cache' = Some (c, l)
    /\ vec_get_or_create w' vi h t = Ok (w', HHist c).
Proof. exact (lv_observe_targets w s vi cache v t x h). Qed.
(* two tuples address one cache entry exactly when they are equal (up to collisions) *)
Theorem c05_local_key_iff d t1 t2 h1 h2 : wf_strs t1 -> wf_strs t2 ->
  hash_label_values d t1 = Ok h1 -> hash_label_values d t2 = Ok h2 ->
  fnv_injective_on [label_values_preimage t1; label_values_preimage t2] ->
  (h1 = h2 <-> t1 = t2).
Proof. exact (local_key_iff d t1 t2 h1 h2). Qed.
(* in every history without removals every cache entry of every local vector is the child the vector
   itself serves under that key *)
Theorem c05_local_entry_is_direct ops s vi h t : forallb keeps ops = true ->
  let w := run_world world0 ops in
  (forall cache c x, slot w s = HLocalCounterVec vi cache -> nlookup h cache = Some (c, x) ->
     exists v, nth_error (w_vec w) vi = Some v /\ vec_get_or_create w vi h t = Ok (w, child_handle v c))
  /\ (forall cache c x, slot w s = HLocalHistVec vi cache -> nlookup h cache = Some (c, x) ->
     exists v, nth_error (w_vec w) vi = Some v /\ vec_get_or_create w vi h t = Ok (w, child_handle v c)).
Proof. exact (local_entry_is_direct ops s vi h t). Qed.

(* ---------- the unconditional statement is false ---------- *)
(* "indbfqeysbnpsf" and "ivltldgmoctybd": different tuples, equal FNV-1a-64 of the hashed bytes; on a
   one-label IntCounterVec both requests succeed, increments through the two handles add up in one cell
   and one metric is collected *)
Theorem c05_refuted_collision :
  exists t1 t2, wf_strs t1 /\ wf_strs t2 /\ t1 <> t2
    /\ fnv1a (label_values_preimage t1) = fnv1a (label_values_preimage t2)
    /\ exists o ls,
       let obs := run world0 [OpCounterVec NU o ls; OpWith 0 t1; OpWith 0 t2; OpIncBy 1 (VU 1); OpIncBy 2 (VU 2);
                              OpGet 1; OpGet 2; OpCollect 0] in
       nth_error obs 1 = Some (ORes (Ok tt)) /\ nth_error obs 2 = Some (ORes (Ok tt))
       /\ nth_error obs 5 = Some (ONum (VU 3)) /\ nth_error obs 6 = Some (ONum (VU 3))
       /\ exists f, nth_error obs 7 = Some (OFamsU [f]) /\ length (mf_metric f) = 1%nat.
Proof. exact refuted_collision. Qed.
(* hence [c05_same_child_iff] without its collision-freedom hypothesis does not hold *)
Theorem c05_unconditional_iff_false :
  ~ (forall w vi v t1 t2 h1 h2 w1 hd1 w3 hd2,
       world_ok w -> nth_error (w_vec w) vi = Some v ->
       hash_label_values (v_desc v) t1 = Ok h1 -> vec_get_or_create w vi h1 t1 = Ok (w1, hd1) ->
       hash_label_values (v_desc v) t2 = Ok h2 -> vec_get_or_create w1 vi h2 t2 = Ok (w3, hd2) ->
       wf_strs t1 -> wf_strs t2 -> (hd1 = hd2 <-> t1 = t2)).
Proof. exact unconditional_iff_false. Qed.

(* ---------- non-vacuity ---------- *)
(* the hypotheses of c05_same_child_iff are satisfiable: the boundary-shifted pair ["ab";"c"] / ["a";"bc"]
   on a two-label vector is well-formed, collision-free, hashed to different bytes and served by two children *)
Example c05_hypotheses_satisfiable :
  let t1 := [[97; 98]; [99]] in let t2 := [[97]; [98; 99]] in
  wf_strs t1 /\ wf_strs t2 /\ fnv_injective_on [label_values_preimage t1; label_values_preimage t2]
  /\ label_values_preimage t1 <> label_values_preimage t2
  /\ exists obs, run world0 [OpCounterVec NU col_opts [[108]; [109]]; OpWith 0 t1; OpWith 0 t2; OpIncBy 1 (VU 1); OpIncBy 2 (VU 2);
                             OpGet 1; OpGet 2] = obs
       /\ nth_error obs 5 = Some (ONum (VU 1)) /\ nth_error obs 6 = Some (ONum (VU 2)).
Proof. exact same_child_nonvacuous. Qed.
(* ... and so are those of the API-level theorem: both requests of that history succeed on slot 0 *)
Example c05_with_hypotheses_satisfiable :
  let t1 := [[97; 98]; [99]] in let t2 := [[97]; [98; 99]] in
  let w := run_world world0 [OpCounterVec NU col_opts [[108]; [109]]] in
  world_ok w /\ slot w 0 = HVec 0
  /\ snd (step w (OpWith 0 t1)) = ORes (Ok tt)
  /\ snd (step (run_world (fst (step w (OpWith 0 t1))) [OpInc 1]) (OpWith 0 t2)) = ORes (Ok tt)
  /\ forallb keeps [OpInc 1] = true.
Proof. cbn zeta. split; [apply reachable_ok|]. vm_compute. repeat split. Qed.

(* ---------- the model satisfies the property as written from the text ---------- *)
(* [spec_c05] (Spec/SpecC05.v) is the executable statement of C05 written from the property text: tuples are
   compared for EQUALITY, children are observed through behaviour.  By a simulation between the abstract
   tuple -> child ledger of the spec and the world model (Proofs/C05Spec.v; histogram cells and local histograms
   through C12's hrel / local_of), the model satisfies it on every scenario of the language [in_domain] - the
   complete language of the generator tools/p_C05.py, all five vector kinds with their local vectors:
   the first operation creates ONE vector successfully, and every later operation is one of
     counter / gauge vectors (in_domain_value):
       OpWith, OpWithMap, OpRemove, OpRemoveMap, OpReset, OpInc, OpIncBy, OpDec, OpAdd, OpSub, OpSet, OpGet,
       OpCollect, OpClone, OpLocal (on slot 0), OpLvInc (increment of the vector's number type), OpFlush, OpLvRemove,
       OpDrop (not of slot 0);
     histogram vectors with valid buckets (in_domain_hist):
       OpWith, OpWithMap, OpRemove, OpRemoveMap, OpReset (on slot 0), OpObserve, OpSampleCount, OpSampleSum,
       OpCollect, OpClone, OpLocal (on slot 0), OpLvObserve, OpFlush, OpLvRemove, OpDrop (not of slot 0)
   - each on ANY slot, well-typed or not.  For histogram scenarios in_domain also evaluates, along the run, that no
   ledger count (observations of a child, observations buffered in a cache entry) reaches 2^63: u64 counts do not
   wrap (small_walk; decidable, like no_collision evaluated by vm_compute).
   [no_collision ops]: the label-value tuples named in ops have pairwise distinct FNV-1a-64 keys unless equal.
   Outside the language: dropping the vector's own handle, several vectors or plain metrics in one scenario, timers
   (the generator emits none of these). *)
Theorem c05_spec_model ops :
  in_domain ops = true -> no_collision ops = true -> spec_c05 ops (run world0 ops) = true.
Proof. exact (spec_model ops). Qed.
(* counter and gauge vectors alone: no float axioms *)
Theorem c05_spec_model_value ops :
  in_domain_value ops = true -> no_collision ops = true -> spec_c05 ops (run world0 ops) = true.
Proof. exact (spec_model_value ops). Qed.
(* the only way the model contradicts the text on such a scenario is the recorded class: two DIFFERENT tuples of
   the scenario with one FNV-1a-64 key *)
Theorem c05_model_violation_needs_collision ops :
  in_domain ops = true -> spec_c05 ops (run world0 ops) = false ->
  exists a b, In a (all_tuples (scenario_names ops) (tl ops)) /\ In b (all_tuples (scenario_names ops) (tl ops))
              /\ a <> b /\ hk a = hk b.
Proof. exact (model_violation_needs_collision ops). Qed.
(* non-vacuity: the boundary-shift corpus scenario of tools/p_C05.py (IntCounterVec; positional and map requests for
   the cuts of "abc"; a local vector) and a histogram scenario are in the language and collision-free *)
Example c05_spec_model_hypotheses_satisfiable :
  in_domain corpus_boundary_cu = true /\ no_collision corpus_boundary_cu = true
  /\ in_domain small_hist_scenario = true /\ no_collision small_hist_scenario = true.
Proof. exact corpus_in_domain. Qed.

Check c05_enc_inj : forall t1 t2, wf_strs t1 -> wf_strs t2 ->
  (label_values_preimage t1 = label_values_preimage t2 <-> t1 = t2).
Check c05_same_child_iff : forall w vi v t1 t2 h1 h2 w1 hd1 mid w3 hd2,
  world_ok w -> nth_error (w_vec w) vi = Some v ->
  hash_label_values (v_desc v) t1 = Ok h1 -> vec_get_or_create w vi h1 t1 = Ok (w1, hd1) ->
  forallb keeps mid = true ->
  hash_label_values (v_desc v) t2 = Ok h2 -> vec_get_or_create (run_world w1 mid) vi h2 t2 = Ok (w3, hd2) ->
  wf_strs t1 -> wf_strs t2 ->
  fnv_injective_on [label_values_preimage t1; label_values_preimage t2] ->
  (hd1 = hd2 <-> t1 = t2).
Check c05_with_same_child_iff : forall w s t1 w1 mid s' t2 w3 vi,
  world_ok w -> slot w s = HVec vi -> step w (OpWith s t1) = (w1, ORes (Ok tt)) ->
  forallb keeps mid = true ->
  slot (run_world w1 mid) s' = HVec vi -> step (run_world w1 mid) (OpWith s' t2) = (w3, ORes (Ok tt)) ->
  wf_strs t1 -> wf_strs t2 ->
  fnv_injective_on [label_values_preimage t1; label_values_preimage t2] ->
  (slot w1 (length (w_slots w)) = slot w3 (length (w_slots (run_world w1 mid))) <-> t1 = t2).
Check c05_map_form : forall w s vi v kvs, slot w s = HVec vi -> nth_error (w_vec w) vi = Some v ->
  Permutation (map fst (amap_of kvs)) (d_vars (v_desc v)) ->
  step w (OpWithMap s kvs) = step w (OpWith s (map (value_of (amap_of kvs)) (d_vars (v_desc v)))).
Check c05_map_key_order : forall w s kvs kvs', NoDup (map fst kvs) -> Permutation kvs kvs' ->
  step w (OpWithMap s kvs) = step w (OpWithMap s kvs').
Check c05_child_labels : forall d t,
  Permutation (child_labels d t) (declared_pairs d t ++ d_const_pairs d) /\ lp_sorted (child_labels d t).
Check c05_error_creates_nothing : forall w s vals e w', step w (OpWith s vals) = (w', ORes (Err e)) -> w' = push_slot w HDead.
Check c05_map_error_creates_nothing : forall w s kvs e w', step w (OpWithMap s kvs) = (w', ORes (Err e)) -> w' = push_slot w HDead.
Check c05_with_ok_iff : forall w s vi v vals, world_ok w -> slot w s = HVec vi -> nth_error (w_vec w) vi = Some v -> good_buckets v ->
  (snd (step w (OpWith s vals)) = ORes (Ok tt) <-> length vals = length (d_vars (v_desc v))).
Check c05_local_key_iff : forall d t1 t2 h1 h2, wf_strs t1 -> wf_strs t2 ->
  hash_label_values d t1 = Ok h1 -> hash_label_values d t2 = Ok h2 ->
  fnv_injective_on [label_values_preimage t1; label_values_preimage t2] ->
  (h1 = h2 <-> t1 = t2).

Check c05_spec_model : forall ops,
  in_domain ops = true -> no_collision ops = true -> spec_c05 ops (run world0 ops) = true.
Check c05_spec_model_value : forall ops,
  in_domain_value ops = true -> no_collision ops = true -> spec_c05 ops (run world0 ops) = true.
Check c05_model_violation_needs_collision : forall ops,
  in_domain ops = true -> spec_c05 ops (run world0 ops) = false ->
  exists a b, In a (all_tuples (scenario_names ops) (tl ops)) /\ In b (all_tuples (scenario_names ops) (tl ops))
              /\ a <> b /\ hk a = hk b.

Print Assumptions c05_enc_inj.
Print Assumptions c05_reachable_ok.
Print Assumptions c05_same_child_iff.
Print Assumptions c05_with_same_child_iff.
Print Assumptions c05_map_form.
Print Assumptions c05_map_iteration_order.
Print Assumptions c05_map_key_order.
Print Assumptions c05_map_ok_iff.
Print Assumptions c05_map_error_kinds.
Print Assumptions c05_child_labels.
Print Assumptions c05_fresh_child_value.
Print Assumptions c05_fresh_child_hist.
Print Assumptions c05_fresh_hist_is_empty.
Print Assumptions c05_existing_child.
Print Assumptions c05_with_ok_iff.
Print Assumptions c05_error_creates_nothing.
Print Assumptions c05_map_error_creates_nothing.
Print Assumptions c05_dead_slot_only.
Print Assumptions c05_wrong_cardinality.
Print Assumptions c05_map_wrong_names.
Print Assumptions c05_local_inc_targets.
Print Assumptions c05_local_observe_targets.
Print Assumptions c05_local_key_iff.
Print Assumptions c05_local_entry_is_direct.
Print Assumptions c05_refuted_collision.
Print Assumptions c05_unconditional_iff_false.
Print Assumptions c05_hypotheses_satisfiable.
Print Assumptions c05_with_hypotheses_satisfiable.
Print Assumptions c05_spec_model.
Print Assumptions c05_spec_model_value.
Print Assumptions c05_model_violation_needs_collision.
Print Assumptions c05_spec_model_hypotheses_satisfiable.
