(* C11  Gauge operations are atomic.
   Only statements, closed by [exact], pinned by [Check], with their assumptions printed.
   Same model and same proofs as C01 (Model/AtomicConc.v, Proofs/AtomicConcFacts.v); the sequential specification
   `spec_step` covers set / inc / dec / add / sub / get.  IntGauge: one store / fetch_add / fetch_sub / load on the
   two's complement pattern; Gauge: store, load, and the load / compare_exchange_weak loop with dec_by d = inc_by (-d). *)
Require Import PV.Base.Prelude PV.Base.F64 PV.Model.Conc PV.Model.AtomicConc PV.Proofs.AtomicConcFacts PV.Spec.SpecC01 PV.Spec.SpecC11 PV.Proofs.AtomicSpecFacts PV.Proofs.AtomicSpecFull PV.Proofs.AtomicSpecFloat.
From Coq Require Import Permutation Floats Reals Lra.
From Flocq Require Import Core BinarySingleNaN PrimFloat.
Open Scope N_scope.

(* ---- linearizable: every returned value and the final value are explained by executing the calls one at a time
   (spec_run) in the order of their linearisation points ... *)
Theorem c11_int_lin es s : reachable IntOps es s ->
  let h := hist IntOps s in
  proj_hist h = proj_ev IntOps es /\ hist_wf h /\
  spec_run IntOps 0 (lin_calls h) = Some (cell s, lin_rets h).
Proof. exact (linearizable IntOps int_laws es s). Qed.
Theorem c11_float_lin es s : reachable FloatOps es s ->
  let h := hist FloatOps s in
  proj_hist h = proj_ev FloatOps es /\ hist_wf h /\
  spec_run FloatOps 0%float (lin_calls h) = Some (cell s, lin_rets h).
Proof. exact (linearizable FloatOps float_laws es s). Qed.
(* ... an order consistent with real time *)
Theorem c11_real_time h : hist_wf h ->
  forall t k r u m i l', at_res h t k r -> at_inv h u m i -> (r < i)%nat -> at_lin h u m l' ->
  exists l, at_lin h t k l /\ (l < l')%nat.
Proof. exact (lin_real_time h). Qed.

(* ---- concurrent add / sub / inc / dec are never lost (and never applied twice): once every thread has returned, the
   final value is the one-at-a-time execution of a permutation of ALL invoked calls *)
Theorem c11_no_lost_update_int es s : reachable IntOps es s -> quiescent IntOps s ->
  exists order, Permutation order (ecalls es) /\ exists xs, spec_run IntOps 0 (map snd order) = Some (cell s, xs).
Proof. exact (final_value IntOps int_laws es s). Qed.
Theorem c11_no_lost_update_float es s : reachable FloatOps es s -> quiescent FloatOps s ->
  exists order, Permutation order (ecalls es) /\ exists xs, spec_run FloatOps 0%float (map snd order) = Some (cell s, xs).
Proof. exact (final_value FloatOps float_laws es s). Qed.

(* ---- set is never torn: a read returns the pattern of ONE value: the initial one, the argument of one set linearised
   before it, or the result of one addition / subtraction linearised before it *)
Theorem c11_set_not_torn_int es s : reachable IntOps es s -> forall t l v,
  nth_error (hist IntOps s) l = Some (MLin t CGet (RVal v)) ->
  let before := lin_calls (firstn l (hist IntOps s)) in
  exists sv, v = to_bits IntOps sv /\
    (sv = 0 \/ (exists b, In (CSet b) before /\ sv = wrap64 b) \/ (In CReset before /\ sv = 0) \/
     (exists s' c, In c before /\ is_arith c = true /\ spec_step IntOps s' c = Some (sv, RUnit))).
Proof. exact (read_not_torn IntOps int_laws es s). Qed.
Theorem c11_set_not_torn_float es s : reachable FloatOps es s -> forall t l v,
  nth_error (hist FloatOps s) l = Some (MLin t CGet (RVal v)) ->
  let before := lin_calls (firstn l (hist FloatOps s)) in
  exists sv : f64, v = f2bits sv /\
    (sv = 0%float \/ (exists b, In (CSet b) before /\ sv = bits2f b) \/ (In CReset before /\ sv = 0%float) \/
     (exists s' c, In c before /\ is_arith c = true /\ spec_step FloatOps s' c = Some (sv, RUnit))).
Proof. exact (read_not_torn FloatOps float_laws es s). Qed.

(* ---- sub(x) undoes add(x).  i64: exactly (modulo 2^64), wherever the two are linearised among other additions,
   subtractions and reads *)
Theorem c11_sub_undoes_add s x a b c : s < two64 ->
  forallb is_arith_get a = true -> forallb is_arith_get b = true -> forallb is_arith_get c = true ->
  final_int s (a ++ CAdd x :: b ++ CSub x :: c) = final_int s (a ++ b ++ c).
Proof. exact (c11_sub_undoes_add_i64 s x a b c). Qed.
Theorem c11_sub_undoes_add_adjacent s x : s < two64 -> final_int s [CAdd x; CSub x] = Some s.
Proof. exact (c11_sub_undoes_add_i64_adjacent s x). Qed.
(* f64, stated truthfully: sub x is executed as, and equals, the atomic addition of -x ... *)
Theorem c11_sub_is_add_neg (s : f64) (x : N) :
  spec_step FloatOps s (CSub x) = Some ((s + - bits2f x)%float, RUnit) /\
  plan_of FloatOps (CSub x) = Some (@PLoop FloatOps (- bits2f x)%float).
Proof. exact (c11_sub_is_add_neg_f64 s x). Qed.
(* ... and (s + x) - x is s (as a number) when s + x is exact ... *)
Theorem c11_sub_undoes_add_float_exact (s x : f64) :
  is_finite (Prim2B s) = true -> is_finite (Prim2B x) = true -> is_finite (Prim2B (s + x)) = true ->
  B2R (Prim2B (s + x)) = (B2R (Prim2B s) + B2R (Prim2B x))%R ->
  B2R (Prim2B ((s + x) - x)) = B2R (Prim2B s) /\ PrimFloat.eqb ((s + x) - x) s = true.
Proof. exact (c11_sub_undoes_add_f64_exact s x). Qed.
(* ... but not in general: 1 + 2^53 rounds to 2^53 *)
Example c11_sub_undoes_add_float_inexact :
  exists s x : f64, PrimFloat.eqb ((s + x) - x) s = false.
Proof. exists 1%float, 9007199254740992%float. vm_compute. reflexivity. Qed.
(* the exactness hypotheses are satisfiable: 1 + 2 *)
Example c11_exact_hypotheses_satisfiable :
  is_finite (Prim2B 1) = true /\ is_finite (Prim2B 2) = true /\ is_finite (Prim2B (1 + 2)) = true /\
  B2R (Prim2B (1 + 2)) = (B2R (Prim2B 1) + B2R (Prim2B 2))%R.
Proof.
  assert (E1 : Prim2SF 1 = S754_finite false 4503599627370496 (-52)) by (vm_compute; reflexivity).
  assert (E2 : Prim2SF 2 = S754_finite false 4503599627370496 (-51)) by (vm_compute; reflexivity).
  assert (E3 : Prim2SF (1 + 2) = S754_finite false 6755399441055744 (-51)) by (vm_compute; reflexivity).
  assert (F : forall x m e, Prim2SF x = S754_finite false m e -> is_finite (Prim2B x) = true /\ B2R (Prim2B x) = F2R (Float radix2 (Zpos m) e)).
  { intros x m e H. pose proof (B2SF_Prim2B x) as B. rewrite H in B.
    destruct (Prim2B x) as [ | | |sx mx ex Hx]; cbn in B; try discriminate. inversion B; subst. split; reflexivity. }
  destruct (F _ _ _ E1) as [A1 B1]. destruct (F _ _ _ E2) as [A2 B2]. destruct (F _ _ _ E3) as [A3 B3].
  repeat split; auto. rewrite B1, B2, B3. unfold F2R. cbn [Fnum Fexp bpow radix2 radix_val Z.pow_pos Pos.iter Z.mul Pos.mul].
  lra.
Qed.

(* ---- validator accepts the trace => the executable spec (written from the property text) is true.
   spec_c11 = no panic / hang && only gauge calls && read-subset clause (traces without set, small amounts) && linearisation search.
   INTEGER FLAVOUR, FULL STATEMENT, PROVED:  c11_spec_of_validated_int :
       trace_ok IntOps es = true -> dom11_int es = true -> spec_c11 false es = true
     executable domain dom11_int: gauge calls with 64-bit argument patterns, 64-bit returned patterns, the absolute amounts of the
     trace sum to less than 2^63 (no i64 overflow; needed by the read-subset clause only).  The read-subset clause is derived
     from the linearisation the search finds.
   FLOAT FLAVOUR:  FULL STATEMENT  trace_ok FloatOps es = true -> calls_in gauge_call es = true -> spec_c11 true es = true.
     PROVED (c11_spec_of_validated_float_partial): no panic / hang, only gauge calls, the linearisation search - the definition of the
     property.  The ONLY missing item is the (redundant) read-subset clause for floats, spec_c11_A true es = true (exactness of
     binary64 sums inside exact_window); c11_spec_from_clauses shows that it is all that is missing. *)
Theorem c11_search_of_validated_int es :
  trace_ok IntOps es = true -> calls_in gauge_dom es = true -> spec_c11_core false es = true.
Proof. exact (c11_core_of_validated_int es). Qed.
Theorem c11_spec_of_validated_float_partial es :
  trace_ok FloatOps es = true -> calls_in gauge_call es = true -> spec_c11_core true es = true.
Proof. exact (c11_core_of_validated_float es). Qed.
Theorem c11_spec_of_validated_int es : trace_ok IntOps es = true -> dom11_int es = true -> spec_c11 false es = true.
Proof. exact (c11_spec_of_validated_int_full es). Qed.
Theorem c11_spec_from_clauses isf es : spec_c11_core isf es = true -> spec_c11_A isf es = true -> spec_c11 isf es = true.
Proof. exact (spec_c11_from_clauses isf es). Qed.

(* ---- non-vacuity: a float gauge, set racing with an add whose first compare-exchange fails, then sub *)
Definition b1 : N := 0x3ff0000000000000.
Definition b2 : N := 0x4000000000000000.
Definition b3 : N := 0x4008000000000000.
Definition gauge_trace : list event :=
  [ECall 0 (CAdd b1); ECall 1 (CSet b2);
   EAt 0 0 KLoad Acquire None 0 0 true;
   EAt 1 0 KStore Relaxed None 0 b2 true; ERet 1 RUnit;
   EAt 0 0 KCasWeak Release (Some Relaxed) b2 b2 false;
   EAt 0 0 KLoad Acquire None b2 b2 true;
   EAt 0 0 KCasWeak Release (Some Relaxed) b2 b3 true; ERet 0 RUnit;
   ECall 1 CGet; EAt 1 0 KLoad Relaxed None b3 b3 true; ERet 1 (RVal b3);
   ECall 0 (CSub b1); EAt 0 0 KLoad Acquire None b3 b3 true; EAt 0 0 KCasWeak Release (Some Relaxed) b3 b2 true; ERet 0 RUnit;
   ECall 1 CGet; EAt 1 0 KLoad Relaxed None b2 b2 true; ERet 1 (RVal b2)].
Example c11_gauge_trace_valid : trace_ok FloatOps gauge_trace = true /\ spec_c11 true gauge_trace = true.
Proof. split; vm_compute; reflexivity. Qed.
(* a torn / lost outcome is rejected by the model and by the spec: the add's stale compare-exchange "succeeds" over the set *)
Definition gauge_lost_trace : list event :=
  [ECall 0 (CAdd b1); ECall 1 (CSet b2);
   EAt 0 0 KLoad Acquire None 0 0 true;
   EAt 1 0 KStore Relaxed None 0 b2 true; ERet 1 RUnit;
   EAt 0 0 KCasWeak Release (Some Relaxed) b2 b1 true; ERet 0 RUnit;
   ECall 1 CGet; EAt 1 0 KLoad Relaxed None b1 b1 true; ERet 1 (RVal b1)].
Example c11_gauge_lost_rejected :
  first_reject (FlFloat, gauge_lost_trace) = Some 5 /\ spec_c11 true gauge_lost_trace = false.
Proof. split; vm_compute; reflexivity. Qed.
(* integer gauge: negative values are two's complement patterns; sub really subtracts *)
Definition m3 : N := 18446744073709551613.
Definition igauge_trace : list event :=
  [ECall 0 (CSet m3); ECall 1 (CSub 2); EAt 0 0 KStore Relaxed None 0 m3 true; EAt 1 0 KFetchSub Relaxed None m3 (m3 - 2) true;
   ERet 0 RUnit; ERet 1 RUnit; ECall 1 (CAdd 2); EAt 1 0 KFetchAdd Relaxed None (m3 - 2) m3 true; ERet 1 RUnit;
   ECall 0 CGet; EAt 0 0 KLoad Relaxed None m3 m3 true; ERet 0 (RVal m3)].
Example c11_igauge_trace_valid : trace_ok IntOps igauge_trace = true /\ spec_c11 false igauge_trace = true.
Proof. split; vm_compute; reflexivity. Qed.

Example c11_gauge_trace_in_domain : calls_in gauge_call gauge_trace = true /\ spec_c11_core true gauge_trace = true.
Proof. split; [vm_compute; reflexivity|]. apply c11_spec_of_validated_float_partial; [exact (proj1 c11_gauge_trace_valid)|vm_compute; reflexivity]. Qed.
Example c11_igauge_trace_in_domain : calls_in gauge_dom igauge_trace = true /\ spec_c11_core false igauge_trace = true.
Proof. split; [vm_compute; reflexivity|]. apply c11_search_of_validated_int; [exact (proj1 c11_igauge_trace_valid)|vm_compute; reflexivity]. Qed.

Example c11_igauge_trace_spec_by_theorem : dom11_int igauge_trace = true /\ spec_c11 false igauge_trace = true.
Proof. split; [vm_compute; reflexivity|]. apply c11_spec_of_validated_int; [exact (proj1 c11_igauge_trace_valid)|vm_compute; reflexivity]. Qed.

(* FULL float statement (Proofs/AtomicSpecFloat.v): on [dom11_float] (gauge calls, finite amounts whose decoded values fit one 53-bit
   window, no overflow) a validated trace satisfies the WHOLE executable spec; no bound on the number of calls. *)
Theorem c11_spec_of_validated_float es : trace_ok FloatOps es = true -> dom11_float es = true -> spec_c11 true es = true.
Proof. exact (c11_spec_of_validated_float_full es). Qed.
Example c11_gauge_trace_float_by_theorem : dom11_float gauge_trace = true /\ spec_c11 true gauge_trace = true.
Proof. split; [vm_compute; reflexivity|]. apply c11_spec_of_validated_float; [exact (proj1 c11_gauge_trace_valid)|vm_compute; reflexivity]. Qed.
Check c11_spec_of_validated_float : forall es, trace_ok FloatOps es = true -> dom11_float es = true -> spec_c11 true es = true.
Check c11_spec_of_validated_int : forall es, trace_ok IntOps es = true -> dom11_int es = true -> spec_c11 false es = true.
Check c11_search_of_validated_int : forall es, trace_ok IntOps es = true -> calls_in gauge_dom es = true -> spec_c11_core false es = true.
Check c11_spec_of_validated_float_partial : forall es, trace_ok FloatOps es = true -> calls_in gauge_call es = true -> spec_c11_core true es = true.
Check c11_int_lin : forall es s, reachable IntOps es s ->
  let h := hist IntOps s in
  proj_hist h = proj_ev IntOps es /\ hist_wf h /\ spec_run IntOps 0 (lin_calls h) = Some (cell s, lin_rets h).
Check c11_float_lin : forall es s, reachable FloatOps es s ->
  let h := hist FloatOps s in
  proj_hist h = proj_ev FloatOps es /\ hist_wf h /\ spec_run FloatOps 0%float (lin_calls h) = Some (cell s, lin_rets h).
Check c11_sub_undoes_add : forall s x a b c, s < two64 ->
  forallb is_arith_get a = true -> forallb is_arith_get b = true -> forallb is_arith_get c = true ->
  final_int s (a ++ CAdd x :: b ++ CSub x :: c) = final_int s (a ++ b ++ c).
Check c11_sub_undoes_add_float_exact : forall s x : f64,
  is_finite (Prim2B s) = true -> is_finite (Prim2B x) = true -> is_finite (Prim2B (s + x)) = true ->
  B2R (Prim2B (s + x)) = (B2R (Prim2B s) + B2R (Prim2B x))%R ->
  B2R (Prim2B ((s + x) - x)) = B2R (Prim2B s) /\ PrimFloat.eqb ((s + x) - x) s = true.

Print Assumptions c11_int_lin.
Print Assumptions c11_float_lin.
Print Assumptions c11_real_time.
Print Assumptions c11_no_lost_update_int.
Print Assumptions c11_no_lost_update_float.
Print Assumptions c11_set_not_torn_int.
Print Assumptions c11_set_not_torn_float.
Print Assumptions c11_sub_undoes_add.
Print Assumptions c11_sub_undoes_add_adjacent.
Print Assumptions c11_sub_is_add_neg.
Print Assumptions c11_sub_undoes_add_float_exact.
Print Assumptions c11_sub_undoes_add_float_inexact.
Print Assumptions c11_exact_hypotheses_satisfiable.
Print Assumptions c11_gauge_trace_valid.
Print Assumptions c11_gauge_lost_rejected.
Print Assumptions c11_igauge_trace_valid.
Print Assumptions c11_search_of_validated_int.
Print Assumptions c11_spec_of_validated_float_partial.
Print Assumptions c11_spec_from_clauses.
Print Assumptions c11_gauge_trace_in_domain.
Print Assumptions c11_igauge_trace_in_domain.
Print Assumptions c11_spec_of_validated_int.
Print Assumptions c11_igauge_trace_spec_by_theorem.
Print Assumptions c11_spec_of_validated_float.
Print Assumptions c11_gauge_trace_float_by_theorem.
