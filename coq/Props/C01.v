(* C01  Counter increments are never lost and never go backwards.
   Only statements, closed by [exact], pinned by [Check], with their assumptions printed.
   Model: Model/AtomicConc.v (one 64-bit cell; integer flavour = fetch_add, float flavour = load /
   compare_exchange_weak loop; local flush).  `reachable O es s` = the event list es is an execution of the model from
   its initial state ending in s: ALL interleavings, ALL programs, ANY number of threads, all spurious failures.
   `hist O s` = the history of invocation / linearisation / response marks of that execution. *)
Require Import PV.Base.Prelude PV.Base.F64 PV.Model.Conc PV.Model.AtomicConc PV.Proofs.AtomicConcFacts PV.Spec.SpecC01 PV.Spec.SpecC11 PV.Proofs.AtomicSpecFacts PV.Proofs.AtomicSpecFull PV.Proofs.AtomicSpecFloat.
From Coq Require Import Permutation Floats.
Require PV.Model.VecConc PV.Proofs.VecConcBase PV.Proofs.VecConcFacts PV.Props.C10.
Require PV.Proofs.C01VecSpec.
Open Scope N_scope.

(* ---- the executable validator and the step relation are the same thing *)
Theorem c01_exec_sound O s e s' : aexec O s e = Some s' -> astep O s e s'.
Proof. exact (aexec_sound O s e s'). Qed.
Theorem c01_exec_complete O s e s' : astep O s e s' -> aexec O s e = Some s'.
Proof. exact (aexec_complete O s e s'). Qed.
(* what the check establishes per trace: accepted + all threads returned = a quiescent reachable state *)
Theorem c01_trace_ok_reachable O es : trace_ok O es = true -> exists s, reachable O es s /\ quiescent O s.
Proof. exact (trace_ok_reachable O es). Qed.

(* ---- the invariant: the cell always holds the state of the sequential specification *)
Theorem c01_cell_is_spec_int es s : reachable IntOps es s -> cell s = g_abs s.
Proof. exact (cell_is_spec IntOps int_laws es s). Qed.
Theorem c01_cell_is_spec_float es s : reachable FloatOps es s -> cell s = g_abs s.
Proof. exact (cell_is_spec FloatOps float_laws es s). Qed.

(* ---- linearizability: the history has exactly the trace's call / return markers; every thread alternates
   invocation, linearisation, response (the response carrying the value fixed at the linearisation); replaying the
   linearised calls in order on "value := value + d / read / value := 0" yields the recorded return values and the
   final cell *)
Theorem c01_int_lin es s : reachable IntOps es s ->
  let h := hist IntOps s in
  proj_hist h = proj_ev IntOps es /\ hist_wf h /\
  spec_run IntOps 0 (lin_calls h) = Some (cell s, lin_rets h).
Proof. exact (linearizable IntOps int_laws es s). Qed.
Theorem c01_float_lin es s : reachable FloatOps es s ->
  let h := hist FloatOps s in
  proj_hist h = proj_ev FloatOps es /\ hist_wf h /\
  spec_run FloatOps 0%float (lin_calls h) = Some (cell s, lin_rets h).
Proof. exact (linearizable FloatOps float_laws es s). Qed.

(* ---- proved once, for any well-formed history: the linearisation point of the k-th call of thread t lies strictly
   between its invocation and its response, and it is the same call with the same value ... *)
Theorem c01_lin_inside_window h : hist_wf h ->
  (forall t k l c x, at_lin h t k l -> nth_error h l = Some (MLin t c x) ->
     exists i, (i < l)%nat /\ at_inv h t k i /\ nth_error h i = Some (MInv t c)) /\
  (forall t k r c x, at_res h t k r -> nth_error h r = Some (MRes t c x) ->
     exists l, (l < r)%nat /\ at_lin h t k l /\ nth_error h l = Some (MLin t c x)).
Proof. intros W. split; [exact (lin_after_inv h W)|exact (res_after_lin h W)]. Qed.
(* ... hence real-time order is respected: a call that returned before another was invoked is linearised first *)
Theorem c01_real_time h : hist_wf h ->
  forall t k r u m i l', at_res h t k r -> at_inv h u m i -> (r < i)%nat -> at_lin h u m l' ->
  exists l, at_lin h t k l /\ (l < l')%nat.
Proof. exact (lin_real_time h). Qed.

(* ---- every completed call took effect exactly once *)
Theorem c01_exactly_once_int es s t : reachable IntOps es s -> thr s t = TIdle ->
  cI t (hist IntOps s) = cL t (hist IntOps s) /\ cL t (hist IntOps s) = cR t (hist IntOps s).
Proof. exact (exactly_once IntOps int_laws es s t). Qed.
Theorem c01_exactly_once_float es s t : reachable FloatOps es s -> thr s t = TIdle ->
  cI t (hist FloatOps s) = cL t (hist FloatOps s) /\ cL t (hist FloatOps s) = cR t (hist FloatOps s).
Proof. exact (exactly_once FloatOps float_laws es s t). Qed.

(* ---- final sum.  u64: after all threads finished the value is the sum of all increments modulo 2^64 *)
Theorem c01_final_sum es s : reachable IntOps es s -> quiescent IntOps s ->
  forallb is_ctr_inc (map snd (ecalls es)) = true ->
  cell s = wrap64 (sumN (map delta64 (map snd (ecalls es)))).
Proof. exact (c01_final_sum_u64 es s). Qed.
(* f64 (and in general): the value is the fold, in linearisation order, over a permutation of ALL invoked calls *)
Theorem c01_final_sum_f64 es s : reachable FloatOps es s -> quiescent FloatOps s ->
  exists order, Permutation order (ecalls es) /\
                exists xs, spec_run FloatOps 0%float (map snd order) = Some (cell s, xs).
Proof. exact (final_value FloatOps float_laws es s). Qed.

(* ---- read subset: a call linearised at index l saw the replay of exactly the calls linearised before l ... *)
Theorem c01_read_prefix_int es s : reachable IntOps es s -> forall t l c x, nth_error (hist IntOps s) l = Some (MLin t c x) ->
  exists sv, spec_run IntOps 0 (lin_calls (firstn l (hist IntOps s))) = Some (sv, lin_rets (firstn l (hist IntOps s))) /\
             exists a, spec_step IntOps sv c = Some (a, x).
Proof. exact (read_prefix IntOps int_laws es s). Qed.
Theorem c01_read_prefix_float es s : reachable FloatOps es s -> forall t l c x, nth_error (hist FloatOps s) l = Some (MLin t c x) ->
  exists sv, spec_run FloatOps 0%float (lin_calls (firstn l (hist FloatOps s))) = Some (sv, lin_rets (firstn l (hist FloatOps s))) /\
             exists a, spec_step FloatOps sv c = Some (a, x).
Proof. exact (read_prefix FloatOps float_laws es s). Qed.
(* ... for the integer counter that is the sum of those increments ... *)
Theorem c01_read_sum es s : reachable IntOps es s -> forall t l v,
  nth_error (hist IntOps s) l = Some (MLin t CGet (RVal v)) ->
  forallb is_ctr_inc (lin_calls (firstn l (hist IntOps s))) = true ->
  v = wrap64 (sumN (map delta64 (lin_calls (firstn l (hist IntOps s))))).
Proof. exact (c01_read_sum_u64 es s). Qed.
(* ... and the set "linearised before" contains every call that returned before this one was invoked and none
   invoked after it returned *)
Theorem c01_read_subset_int es s : reachable IntOps es s -> let h := hist IntOps s in
  forall t k i l r, at_inv h t k i -> at_lin h t k l -> at_res h t k r ->
  (forall u m r', at_res h u m r' -> (r' < i)%nat -> exists l', at_lin h u m l' /\ (l' < l)%nat) /\
  (forall u m i' l', at_inv h u m i' -> (r < i')%nat -> at_lin h u m l' -> (l < l')%nat).
Proof. exact (call_window IntOps int_laws es s). Qed.
Theorem c01_read_subset_float es s : reachable FloatOps es s -> let h := hist FloatOps s in
  forall t k i l r, at_inv h t k i -> at_lin h t k l -> at_res h t k r ->
  (forall u m r', at_res h u m r' -> (r' < i)%nat -> exists l', at_lin h u m l' /\ (l' < l)%nat) /\
  (forall u m i' l', at_inv h u m i' -> (r < i')%nat -> at_lin h u m l' -> (l < l')%nat).
Proof. exact (call_window FloatOps float_laws es s). Qed.

(* ---- monotone reads.  u64: no reset linearised between the two reads, and no wrap-around *)
Theorem c01_monotone es s a t1 v1 b t2 v2 d : reachable IntOps es s ->
  hist IntOps s = a ++ MLin t1 CGet (RVal v1) :: b ++ MLin t2 CGet (RVal v2) :: d ->
  forallb is_ctr_inc (lin_calls b) = true ->
  v1 + sumN (map delta64 (lin_calls b)) < two64 ->
  v1 <= v2.
Proof. exact (c01_monotone_u64 es s a t1 v1 b t2 v2 d). Qed.
(* f64: non-negative, non-NaN increments (the documented precondition of inc_by), resets allowed before the first read *)
Theorem c01_monotone_float es s a t1 v1 b t2 v2 d : reachable FloatOps es s ->
  hist FloatOps s = a ++ MLin t1 CGet (RVal v1) :: b ++ MLin t2 CGet (RVal v2) :: d ->
  forallb nonneg_call (lin_calls a) = true ->
  forallb nonneg_inc (lin_calls b) = true ->
  exists x1 x2 : f64, v1 = f2bits x1 /\ v2 = f2bits x2 /\ PrimFloat.leb x1 x2 = true.
Proof. exact (c01_monotone_f64 es s a t1 v1 b t2 v2 d). Qed.

(* ---- local flush: a flush adds its amount at its one linearisation point (c01_exactly_once); afterwards the local
   amount is zero, and a flush of zero is linearised at its invocation, performs no shared step and changes nothing *)
Theorem c01_flush_once_int (v : N) :
  let '(c1, v1) := local_flush IntOps v in let '(c2, v2) := local_flush IntOps v1 in
  c1 = CFlush v /\ plan_of IntOps c2 = Some PNoop /\ v2 = 0.
Proof. exact (flush_twice_int v). Qed.
Theorem c01_flush_once_float (v : f64) :
  let '(c1, v1) := local_flush FloatOps v in let '(c2, v2) := local_flush FloatOps v1 in
  c1 = CFlush (f2bits v) /\ plan_of FloatOps c2 = Some PNoop /\ v2 = 0%float.
Proof. exact (flush_twice_float v). Qed.
Theorem c01_flush_effect O (s : V O) b :
  spec_step O s (CFlush b) = Some (if vis_zero O (of_bits O b) then s else vadd O s (of_bits O b), RUnit).
Proof. exact (flush_effect O s b). Qed.
Theorem c01_zero_flush_no_shared_step O s t c s1 : astep O s (ECall t c) s1 -> plan_of O c = Some PNoop ->
  cell s1 = cell s /\
  forall e s2, astep O s1 e s2 -> event_thread e = Some t -> exists r, e = ERet t r /\ thr s2 t = TIdle.
Proof.
  intros H Hp. destruct (noop_call_is_done O s t c s1 H Hp) as [Hd Hc]. split; auto.
  intros e s2 H2 He. exact (done_only_returns O s1 t c RUnit e s2 Hd H2 He).
Qed.

(* ---- validator accepts the trace => the executable spec (written from the property text) is true.
   spec_c01 = no panic / hang && only counter calls && (A) read-subset && (B) monotone reads && (C) linearisation search.
   INTEGER FLAVOUR, FULL STATEMENT, PROVED:  c01_spec_of_validated_int :
       trace_ok IntOps es = true -> dom01_int es = true -> spec_c01 false es = true
     executable domain dom01_int: every invoked call is a counter call, returned patterns are 64-bit, the increments of the trace
     sum to less than 2^64 (no wrap-around).  No bound on the number of calls: the search succeeds with the spec's own fuel.
   FLOAT FLAVOUR:  FULL STATEMENT  trace_ok FloatOps es = true -> dom_float es = true -> spec_c01 true es = true.
     PROVED (c01_spec_of_validated_float_partial): every clause except (A): no panic / hang, only counter calls, (C) the search
     (c01_search_of_validated_float) and (B) monotone reads, in the executable domain dom01_float (counter calls, non-negative
     non-NaN increments).  The ONLY missing item is clause (A) for floats, spec_c01_A true es = true: inside exact_window every
     partial binary64 sum is exact and the decoding qfloat is additive - not proved; c01_spec_from_clauses3 shows that it is
     all that is missing.
   Proof: the spec's marker bookkeeping (calls_of) simulates the model (AtomicSpecFacts.sim_step, lin_of_validated): every
   validated trace has an order of ALL its calls that replays on the SPEC's sequential counter to the returned values and
   respects real time; the search is complete for such an order (W_search, V_W); (A) and (B) are read off that order
   (AtomicSpecFull.prefix_sum_split, clauseA_int, clauseB_int, clauseB_float; f2bits_inj for the float reads).
   VECTOR PART: spec_c01_vec on validated `C vec` traces is proved too: c01_vec_spec_of_validated (module VecSpec below;
   Proofs/C01VecSpec.v, built on C10's relaxed_spec_of_validated_partial3 - nothing about the vector model is re-proved). *)
Theorem c01_search_of_validated_int es :
  trace_ok IntOps es = true -> calls_in counter_call es = true -> spec_c01_core false es = true.
Proof. exact (c01_core_of_validated_int es). Qed.
Theorem c01_search_of_validated_float es :
  trace_ok FloatOps es = true -> calls_in counter_call es = true -> spec_c01_core true es = true.
Proof. exact (c01_core_of_validated_float es). Qed.
Theorem c01_spec_from_clauses isf es : spec_c01_core isf es = true -> spec_c01_AB isf es = true -> spec_c01 isf es = true.
Proof. exact (spec_c01_from_clauses isf es). Qed.
Theorem c01_spec_of_validated_int es : trace_ok IntOps es = true -> dom01_int es = true -> spec_c01 false es = true.
Proof. exact (c01_spec_of_validated_int_full es). Qed.
Theorem c01_spec_of_validated_float_partial es : trace_ok FloatOps es = true -> dom01_float es = true ->
  spec_c01_core true es = true /\ spec_c01_B true es = true.
Proof. exact (AtomicSpecFull.c01_spec_of_validated_float_partial es). Qed.
Theorem c01_spec_from_clauses3 isf es :
  spec_c01_core isf es = true -> spec_c01_A isf es = true -> spec_c01_B isf es = true -> spec_c01 isf es = true.
Proof. exact (spec_c01_from_clauses3 isf es). Qed.
(* used for the float reads: the canonical pattern determines the float *)
Theorem c01_f2bits_injective (x y : f64) : f2bits x = f2bits y -> x = y.
Proof. exact (f2bits_inj x y). Qed.
(* the generic form: any sequential object that the model's specification steps refine *)
Theorem c01_search_complete S step same ord pend s fuel :
  W S step same pend s ord -> (length ord < fuel)%nat -> lin_search S step same fuel pend s = true.
Proof. exact (W_search S step same ord pend s fuel). Qed.

(* ---- non-vacuity.  A float counter, two threads, the lost-update window entered on purpose:
   t0 load, t1 load, t1 cas ok, t0 cas FAILS (the cell changed), t0 load, t0 cas ok.  The trace is an execution of the
   model, the final value is 2.0, and the executable spec accepts it. *)
Definition one_bits : N := 0x3ff0000000000000.
Definition two_bits : N := 0x4000000000000000.
Definition window_trace : list event :=
  [ECall 0 CInc; ECall 1 CInc;
   EAt 0 0 KLoad Acquire None 0 0 true;
   EAt 1 0 KLoad Acquire None 0 0 true;
   EAt 1 0 KCasWeak Release (Some Relaxed) 0 one_bits true;
   ERet 1 RUnit;
   EAt 0 0 KCasWeak Release (Some Relaxed) one_bits one_bits false;
   EAt 0 0 KLoad Acquire None one_bits one_bits true;
   EAt 0 0 KCasWeak Release (Some Relaxed) one_bits two_bits true;
   ERet 0 RUnit;
   ECall 1 CGet; EAt 1 0 KLoad Relaxed None two_bits two_bits true; ERet 1 (RVal two_bits)].
Example c01_window_trace_valid : trace_ok FloatOps window_trace = true.
Proof. vm_compute. reflexivity. Qed.
Example c01_window_trace_final :
  match arun FloatOps (ainit FloatOps) window_trace with
  | Some s => N.eqb (f2bits (cell s)) two_bits && Nat.eqb (length (lin_calls (hist FloatOps s))) 3
  | None => false
  end = true.
Proof. vm_compute. reflexivity. Qed.
Example c01_window_trace_spec : spec_c01 true window_trace = true.
Proof. vm_compute. reflexivity. Qed.
(* the same window with the stale compare-exchange "succeeding" (a lost update) is NOT an execution of the model,
   and the executable spec rejects the value it leads to *)
Definition lost_update_trace : list event :=
  [ECall 0 CInc; ECall 1 CInc;
   EAt 0 0 KLoad Acquire None 0 0 true;
   EAt 1 0 KLoad Acquire None 0 0 true;
   EAt 1 0 KCasWeak Release (Some Relaxed) 0 one_bits true;
   ERet 1 RUnit;
   EAt 0 0 KCasWeak Release (Some Relaxed) one_bits one_bits true;
   ERet 0 RUnit;
   ECall 1 CGet; EAt 1 0 KLoad Relaxed None one_bits one_bits true; ERet 1 (RVal one_bits)].
Example c01_lost_update_rejected :
  first_reject (FlFloat, lost_update_trace) = Some 6 /\ spec_c01 true lost_update_trace = false.
Proof. split; vm_compute; reflexivity. Qed.
(* integer counter fed by a local flush and a no-op second flush; hypotheses of c01_final_sum are satisfiable *)
Definition int_trace : list event :=
  [ECall 0 (CAdd 4); ECall 1 (CFlush 3); EAt 1 0 KFetchAdd Relaxed None 0 3 true; EAt 0 0 KFetchAdd Relaxed None 3 7 true;
   ERet 0 RUnit; ERet 1 RUnit; ECall 1 (CFlush 0); ERet 1 RUnit; ECall 0 CGet; EAt 0 0 KLoad Relaxed None 7 7 true; ERet 0 (RVal 7)].
Example c01_int_trace_valid :
  trace_ok IntOps int_trace = true /\ forallb is_ctr_inc (map snd (ecalls int_trace)) = true /\
  wrap64 (sumN (map delta64 (map snd (ecalls int_trace)))) = 7 /\ spec_c01 false int_trace = true.
Proof. repeat split; vm_compute; reflexivity. Qed.
(* the schedule-driven form of the model produces executions for any schedule: here one with a spurious failure *)
Example c01_run_sched :
  let sch := [ {| ch_t := 0; ch_call := CInc; ch_spur := false |}; {| ch_t := 0; ch_call := CInc; ch_spur := false |};
               {| ch_t := 0; ch_call := CInc; ch_spur := true |}; {| ch_t := 1; ch_call := CAdd two_bits; ch_spur := false |};
               {| ch_t := 0; ch_call := CInc; ch_spur := false |}; {| ch_t := 0; ch_call := CInc; ch_spur := false |};
               {| ch_t := 0; ch_call := CInc; ch_spur := false |} ] in
  let es := snd (run_sched FloatOps (ainit FloatOps) sch) in
  Nat.eqb (length es) 7 && match arun FloatOps (ainit FloatOps) es with Some s => N.eqb (f2bits (cell s)) one_bits | None => false end = true.
Proof. vm_compute. reflexivity. Qed.

(* ---- counters reached as children of a counter vector.
   THESE ARE C10's THEOREMS (Props/C10.v, Proofs/VecConcFacts.v), about C10's model of src/vec.rs (Model/VecConc.v: RwLock word,
   key -> child map, ONE u64 cell per child updated by one fetch_add through the handle - i.e. the child cells are C01's
   integer cells); they are re-exported here because C01's text covers "children of counter vectors": requests for the same
   label values get the same child (in particular racing first requests), every value a collection reads for a child is the
   sum modulo 2^64 of ALL updates made through handles to that child before the read, and so is the content of every cell.
   C01's check validates its `C vec` traces with C10's validator, whose soundness is the fourth statement. *)
Module VecChild.
Import PV.Model.VecConc PV.Proofs.VecConcBase PV.Proofs.VecConcFacts.
Theorem c01_vec_child_same_child_on_race nl tr s L1 k c1 L2 c2 L3 : vrun (vinit nl) tr = Some s ->
  chron s = L1 ++ (AGet k, RChild c1) :: L2 ++ (AGet k, RChild c2) :: L3 ->
  (forall o r, In (o, r) L2 -> ~ kills k o) -> c1 = c2.
Proof. exact (PV.Props.C10.c10_same_child_on_race nl tr s L1 k c1 L2 c2 L3). Qed.
Theorem c01_vec_child_no_lost_update nl tr s newer tm t c v older : vrun (vinit nl) tr = Some s ->
  g_lin s = newer ++ (tm, t, ARead c, RValue v) :: older -> v = wrap64 (upd_sum c older).
Proof. exact (PV.Props.C10.c10_no_lost_update nl tr s newer tm t c v older). Qed.
Theorem c01_vec_child_cell_is_sum_of_updates nl tr s c : vrun (vinit nl) tr = Some s ->
  cell_mem c (v_cells s) = true -> cell_get c (v_cells s) = wrap64 (upd_sum c (g_lin s)).
Proof. exact (PV.Props.C10.c10_cell_is_sum_of_updates nl tr s c). Qed.
Theorem c01_vec_child_validated_traces_are_model_paths nl nth es :
  vcheck nl nth es = true -> exists tr s, reach nl tr s /\ visible tr = es /\ vfinal nth s = true.
Proof. exact (PV.Props.C10.c10_validated_traces_are_model_paths nl nth es). Qed.
End VecChild.

(* counter-vector part: validated `C vec` trace inside the executable domain => spec_c01_vec.  [dom_c01_vec nth es] = C10's
   [in_domain nth es] (every event belongs to one of the nth harness threads) && C10's [incs_ok] (increments are distinct powers of
   two below 2^63 - the generator's pool).  Built on C10's relaxed_spec_of_validated_partial3: no duplicate keys, "shown" (every set
   bit of a collected value is an update of exactly that key invoked before the collection returned) and no-lost-update give "the value
   is the completed increments plus a subset of the overlapping ones". *)
Module VecSpec.
Import PV.Model.VecConc.
Theorem c01_vec_spec_of_validated nl nth es :
  PV.Model.VecConc.vcheck nl nth es = true -> PV.Proofs.C01VecSpec.dom_c01_vec nth es = true -> spec_c01_vec es = true.
Proof. exact (PV.Proofs.C01VecSpec.c01_vec_spec_of_validated_full nl nth es). Qed.
(* a real trace of the implementation (C vec 1 | withinc a 1, withinc b 2, vcollect | withinc a 4, vcollect; both threads race for the new label a) *)
Definition vec_trace : list event := [ECall 0 (CWithInc [[97]] 1); ELock 0 0 LRead true; EUnlock 0 0 LRead; ECall 1 (CWithInc [[97]] 4); ELock 1 0 LRead true; EUnlock 1 0 LRead; ELock 1 0 LWrite true; EUnlock 1 0 LWrite; EAt 1 1 KFetchAdd Relaxed None 0 4 true; ERet 1 RUnit; ELock 0 0 LWrite true; EUnlock 0 0 LWrite; EAt 0 1 KFetchAdd Relaxed None 4 5 true; ERet 0 RUnit; ECall 1 CVCollect; ELock 1 0 LRead true; ECall 0 (CWithInc [[98]] 2); ELock 0 0 LRead true; EUnlock 0 0 LRead; ELock 0 0 LWrite false; EAt 1 1 KLoad Relaxed None 5 5 true; EUnlock 1 0 LRead; ERet 1 (RColl [([[97]],5)]); ELock 0 0 LWrite true; EUnlock 0 0 LWrite; EAt 0 2 KFetchAdd Relaxed None 0 2 true; ERet 0 RUnit; ECall 0 CVCollect; ELock 0 0 LRead true; EAt 0 1 KLoad Relaxed None 5 5 true; EAt 0 2 KLoad Relaxed None 2 2 true; EUnlock 0 0 LRead; ERet 0 (RColl [([[97]],5);([[98]],2)])].
Example c01_vec_trace_by_theorem : PV.Proofs.C01VecSpec.dom_c01_vec 2 vec_trace = true /\ spec_c01_vec vec_trace = true.
Proof. split; [vm_compute; reflexivity|]. apply (c01_vec_spec_of_validated 1 2); vm_compute; reflexivity. Qed.
Check c01_vec_spec_of_validated : forall nl nth es, PV.Model.VecConc.vcheck nl nth es = true -> PV.Proofs.C01VecSpec.dom_c01_vec nth es = true -> spec_c01_vec es = true.
End VecSpec.

(* the vector spec on markers: two threads race for the same new label value, both increments show in the final collections;
   the outcome of a vector that dropped the first child (only thread 1's increment visible) is rejected *)
Definition vec_markers (v0 v1 : N) : list event :=
  [ECall 0 (CWithInc [[97]] 1); ECall 1 (CWithInc [[97]] 2); ERet 0 RUnit; ERet 1 RUnit;
   ECall 0 CVCollect; ERet 0 (RColl [([[97]], v0)]); ECall 1 CVCollect; ERet 1 (RColl [([[97]], v1)])].
Example c01_vec_spec_accepts_and_rejects :
  spec_c01_vec (vec_markers 3 3) = true /\ spec_c01_vec (vec_markers 2 2) = false /\ spec_c01_vec (vec_markers 3 1) = false.
Proof. repeat split; vm_compute; reflexivity. Qed.
(* a local amount far below f64::EPSILON (1e-17) is not zero: the model flushes it with a compare-exchange loop, the spec
   decodes it exactly and rejects a trace in which it was dropped *)
Definition tiny_bits : N := 0x3c670ef54646d497.
Definition tiny_trace : list event :=
  [ECall 0 (CFlush tiny_bits); EAt 0 0 KLoad Acquire None 0 0 true; EAt 0 0 KCasWeak Release (Some Relaxed) 0 tiny_bits true; ERet 0 RUnit;
   ECall 1 CGet; EAt 1 0 KLoad Relaxed None tiny_bits tiny_bits true; ERet 1 (RVal tiny_bits)].
Definition tiny_dropped_trace : list event :=
  [ECall 0 (CFlush tiny_bits); ERet 0 RUnit; ECall 1 CGet; EAt 1 0 KLoad Relaxed None 0 0 true; ERet 1 (RVal 0)].
Example c01_tiny_flush_not_skipped :
  trace_ok FloatOps tiny_trace = true /\ spec_c01 true tiny_trace = true /\
  first_reject (FlFloat, tiny_dropped_trace) = Some 1 /\ spec_c01 true tiny_dropped_trace = false.
Proof. repeat split; vm_compute; reflexivity. Qed.

(* real traces are in the domain: the window trace (float) and the flush trace (integer) satisfy the side condition, and the
   theorem (not evaluation) gives the clauses *)
Example c01_window_trace_in_domain : calls_in counter_call window_trace = true /\ spec_c01_core true window_trace = true.
Proof. split; [vm_compute; reflexivity|]. apply c01_search_of_validated_float; [exact c01_window_trace_valid|vm_compute; reflexivity]. Qed.
Example c01_int_trace_in_domain : calls_in counter_call int_trace = true /\ spec_c01_core false int_trace = true.
Proof. split; [vm_compute; reflexivity|]. apply c01_search_of_validated_int; [exact (proj1 c01_int_trace_valid)|vm_compute; reflexivity]. Qed.

(* generated traces are in the executable domains, and the theorems (not evaluation) give the spec *)
Example c01_int_trace_spec_by_theorem : dom01_int int_trace = true /\ spec_c01 false int_trace = true.
Proof. split; [vm_compute; reflexivity|]. apply c01_spec_of_validated_int; [exact (proj1 c01_int_trace_valid)|vm_compute; reflexivity]. Qed.
Example c01_window_trace_float_by_theorem : dom01_float window_trace = true /\ spec_c01_B true window_trace = true.
Proof. split; [vm_compute; reflexivity|]. apply c01_spec_of_validated_float_partial; [exact c01_window_trace_valid|vm_compute; reflexivity]. Qed.

(* FULL float statement (Proofs/AtomicSpecFloat.v): on the executable domain [dom01_float_full] - counter calls, finite non-negative
   increments whose decoded values q*2^-1074 are all multiples of 2^lo with sum below 2^(lo+53) and below 2^2098, so that every partial sum
   is exact (Flocq Bplus_correct) - a validated trace satisfies the WHOLE executable spec, clause (A) (read = sum of a subset of the
   increments containing every completed one) included.  No bound on the number of calls.  Outside the domain: non-finite amounts and
   amounts that do not fit one 53-bit window (1.0 with 1e-17, 0.1, ...): there the _partial theorem above applies. *)
Theorem c01_spec_of_validated_float es : trace_ok FloatOps es = true -> dom01_float_full es = true -> spec_c01 true es = true.
Proof. exact (c01_spec_of_validated_float_full es). Qed.
Example c01_window_trace_float_full_by_theorem : dom01_float_full window_trace = true /\ spec_c01 true window_trace = true.
Proof. split; [vm_compute; reflexivity|]. apply c01_spec_of_validated_float; [exact c01_window_trace_valid|vm_compute; reflexivity]. Qed.
Example c01_tiny_trace_in_domain : dom01_float_full tiny_trace = true.
Proof. vm_compute; reflexivity. Qed.
Check c01_spec_of_validated_float : forall es, trace_ok FloatOps es = true -> dom01_float_full es = true -> spec_c01 true es = true.
Check c01_spec_of_validated_int : forall es, trace_ok IntOps es = true -> dom01_int es = true -> spec_c01 false es = true.
Check c01_search_of_validated_int : forall es, trace_ok IntOps es = true -> calls_in counter_call es = true -> spec_c01_core false es = true.
Check c01_search_of_validated_float : forall es, trace_ok FloatOps es = true -> calls_in counter_call es = true -> spec_c01_core true es = true.
Check c01_int_lin : forall es s, reachable IntOps es s ->
  let h := hist IntOps s in
  proj_hist h = proj_ev IntOps es /\ hist_wf h /\ spec_run IntOps 0 (lin_calls h) = Some (cell s, lin_rets h).
Check c01_float_lin : forall es s, reachable FloatOps es s ->
  let h := hist FloatOps s in
  proj_hist h = proj_ev FloatOps es /\ hist_wf h /\ spec_run FloatOps 0%float (lin_calls h) = Some (cell s, lin_rets h).
Check c01_real_time : forall h, hist_wf h ->
  forall t k r u m i l', at_res h t k r -> at_inv h u m i -> (r < i)%nat -> at_lin h u m l' -> exists l, at_lin h t k l /\ (l < l')%nat.
Check c01_final_sum : forall es s, reachable IntOps es s -> quiescent IntOps s ->
  forallb is_ctr_inc (map snd (ecalls es)) = true -> cell s = wrap64 (sumN (map delta64 (map snd (ecalls es)))).
Check c01_monotone : forall es s a t1 v1 b t2 v2 d, reachable IntOps es s ->
  hist IntOps s = a ++ MLin t1 CGet (RVal v1) :: b ++ MLin t2 CGet (RVal v2) :: d ->
  forallb is_ctr_inc (lin_calls b) = true -> v1 + sumN (map delta64 (lin_calls b)) < two64 -> v1 <= v2.
Check c01_monotone_float : forall es s a t1 v1 b t2 v2 d, reachable FloatOps es s ->
  hist FloatOps s = a ++ MLin t1 CGet (RVal v1) :: b ++ MLin t2 CGet (RVal v2) :: d ->
  forallb nonneg_call (lin_calls a) = true -> forallb nonneg_inc (lin_calls b) = true ->
  exists x1 x2 : f64, v1 = f2bits x1 /\ v2 = f2bits x2 /\ PrimFloat.leb x1 x2 = true.

Print Assumptions c01_exec_sound.
Print Assumptions c01_exec_complete.
Print Assumptions c01_trace_ok_reachable.
Print Assumptions c01_cell_is_spec_int.
Print Assumptions c01_cell_is_spec_float.
Print Assumptions c01_int_lin.
Print Assumptions c01_float_lin.
Print Assumptions c01_lin_inside_window.
Print Assumptions c01_real_time.
Print Assumptions c01_exactly_once_int.
Print Assumptions c01_exactly_once_float.
Print Assumptions c01_final_sum.
Print Assumptions c01_final_sum_f64.
Print Assumptions c01_read_prefix_int.
Print Assumptions c01_read_prefix_float.
Print Assumptions c01_read_sum.
Print Assumptions c01_read_subset_int.
Print Assumptions c01_read_subset_float.
Print Assumptions c01_monotone.
Print Assumptions c01_monotone_float.
Print Assumptions c01_flush_once_int.
Print Assumptions c01_flush_once_float.
Print Assumptions c01_flush_effect.
Print Assumptions c01_zero_flush_no_shared_step.
Print Assumptions c01_window_trace_valid.
Print Assumptions c01_window_trace_final.
Print Assumptions c01_window_trace_spec.
Print Assumptions c01_lost_update_rejected.
Print Assumptions c01_int_trace_valid.
Print Assumptions c01_run_sched.
Print Assumptions VecChild.c01_vec_child_same_child_on_race.
Print Assumptions VecChild.c01_vec_child_no_lost_update.
Print Assumptions VecChild.c01_vec_child_cell_is_sum_of_updates.
Print Assumptions VecChild.c01_vec_child_validated_traces_are_model_paths.
Print Assumptions c01_vec_spec_accepts_and_rejects.
Print Assumptions c01_tiny_flush_not_skipped.
Print Assumptions c01_search_of_validated_int.
Print Assumptions c01_search_of_validated_float.
Print Assumptions c01_spec_from_clauses.
Print Assumptions c01_search_complete.
Print Assumptions c01_window_trace_in_domain.
Print Assumptions c01_int_trace_in_domain.
Print Assumptions c01_spec_of_validated_int.
Print Assumptions c01_spec_of_validated_float_partial.
Print Assumptions c01_spec_from_clauses3.
Print Assumptions c01_f2bits_injective.
Print Assumptions c01_int_trace_spec_by_theorem.
Print Assumptions c01_window_trace_float_by_theorem.
Print Assumptions c01_spec_of_validated_float.
Print Assumptions c01_window_trace_float_full_by_theorem.
Print Assumptions c01_tiny_trace_in_domain.
Print Assumptions VecSpec.c01_vec_spec_of_validated.
Print Assumptions VecSpec.c01_vec_trace_by_theorem.
