(* C10  Concurrent use of a metric vector is linearizable.
   Only statements, closed by [exact], pinned by [Check], with their assumptions printed.
   Model: Model/VecConc.v (small-step model of src/vec.rs with the ghost linearisation log);
   proofs: Proofs/VecConcBase.v (lock word, memory, abstract = concrete), Proofs/VecConcLin.v (the log),
   Proofs/VecConcFacts.v (consequences, validator soundness), Proofs/VecConcRT.v (real-time form),
   Proofs/VecConcStrict.v (exactness of the linearisation search, the refutation witness),
   Proofs/VecConcSpec.v, Proofs/VecConcSpec2.v (validated trace => the proved clauses of the executable relaxed spec).
   All statements quantify over every trace [tr] of labelled steps (every interleaving / schedule, any number of
   threads, any programs: a thread may invoke any call whenever it is idle).

   FULL STATEMENT of the property text (every call, including collect with the VALUES it returns and the updates through
   handles, takes effect at one point of one order consistent with real time):
       forall nl nth es, vcheck nl nth es = true ->
         strict_linearisation_exists nl (fst (extract es))          (Spec/SpecC10.v: collect is ONE atomic action)
   This is FALSE of the model and of the code: [c10_strict_refuted] exhibits a real trace of the implementation that the
   validator accepts (a path of the model) and that has no such order - collect reads each child with its own load under
   the read lock while updates through handles take no lock, so one collection can show a thread's later update to child b
   without its earlier, completed, update to child a.  Known finding C10-collect-values-not-snapshot (not a small fix).
   WHAT IS PROVED (for all traces): [c10_lin], the same statement with a collection taking effect as an atomic KEY SET (at
   its read-lock acquisition) followed by one linearised READ PER CHILD, and everything the property text names beyond the
   value snapshot: same child on racing first requests, no lost / double-counted update, no duplicate keys, removed keys
   not collected, handles survive removal, recreated children start from zero, sequential histories. *)
Require Import PV.Base.Prelude PV.Model.Conc PV.Model.VecConc.
Require Import PV.Proofs.VecConcBase PV.Proofs.VecConcLin PV.Proofs.VecConcFacts PV.Proofs.VecConcRT.
Require Import PV.Spec.SpecC10 PV.Proofs.VecConcStrict PV.Proofs.VecConcSpec PV.Proofs.VecConcSpec2 PV.Proofs.VecConcSpec3 PV.Proofs.VecConcSpec4 PV.Proofs.VecConcSpec5 PV.Proofs.VecConcSpec6 PV.Proofs.VecConcSpec7 PV.Proofs.VecConcSpec8 PV.Proofs.VecConcSpec9.
From Coq Require Import Sorted Permutation.
Open Scope N_scope.

(* ---- linearizability with respect to the abstract map  key -> (child id, value) ---- *)
(* [g_lin s] logs, newest first, (time, thread, abstract operation, abstract result); an operation is logged by the step that is its
   linearisation step: the lookup that hits / the insert / the remove / the clear (silent map steps between lock acquisition and
   release), the fetch_add through the handle, the read-lock acquisition of a collection and each of its per-child loads. *)
Theorem c10_lin nl tr s : vrun (vinit nl) tr = Some s ->
  areplay ainit (map le_op (rev (g_lin s))) = (g_abs s, map le_res (rev (g_lin s)))
  /\ StronglySorted (fun a b => (le_time b < le_time a)%nat) (g_lin s)
  /\ (forall e, In e (g_lin s) -> exists l, nth_error tr (le_time e) = Some l /\ lin_label (le_op e) (le_tid e) l)
  /\ (forall i t c, nth_error tr i = Some (LE (ECall t c)) -> g_open s t = Some (c, i) \/ exists r trr, In (t, c, r, i, trr) (g_done s))
  /\ (forall i t r, nth_error tr i = Some (LE (ERet t r)) -> exists c ti, In (t, c, r, ti, i) (g_done s))
  /\ (forall t c r ti trr, In (t, c, r, ti, trr) (g_done s) ->
        (ti < trr)%nat /\ nth_error tr ti = Some (LE (ECall t c)) /\ nth_error tr trr = Some (LE (ERet t r))
        /\ ret_matches nl c r (lins_in t ti trr (g_lin s)))
  /\ (forall e, In e (g_lin s) -> owner_ok s e).
Proof. exact (linearizable nl tr s). Qed.

(* the generic real-time lemma, and its instance: what a call that returned logs precedes what a later call logs *)
Theorem c10_real_time_generic (inv_a lin_a resp_a inv_b lin_b resp_b : nat) :
  (inv_a <= lin_a <= resp_a)%nat -> (inv_b <= lin_b <= resp_b)%nat -> (resp_a < inv_b)%nat -> (lin_a < lin_b)%nat.
Proof. exact (real_time_generic inv_a lin_a resp_a inv_b lin_b resp_b). Qed.

Theorem c10_real_time nl tr s t1 c1 r1 ti1 tr1 t2 c2 r2 ti2 tr2 e1 e2 : vrun (vinit nl) tr = Some s ->
  In (t1, c1, r1, ti1, tr1) (g_done s) -> In (t2, c2, r2, ti2, tr2) (g_done s) -> (tr1 < ti2)%nat ->
  In e1 (g_lin s) -> winb t1 ti1 tr1 e1 = true -> In e2 (g_lin s) -> winb t2 ti2 tr2 e2 = true ->
  (le_time e1 < le_time e2)%nat.
Proof. intros H. exact (real_time_order s t1 c1 r1 ti1 tr1 t2 c2 r2 ti2 tr2 e1 e2). Qed.

(* ---- invariants ---- *)
(* lock word consistent with the holders; keys and cells distinct; the abstract map is the concrete one, each abstract child's value is its cell *)
Theorem c10_invariants nl tr s : vrun (vinit nl) tr = Some s ->
  LockInv s
  /\ NoDup (map fst (v_map s)) /\ NoDup (map snd (v_map s))
  /\ g_abs s = mkA (map (fun kc => (fst kc, (snd kc, cell_get (snd kc) (v_cells s)))) (v_map s)) (v_next s).
Proof. exact (invariants nl tr s). Qed.

Theorem c10_mutual_exclusion nl tr s t u : vrun (vinit nl) tr = Some s ->
  holds_write (v_pc s t) = true -> u <> t -> holds_write (v_pc s u) = false /\ holds_read (v_pc s u) = false.
Proof. exact (mutual_exclusion nl tr s t u). Qed.

(* the map changes only in a silent step of the thread that holds the write lock while nobody else is in a critical section;
   it is read only by lock holders *)
Theorem c10_map_access_under_lock nl tr s l s' : vrun (vinit nl) tr = Some s -> step s l = Some s' ->
  (v_map s' <> v_map s ->
     exists t, l = LTau t /\ g_wh s = Some t /\ v_wr s = true
               /\ forall u, u <> t -> holds_write (v_pc s u) = false /\ holds_read (v_pc s u) = false)
  /\ (forall t, l = LTau t -> In t (g_rh s) \/ g_wh s = Some t)
  /\ (forall t c o b a, l = LE (EAt t c KLoad o None b a true) -> In t (g_rh s) /\ g_wh s = None).
Proof. exact (map_access_under_lock nl tr s l s'). Qed.

(* ---- the consequences named in the property; [chron s] = the log, oldest first, as (operation, result) pairs ---- *)
(* requests for the same label values get the same child as long as the key is not removed / the vector reset in between -
   in particular simultaneous first requests *)
Theorem c10_same_child_on_race nl tr s L1 k c1 L2 c2 L3 : vrun (vinit nl) tr = Some s ->
  chron s = L1 ++ (AGet k, RChild c1) :: L2 ++ (AGet k, RChild c2) :: L3 ->
  (forall o r, In (o, r) L2 -> ~ kills k o) -> c1 = c2.
Proof. intros H. exact (same_child_on_race nl tr s (vrun_reach nl tr s H) L1 k c1 L2 c2 L3). Qed.

(* every value a collection reads for a child is exactly the sum (mod 2^64) of the updates made through handles to that child
   before the read: none lost, none counted twice; the same for the current content of every cell *)
Theorem c10_no_lost_update nl tr s newer tm t c v older : vrun (vinit nl) tr = Some s ->
  g_lin s = newer ++ (tm, t, ARead c, RValue v) :: older -> v = wrap64 (upd_sum c older).
Proof. intros H. exact (no_lost_update nl tr s (vrun_reach nl tr s H) newer tm t c v older). Qed.
Theorem c10_cell_is_sum_of_updates nl tr s c : vrun (vinit nl) tr = Some s ->
  cell_mem c (v_cells s) = true -> cell_get c (v_cells s) = wrap64 (upd_sum c (g_lin s)).
Proof. intros H. exact (cell_is_sum_of_updates nl tr s (vrun_reach nl tr s H) c). Qed.

(* a collection never shows the same label values twice *)
Theorem c10_no_duplicate_keys nl tr s i t l : vrun (vinit nl) tr = Some s ->
  nth_error tr i = Some (LE (ERet t (RColl l))) -> NoDup (map fst l).
Proof. intros H. exact (returned_collection_nodup nl tr s (vrun_reach nl tr s H) i t l). Qed.

(* a removed key (or any key after a reset) is not in a later collection's key set unless it was requested again *)
Theorem c10_removed_not_collected nl tr s L1 o r k L2 kcs L3 : vrun (vinit nl) tr = Some s ->
  chron s = L1 ++ (o, r) :: L2 ++ (ACollect, RKeys kcs) :: L3 -> kills k o ->
  (forall o' r', In (o', r') L2 -> o' <> AGet k) -> ~ In k (map fst kcs).
Proof. intros H. exact (removed_not_collected nl tr s (vrun_reach nl tr s H) L1 o r k L2 kcs L3). Qed.

(* the same on the call / return markers alone: if a remove of k (or a reset) returned before a collection was invoked, and every
   with_label_values(k) call invoked before the collection returned had itself returned before that removal was invoked, then the
   collection does not show k *)
Theorem c10_removed_not_collected_real_time nl tr s k t1 c1 r1 ti1 tr1 t2 l ti2 tr2 :
  vrun (vinit nl) tr = Some s ->
  In (t1, c1, r1, ti1, tr1) (g_done s) -> removal_call nl k c1 ->
  In (t2, CVCollect, RColl l, ti2, tr2) (g_done s) -> (tr1 < ti2)%nat ->
  (forall i t d, nth_error tr i = Some (LE (ECall t (CWithInc k d))) -> (i < tr2)%nat ->
                 exists j r, nth_error tr j = Some (LE (ERet t r)) /\ (i < j < ti1)%nat) ->
  ~ In k (map fst l).
Proof. exact (removed_not_collected_real_time nl tr s k t1 c1 r1 ti1 tr1 t2 l ti2 tr2). Qed.

(* a handle stays usable whatever happened to the map: its fetch_add is enabled, updates the cell, leaves the map alone, and is
   invisible to the abstract map if the child is no longer in it *)
Theorem c10_handle_survives_removal nl tr s t k c d o : vrun (vinit nl) tr = Some s ->
  v_pc s t = PU k c d ->
  let v := cell_get c (v_cells s) in
  exists s', step s (LE (EAt t c KFetchAdd o None v (wrap64 (v + d)) true)) = Some s'
             /\ cell_get c (v_cells s') = wrap64 (v + d)
             /\ v_map s' = v_map s
             /\ (~ In c (map snd (v_map s)) -> g_abs s' = g_abs s).
Proof. intros H. exact (handle_survives_removal nl tr s (vrun_reach nl tr s H) t k c d o). Qed.

(* a child requested again after removal is a new child (an id never handed out before) that starts from zero *)
Theorem c10_recreated_is_fresh nl tr s L1 o r k L2 c L3 : vrun (vinit nl) tr = Some s ->
  chron s = L1 ++ (o, r) :: L2 ++ (AGet k, RChild c) :: L3 -> kills k o ->
  (forall o' r', In (o', r') L2 -> o' <> AGet k) ->
  (forall o' c', In (o', RChild c') (L1 ++ (o, r) :: L2) -> c' < c)
  /\ klookup k (a_map (arun ainit (L1 ++ (o, r) :: L2 ++ [(AGet k, RChild c)]))) = Some (c, 0).
Proof. intros H. exact (recreated_is_fresh nl tr s (vrun_reach nl tr s H) L1 o r k L2 c L3). Qed.
(* concretely: the insert step allocates a cell that did not exist, with value 0 *)
Theorem c10_insert_allocates_fresh_cell nl tr s t k d s' : vrun (vinit nl) tr = Some s ->
  v_pc s t = PG6 k d -> step s (LTau t) = Some s' ->
  v_pc s' t = PG7 k d (v_next s) /\ klookup k (v_map s') = Some (v_next s) /\ cell_get (v_next s) (v_cells s') = 0
  /\ cell_mem (v_next s) (v_cells s) = false /\ ~ In (v_next s) (map snd (v_map s)).
Proof. intros H. exact (fresh_child_on_insert nl tr s (vrun_reach nl tr s H) t k d s'). Qed.

(* sequential histories are the one-thread instance: completed calls are totally ordered in real time, so (c10_real_time)
   the order of the log is the program order and c10_lin says the history is the abstract specification's *)
Theorem c10_sequential nl tr s t0 d1 d2 : vrun (vinit nl) tr = Some s ->
  (forall l, In l tr -> lab_tid l = Some t0) ->
  In d1 (g_done s) -> In d2 (g_done s) -> d1 = d2 \/ (snd d1 < snd (fst d2))%nat \/ (snd d2 < snd (fst d1))%nat.
Proof. intros H. exact (sequential_total nl tr s (vrun_reach nl tr s H) t0 d1 d2). Qed.

(* ---- tie: every trace of the implementation accepted by the executable validator is the visible part of a model path ---- *)
Theorem c10_validated_traces_are_model_paths nl nth es :
  vcheck nl nth es = true -> exists tr s, reach nl tr s /\ visible tr = es /\ vfinal nth s = true.
Proof. exact (validated_is_reachable nl nth es). Qed.

(* ---- the literal (strict) statement is refuted; the search that decides it on a trace is exact ---- *)
(* the witness: a real trace of the implementation, accepted by the validator, hence the visible part of a model path; its calls
   are well-formed; NO order of its atomic actions (get-or-create, update, collect as one action with keys and values) consistent
   with program order and real time is reproduced by a sequential map; the relaxed spec holds on it; it is in the known class *)
Theorem c10_strict_refuted :
  vcheck 1 2 snapshot_trace = true
  /\ (exists tr s, reach 1 tr s /\ visible tr = snapshot_trace)
  /\ snd (extract snapshot_trace) = true
  /\ ~ strict_linearisation_exists 1 (fst (extract snapshot_trace))
  /\ spec_c10_strict 1 snapshot_trace = false /\ spec_c10_relaxed 1 snapshot_trace = true /\ known_c10 1 snapshot_trace = true.
Proof. exact strict_refuted_on_witness. Qed.

(* a NotFound answer of the budgeted search is exact: no interleaving was skipped (an exhausted budget answers Unknown instead) *)
Theorem c10_strict_search_exact nl cs : lin_search true nl cs = NotFound -> ~ strict_linearisation_exists nl cs.
Proof. exact (strict_search_exact nl cs). Qed.

(* the one-pass classifier used by the check driver is the three specs *)
Theorem c10_classifier_is_spec nl es :
  spec_c10_strict nl es = negb ((classify nl es =? 1) || (classify nl es =? 2))
  /\ known_c10 nl es = (classify nl es =? 1) /\ strict_unknown nl es = (classify nl es =? 3).
Proof. exact (conj (classify_strict nl es) (conj (classify_known nl es) (classify_unknown nl es))). Qed.

(* ---- validated trace => executable relaxed spec (uniform theorem of the concurrent properties): FULL, proved in stages ----
   FULL STATEMENT:   forall nl nth es, vcheck nl nth es = true -> in_domain nth es = true -> spec_c10_relaxed nl es = true
   ([in_domain] = every event belongs to one of the nth harness threads).
   PROVED ([c10_relaxed_spec_of_validated_partial]): the conjuncts [proved_clauses2] of the spec, via the bridge "the call records the
   spec extracts from the events = the model's ghost call records" (Proofs/VecConcSpec.v reach_xinv), c10_lin's invariant and
   c10_no_lost_update with the arithmetic of sums of distinct powers of two (Proofs/VecConcSpec2.v):
     - every call returned and nothing went wrong (wf); the result kinds incl. the length of collected keys;
     - no collection shows a key twice;
     - removed / reset keys are not collected unless a request for them may be ordered after the removal (real time);
     - the remove clause: Ok only if the key was requested before the removal returned, Err never when the key is certainly present;
     - no lost update: an update whose call returned before a collection was invoked is decoded from the collected value of its key
       unless a successful remove of the key / a reset may be ordered in between.
   PROVED IN FULL for scenarios whose increments are not distinct powers of two ([c10_relaxed_spec_of_validated_undecodable]): there
   the spec has no value-decoding clause and no search.
   ALSO PROVED ([c10_relaxed_spec_of_validated_partial3], Proofs/VecConcSpec3.v): the remaining conjuncts of [coll_ok] - "shown" (a
   shown key was requested before the collection returned; value < 2^63; every decoded bit is an update for exactly that key invoked
   before the collection returned; no bit outside the scenario's increments) and "recreated-is-fresh" - from the invariant "a child id
   belongs to one key for ever and never re-enters the map once removed" ([c10_child_id_one_key], [c10_child_id_never_returns]).
   [proved_clauses3] is ALL of the spec except the search: [c10_relaxed_spec_of_validated_is_search].
   MISSING for the full statement, precisely:
     (b) "lin_search false does not answer NotFound": needs lin_exists for the relaxed action system from the ghost log (a simulation
         of the spec's sequential map, thread-local handle / snapshot, and the placement of the end-of-reads action); the exactness of
         NotFound is proved (c10_strict_search_exact / dfs_notfound_exact), so no budget clause would be needed.
         PROVED: first for scenarios without collect calls ([c10_relaxed_spec_of_validated_nocollect], Proofs/VecConcSpec4.v: the ghost
         log in time order IS a linearisation - rows_equal, lacts_rt, replay_from), then IN FULL ([c10_relaxed_spec_of_validated],
         Proofs/VecConcSpec5.v: entry -> actions with ACollect -> KSnap and KEnd on the last entry of the collection's window;
         Proofs/VecConcSpec6.v: the simulation SimR of the spec's sequential map, values as sums of amounts, thread handle, thread
         snapshot).  THE FULL STATEMENT IS THEREFORE A THEOREM; the _partial* theorems are kept as its stages.
   [c10_strict_failure_is_known_class] is proved as well (below; Proofs/VecConcSpec7-9.v). *)
Theorem c10_relaxed_spec_of_validated_partial nl nth es :
  vcheck nl nth es = true -> in_domain nth es = true -> proved_clauses2 nl es = true.
Proof. exact (relaxed_spec_of_validated_partial2 nl nth es). Qed.

Theorem c10_relaxed_spec_of_validated_undecodable nl nth es :
  vcheck nl nth es = true -> in_domain nth es = true -> incs_ok (fst (extract es)) = false -> spec_c10_relaxed nl es = true.
Proof. exact (relaxed_spec_of_validated_undecodable nl nth es). Qed.

(* [proved_clauses] consists of conjuncts of the spec *)
Theorem c10_proved_clauses_are_spec_conjuncts nl es :
  spec_c10_relaxed nl es = true -> incs_ok (fst (extract es)) = true -> proved_clauses2 nl es = true.
Proof. exact (relaxed_spec_implies_proved_clauses2 nl es). Qed.

(* a child id belongs to one key for ever and never re-enters the map once it has left it (reachable states) *)
Theorem c10_child_id_one_key nl tr s k1 k2 c : vrun (vinit nl) tr = Some s ->
  In (AGet k1, RChild c) (chron s) -> In (AGet k2, RChild c) (chron s) -> k1 = k2.
Proof. intros H. exact (child_id_one_key nl tr s (vrun_reach nl tr s H) k1 k2 c). Qed.
Theorem c10_child_id_never_returns nl tr s L1 L2 c : vrun (vinit nl) tr = Some s ->
  chron s = L1 ++ L2 -> c < a_next (arun ainit L1) -> ~ In c (ids (arun ainit L1)) -> ~ In c (ids (g_abs s)).
Proof. intros H. exact (child_id_never_returns nl tr s (vrun_reach nl tr s H) L1 L2 c). Qed.

(* validated trace => every part of the executable relaxed spec except the search (proved_clauses3 = base_ok) *)
Theorem c10_relaxed_spec_of_validated_partial3 nl nth es :
  vcheck nl nth es = true -> in_domain nth es = true -> proved_clauses3 nl es = true.
Proof. exact (relaxed_spec_of_validated_partial3 nl nth es). Qed.
Theorem c10_proved_clauses3_are_spec_conjuncts nl es : spec_c10_relaxed nl es = true -> proved_clauses3 nl es = true.
Proof. exact (relaxed_spec_implies_proved_clauses3 nl es). Qed.
(* what remains is exactly the search *)
Theorem c10_relaxed_spec_of_validated_is_search nl nth es :
  vcheck nl nth es = true -> in_domain nth es = true -> spec_c10_relaxed nl es = search_ok false nl (fst (extract es)).
Proof. exact (relaxed_spec_of_validated_is_search nl nth es). Qed.
Theorem c10_relaxed_spec_of_validated_if_not_refuted nl nth es :
  vcheck nl nth es = true -> in_domain nth es = true -> lin_search false nl (fst (extract es)) <> NotFound -> spec_c10_relaxed nl es = true.
Proof. exact (relaxed_spec_of_validated_if_not_refuted nl nth es). Qed.

(* (b) on the sub-domain of scenarios without collect calls: the ghost log yields a linearisation of the relaxed action system, so the
   search cannot answer NotFound and the FULL relaxed spec holds on validated traces *)
Theorem c10_search_not_refuted_nocollect nl nth es :
  vcheck nl nth es = true -> in_domain nth es = true -> no_collect es = true ->
  lin_exists sst0 (all_acts false nl (fst (extract es))) /\ lin_search false nl (fst (extract es)) <> NotFound.
Proof. exact (search_not_refuted_nocollect nl nth es). Qed.
Theorem c10_relaxed_spec_of_validated_nocollect nl nth es :
  vcheck nl nth es = true -> in_domain nth es = true -> no_collect es = true -> spec_c10_relaxed nl es = true.
Proof. exact (relaxed_spec_of_validated_nocollect nl nth es). Qed.
(* non-vacuity: a real racing trace without collect calls is in the sub-domain *)
Example c10_nocollect_in_domain :
  vcheck 1 2 nocollect_trace = true /\ in_domain 2 nocollect_trace = true /\ no_collect nocollect_trace = true
  /\ spec_c10_relaxed 1 nocollect_trace = true.
Proof.
  assert (Hv : vcheck 1 2 nocollect_trace = true) by (vm_compute; reflexivity).
  assert (Hd : in_domain 2 nocollect_trace = true) by (vm_compute; reflexivity).
  assert (Hn : no_collect nocollect_trace = true) by (vm_compute; reflexivity).
  split; [exact Hv|]. split; [exact Hd|]. split; [exact Hn|]. exact (relaxed_spec_of_validated_nocollect 1 2 nocollect_trace Hv Hd Hn).
Qed.

(* (b) in full: on every validated trace in the domain the ghost log yields a linearisation of the relaxed action system (key snapshot at the
   ACollect entry, end of the value reads at the last entry of the collection's window), so the search cannot answer NotFound, and the
   FULL relaxed spec holds - the uniform theorem "validator accepts the trace => the executable spec is true" for C10 *)
Theorem c10_search_not_refuted nl nth es :
  vcheck nl nth es = true -> in_domain nth es = true ->
  lin_search false nl (fst (extract es)) <> NotFound \/ incs_ok (fst (extract es)) = false.
Proof. exact (search_not_refuted nl nth es). Qed.
Theorem c10_relaxed_spec_of_validated nl nth es :
  vcheck nl nth es = true -> in_domain nth es = true -> spec_c10_relaxed nl es = true.
Proof. exact (relaxed_spec_of_validated_full nl nth es). Qed.
(* non-vacuity: real traces with collections (the racing first requests; the witness of the known finding) are in the domain *)
Example c10_relaxed_spec_of_validated_examples :
  spec_c10_relaxed 1 race_trace = true /\ spec_c10_relaxed 1 snapshot_trace = true.
Proof.
  split; [apply (relaxed_spec_of_validated_full 1 2) | apply (relaxed_spec_of_validated_full 1 2)]; vm_compute; reflexivity.
Qed.
Check c10_relaxed_spec_of_validated : forall nl nth es, vcheck nl nth es = true -> in_domain nth es = true -> spec_c10_relaxed nl es = true.

(* the check's VIOLATION / KNOWN-FINDING split is sound for every trace the model accepts: on validated traces in the domain a failure
   of the strict spec is always in the recorded class (strict fails, relaxed holds, a collection overlaps updates to two different
   label-value tuples).  Proof: while a collection reads, the key set is stable and each child is read once (c10_collect_keys_stable);
   if no collection overlaps updates to two tuples, at most one shown child is updated inside a collection's window, so the
   collection can take effect as ONE action at the first read of that child (or at its key snapshot), which yields a strict
   linearisation (Proofs/VecConcSpec7-9.v); the strict search's NotFound is exact, an exhausted budget counts as pass. *)
Theorem c10_collect_keys_stable nl tr s newer tm t c v older : vrun (vinit nl) tr = Some s ->
  g_lin s = newer ++ (tm, t, ARead c, RValue v) :: older -> keys_stable older t c.
Proof. intros H. exact (reach_kinv nl tr s (vrun_reach nl tr s H) newer tm t c v older). Qed.
Theorem c10_strict_failure_is_known_class nl nth es :
  vcheck nl nth es = true -> in_domain nth es = true -> spec_c10_strict nl es = false -> known_c10 nl es = true.
Proof. exact (strict_failure_is_known_class nl nth es). Qed.
(* equivalently, with the one-pass classifier of the check driver: class 2 (a strict failure outside the known class) is impossible *)
Theorem c10_classifier_never_2 nl nth es : vcheck nl nth es = true -> in_domain nth es = true -> classify nl es <> 2.
Proof.
  intros Hv Hd H2. pose proof (classify_strict nl es) as Hs. pose proof (classify_known nl es) as Hk. rewrite H2 in Hs, Hk. cbn in Hs, Hk.
  rewrite (strict_failure_is_known_class nl nth es Hv Hd Hs) in Hk. discriminate.
Qed.
Check c10_strict_failure_is_known_class : forall nl nth es,
  vcheck nl nth es = true -> in_domain nth es = true -> spec_c10_strict nl es = false -> known_c10 nl es = true.

(* a generated (real) trace is in the domain; on it the whole relaxed spec also evaluates to true *)
Example c10_race_in_domain :
  in_domain 2 race_trace = true /\ vcheck 1 2 race_trace = true /\ proved_clauses2 1 race_trace = true /\ spec_c10_relaxed 1 race_trace = true.
Proof.
  assert (Hd : in_domain 2 race_trace = true) by (vm_compute; reflexivity).
  assert (Hv : vcheck 1 2 race_trace = true) by (vm_compute; reflexivity).
  split; [exact Hd|]. split; [exact Hv|]. split; [exact (relaxed_spec_of_validated_partial2 1 2 race_trace Hv Hd) | vm_compute; reflexivity].
Qed.

(* ---- non-vacuity ---- *)
(* a real trace of the implementation: two threads race on the first request of one key (both miss under the read lock, thread 1
   inserts, thread 0's second lookup hits); the validator accepts it and the collection shows both updates on one child *)
Example c10_race_validated :
  vcheck 1 2 race_trace = true
  /\ In (ERet 0 (RColl [([[97]], 3)])) race_trace
  /\ exists tr s, vrun (vinit 1) tr = Some s /\ visible tr = race_trace
                  /\ map opres (rev (g_lin s)) =
                     [(AGet [[97]], RChild 1); (AUpd 1 2, RDone); (AGet [[97]], RChild 1); (AUpd 1 1, RDone);
                      (ACollect, RKeys [([[97]], 1)]); (ARead 1, RValue 3)].
Proof.
  split; [vm_compute; reflexivity|]. split; [cbn; tauto|].
  destruct (validate vexec (vinit 1) 0 race_trace) as [[i|] s] eqn:E; [vm_compute in E; discriminate|].
  destruct (validate_sound _ _ _ _ E) as (tr & H1 & H2). exists tr, s. split; auto. split; auto.
  assert (Hs : snd (validate vexec (vinit 1) 0 race_trace) = s) by (rewrite E; reflexivity). rewrite <- Hs. vm_compute. reflexivity.
Qed.

(* a real sequential trace (request, remove, collect, request again, collect): the hypotheses of c10_removed_not_collected and
   c10_recreated_is_fresh are satisfiable - the log has exactly their shape (L1 = first request and update, o = the remove, L2 = []
   resp. the empty collection) *)
Example c10_remove_recreate_validated :
  vcheck 1 1 recreate_trace = true
  /\ exists tr s, vrun (vinit 1) tr = Some s /\ visible tr = recreate_trace
                  /\ chron s =
                     [(AGet [[97]], RChild 1); (AUpd 1 1, RDone)] ++ (ARemove [[97]], RDone) :: [] ++ (ACollect, RKeys []) ::
                     [(AGet [[97]], RChild 2); (AUpd 2 2, RDone); (ACollect, RKeys [([[97]], 2)]); (ARead 2, RValue 2)].
Proof.
  split; [vm_compute; reflexivity|].
  destruct (validate vexec (vinit 1) 0 recreate_trace) as [[i|] s] eqn:E; [vm_compute in E; discriminate|].
  destruct (validate_sound _ _ _ _ E) as (tr & H1 & H2). exists tr, s. split; auto. split; auto.
  assert (Hs : snd (validate vexec (vinit 1) 0 recreate_trace) = s) by (rewrite E; reflexivity). rewrite <- Hs. vm_compute. reflexivity.
Qed.

(* the VALUES of one collection are read child by child and are not an atomic snapshot (only its key set is): in this real trace
   the collection shows thread 0's second update (+2 on b) but not its first (+1 on a), which had returned before the second began *)
Example c10_values_not_atomic_snapshot :
  vcheck 1 2 snapshot_trace = true
  /\ nth_error snapshot_trace 21 = Some (ERet 0 RUnit) /\ nth_error snapshot_trace 22 = Some (ECall 0 (CWithInc [[98]] 2))
  /\ nth_error snapshot_trace 29 = Some (ERet 1 (RColl [([[97]], 4); ([[98]], 10)])).
Proof. vm_compute. repeat split; reflexivity. Qed.

Check c10_lin : forall nl tr s, vrun (vinit nl) tr = Some s ->
  areplay ainit (map le_op (rev (g_lin s))) = (g_abs s, map le_res (rev (g_lin s)))
  /\ StronglySorted (fun a b => (le_time b < le_time a)%nat) (g_lin s)
  /\ (forall e, In e (g_lin s) -> exists l, nth_error tr (le_time e) = Some l /\ lin_label (le_op e) (le_tid e) l)
  /\ (forall i t c, nth_error tr i = Some (LE (ECall t c)) -> g_open s t = Some (c, i) \/ exists r trr, In (t, c, r, i, trr) (g_done s))
  /\ (forall i t r, nth_error tr i = Some (LE (ERet t r)) -> exists c ti, In (t, c, r, ti, i) (g_done s))
  /\ (forall t c r ti trr, In (t, c, r, ti, trr) (g_done s) ->
        (ti < trr)%nat /\ nth_error tr ti = Some (LE (ECall t c)) /\ nth_error tr trr = Some (LE (ERet t r))
        /\ ret_matches nl c r (lins_in t ti trr (g_lin s)))
  /\ (forall e, In e (g_lin s) -> owner_ok s e).
Check c10_same_child_on_race : forall nl tr s L1 k c1 L2 c2 L3, vrun (vinit nl) tr = Some s ->
  chron s = L1 ++ (AGet k, RChild c1) :: L2 ++ (AGet k, RChild c2) :: L3 -> (forall o r, In (o, r) L2 -> ~ kills k o) -> c1 = c2.
Check c10_no_lost_update : forall nl tr s newer tm t c v older, vrun (vinit nl) tr = Some s ->
  g_lin s = newer ++ (tm, t, ARead c, RValue v) :: older -> v = wrap64 (upd_sum c older).
Check c10_no_duplicate_keys : forall nl tr s i t l, vrun (vinit nl) tr = Some s ->
  nth_error tr i = Some (LE (ERet t (RColl l))) -> NoDup (map fst l).
Check c10_removed_not_collected : forall nl tr s L1 o r k L2 kcs L3, vrun (vinit nl) tr = Some s ->
  chron s = L1 ++ (o, r) :: L2 ++ (ACollect, RKeys kcs) :: L3 -> kills k o ->
  (forall o' r', In (o', r') L2 -> o' <> AGet k) -> ~ In k (map fst kcs).
Check c10_strict_refuted :
  vcheck 1 2 snapshot_trace = true
  /\ (exists tr s, reach 1 tr s /\ visible tr = snapshot_trace)
  /\ snd (extract snapshot_trace) = true
  /\ ~ strict_linearisation_exists 1 (fst (extract snapshot_trace))
  /\ spec_c10_strict 1 snapshot_trace = false /\ spec_c10_relaxed 1 snapshot_trace = true /\ known_c10 1 snapshot_trace = true.
Check c10_relaxed_spec_of_validated_partial : forall nl nth es,
  vcheck nl nth es = true -> in_domain nth es = true -> proved_clauses2 nl es = true.
Check c10_relaxed_spec_of_validated_undecodable : forall nl nth es,
  vcheck nl nth es = true -> in_domain nth es = true -> incs_ok (fst (extract es)) = false -> spec_c10_relaxed nl es = true.
Check c10_validated_traces_are_model_paths : forall nl nth es,
  vcheck nl nth es = true -> exists tr s, reach nl tr s /\ visible tr = es /\ vfinal nth s = true.

Print Assumptions c10_lin.
Print Assumptions c10_real_time_generic.
Print Assumptions c10_real_time.
Print Assumptions c10_invariants.
Print Assumptions c10_mutual_exclusion.
Print Assumptions c10_map_access_under_lock.
Print Assumptions c10_same_child_on_race.
Print Assumptions c10_no_lost_update.
Print Assumptions c10_cell_is_sum_of_updates.
Print Assumptions c10_no_duplicate_keys.
Print Assumptions c10_removed_not_collected.
Print Assumptions c10_removed_not_collected_real_time.
Print Assumptions c10_handle_survives_removal.
Print Assumptions c10_recreated_is_fresh.
Print Assumptions c10_insert_allocates_fresh_cell.
Print Assumptions c10_sequential.
Print Assumptions c10_validated_traces_are_model_paths.
Print Assumptions c10_strict_refuted.
Print Assumptions c10_strict_search_exact.
Print Assumptions c10_classifier_is_spec.
Print Assumptions c10_relaxed_spec_of_validated_partial.
Print Assumptions c10_relaxed_spec_of_validated_undecodable.
Print Assumptions c10_proved_clauses_are_spec_conjuncts.
Print Assumptions c10_race_in_domain.
Print Assumptions c10_race_validated.
Print Assumptions c10_remove_recreate_validated.
Print Assumptions c10_values_not_atomic_snapshot.
Print Assumptions c10_child_id_one_key.
Print Assumptions c10_child_id_never_returns.
Print Assumptions c10_relaxed_spec_of_validated_partial3.
Print Assumptions c10_proved_clauses3_are_spec_conjuncts.
Print Assumptions c10_relaxed_spec_of_validated_is_search.
Print Assumptions c10_relaxed_spec_of_validated_if_not_refuted.
Print Assumptions c10_search_not_refuted_nocollect.
Print Assumptions c10_relaxed_spec_of_validated_nocollect.
Print Assumptions c10_nocollect_in_domain.
Print Assumptions c10_search_not_refuted.
Print Assumptions c10_relaxed_spec_of_validated.
Print Assumptions c10_relaxed_spec_of_validated_examples.
Print Assumptions c10_collect_keys_stable.
Print Assumptions c10_strict_failure_is_known_class.
Print Assumptions c10_classifier_never_2.
