(* C13  Protobuf exposition decodes to the gathered state.
   Only statements, closed by [exact], pinned by [Check], with their assumptions printed.

   Property: ProtobufEncoder writes each family as one length-delimited
   io.prometheus.client.MetricFamily message; decoding the byte stream with an independent
   protobuf wire decoder against proto/proto_model.proto yields exactly the gathered families
   (names, help, type, labels, values, bucket bounds and cumulative counts, timestamps) in order,
   with nothing else in the stream.  A family without a name or without samples is refused with
   an error.  For all gathered families of every metric type with arbitrary Unicode strings,
   every f64 value class, any number of labels, buckets and families.

   Vocabulary.  [PFamily] (Model/Pb.v) is a family field by field: every field the schema
   declares optional is an [option], doubles are 64-bit patterns (so every NaN payload is
   covered).  [wf_Family] says the strings are lists of Unicode scalar values, the patterns
   and counts fit 64 bits and the timestamps fit i64: it is the typing invariant of the Rust
   values, not a restriction.  [encode_stream] / [encode_to] are the model of
   ProtobufEncoder::encode (tied to the code byte for byte on every run); [decode_stream]
   (Model/PbDecode.v) is the independent decoder, written from the protobuf encoding
   specification and driven by the field table [pb_fields].  [refused f] = f has no metric or
   its name is unset or empty; [too_large f] = its encoding exceeds i32::MAX bytes
   (rust-protobuf refuses such a message with an error before writing anything). *)
From Coq Require Import String.
Require Import PV.Base.Prelude PV.Base.Utf8 PV.Base.F64.
Require Import PV.Model.Proto PV.Model.Desc PV.Model.Value PV.Model.Registry PV.Model.Pb PV.Model.PbDecode.
Require Import PV.Proofs.PbFacts PV.Proofs.PbSchema PV.Proofs.PbGather PV.Proofs.PbSpec.
Require Import PV.gen.ProtoSchema PV.Spec.SpecC13.
Open Scope N_scope.

(* ------------------------------------------------------------------ round trip *)
(* decoding what the encoder wrote yields exactly the families, in order *)
Theorem c13_roundtrip fams bytes :
  Forall wf_Family fams -> encode_stream fams = Ok bytes -> decode_stream bytes = Some fams.
Proof. exact (roundtrip_stream fams bytes). Qed.

(* the stream is self-delimiting: followed by any bytes, the decoder yields the families and then
   whatever it makes of the rest (frame boundaries are where the encoder put them) *)
Theorem c13_stream_boundaries fams bytes rest :
  Forall wf_Family fams -> encode_stream fams = Ok bytes ->
  decode_stream (bytes ++ rest) = match decode_stream rest with Some more => Some (fams ++ more) | None => None end.
Proof. exact (encode_decode_stream fams bytes rest). Qed.

(* nothing else in the stream: no non-empty suffix can follow the encoder's bytes and still
   decode to the families *)
Theorem c13_nothing_else fams bytes rest :
  Forall wf_Family fams -> encode_stream fams = Ok bytes -> decode_stream (bytes ++ rest) = Some fams -> rest = [].
Proof. exact (no_trailing_bytes fams bytes rest). Qed.

(* what is in the writer afterwards, in all three outcomes: the old contents, then one
   varint-length + body frame per accepted family, up to the first refused one *)
Theorem c13_written buf fams :
  (Forall accepted fams /\ encode_to buf fams = POk (buf ++ frames fams))
  \/ (exists pre f post, fams = pre ++ f :: post /\ Forall accepted pre /\ refused f
                         /\ encode_to buf fams = PErr EMsg (buf ++ frames pre))
  \/ (exists pre f post, fams = pre ++ f :: post /\ Forall accepted pre /\ ~ refused f /\ too_large f
                         /\ encode_to buf fams = PErr EOther (buf ++ frames pre)).
Proof. exact (encode_to_cases buf fams). Qed.
Theorem c13_frame f : frame f = varint (blen (enc_Family f)) ++ enc_Family f.
Proof. reflexivity. Qed.
(* each frame body alone decodes to its family *)
Theorem c13_family_message f :
  wf_Family f -> blen (enc_Family f) < two64 -> dec_Family (enc_Family f) = Some f.
Proof. exact (dec_Family_ok f). Qed.

(* ------------------------------------------------------------------ Err iff *)
Theorem c13_refused_def f : refused f <-> pf_metric f = [] \/ pf_name f = None \/ pf_name f = Some [].
Proof. exact (refused_spelled_out f). Qed.
Theorem c13_err_iff fams :
  encode_stream fams = Err EMsg <->
  exists pre f post, fams = pre ++ f :: post /\ Forall accepted pre /\ refused f.
Proof. exact (encode_err_msg_iff fams). Qed.
Theorem c13_ok_iff fams : (exists bytes, encode_stream fams = Ok bytes) <-> Forall accepted fams.
Proof. exact (encode_ok_iff fams). Qed.
Theorem c13_refused_is_error fams f : In f fams -> refused f -> exists e, encode_stream fams = Err e.
Proof. exact (refused_is_error fams f). Qed.

(* ------------------------------------------------------------------ gathered families *)
(* the library's families (Model/Proto.v, what gather returns) as wire data: everything the
   setters touch is set ([pb_of_family], tied to the code on every run); the round trip ... *)
Theorem c13_lib_roundtrip fams bytes :
  Forall wf_family fams -> encode_stream (map pb_of_family fams) = Ok bytes ->
  decode_stream bytes = Some (map pb_of_family fams).
Proof. exact (roundtrip_gathered fams bytes). Qed.
(* ... determines the families (floats bit for bit, one NaN) *)
Theorem c13_lib_faithful a b : map pb_of_family a = map pb_of_family b -> list_eqb mf_eqb a b = true.
Proof. exact (pb_of_families_inj a b). Qed.

(* gather stays inside the well-formed domain and never returns a family without samples:
   for every registry prefix, common labels and collected families of Rust-typed values *)
Theorem c13_gathered p l collected :
  wf_prefix p -> wf_common l -> Forall wf_family collected ->
  Forall wf_family (gather_families p l collected)
  /\ (forall g, In g (gather_families p l collected) -> refused (pb_of_family g) -> mf_name g = [])
  /\ (forall bytes, encode_stream (map pb_of_family (gather_families p l collected)) = Ok bytes ->
                    decode_stream bytes = Some (map pb_of_family (gather_families p l collected))).
Proof.
  intros Hp Hl Hc. split; [exact (gather_wf p l collected Hp Hl Hc)|]. split.
  - exact (gathered_refused_only_unnamed p l collected).
  - intros bytes. exact (gathered_roundtrip p l collected bytes Hp Hl Hc).
Qed.

(* ------------------------------------------------------------------ schema (regenerated obligation) *)
(* the table the decoder is driven by, rendered as text rows, is the table parsed from
   proto/proto_model.proto on this run: syntax, package, nothing outside the supported subset,
   the ten messages, the enum with its values, and per field: message, name, number, type, label *)
Theorem c13_schema :
  (source_syntax, source_package, source_other, source_messages, source_enums, source_rows)
  = ("proto2"%string, "io.prometheus.client"%string, [], schema_messages, schema_enums, map schema_row pb_fields).
Proof. exact schema_matches_source. Qed.
(* and the decoder dispatches on exactly that table: a record number is accepted in a message
   iff the table has that row; fields are addressed by name through the table *)
Theorem c13_decoder_reads_table :
  (forall m n fd, find_field m n = Some fd -> In fd pb_fields /\ f_msg fd = m /\ f_num fd = n)
  /\ (forall fd, In fd pb_fields -> find_field (f_msg fd) (f_num fd) = Some fd)
  /\ (forall fd, In fd pb_fields -> fnum (f_msg fd) (f_name fd) = f_num fd).
Proof. exact (conj find_field_sound (conj find_field_complete fnum_table)). Qed.

(* ------------------------------------------------------------------ the executable spec holds of the model *)
(* the checker that is run on the implementation's bytes (Spec/SpecC13.v) accepts the model's
   answer for every writer contents and every list of well-formed families below the size limit *)
Theorem c13_spec_of_model buf fams :
  Forall wf_Family fams -> Forall (fun f => ~ too_large f) fams ->
  spec_c13 (mkCase13 buf None fams (encode_to buf fams)) = true.
Proof. exact (spec_of_model buf fams). Qed.
Theorem c13_spec_of_model_lib buf lib :
  Forall wf_family lib -> Forall (fun f => ~ too_large (pb_of_family f)) lib ->
  spec_c13 (mkCase13 buf (Some lib) (map pb_of_family lib) (encode_to buf (map pb_of_family lib))) = true.
Proof. exact (spec_of_model_lib buf lib). Qed.

(* ------------------------------------------------------------------ non-vacuity *)
(* the crate's own test vector (src/encoder/pb.rs): well-formed, accepted, and the model writes
   the golden bytes that the test took from the Go implementation *)
Example c13_golden :
  Forall wf_family [golden_family] /\ Forall accepted [pb_of_family golden_family]
  /\ encode_stream [pb_of_family golden_family] = Ok golden_bytes
  /\ decode_stream golden_bytes = Some [pb_of_family golden_family].
Proof. exact golden_ok. Qed.
(* the hypotheses of c13_gathered are satisfiable, with a prefix and common labels *)
Example c13_gathered_nonvacuous :
  wf_prefix (Some [112]) /\ wf_common (Some [([107], [233; 128512])]) /\ Forall wf_family [golden_family]
  /\ length (gather_families (Some [112]) (Some [([107], [233; 128512])]) [golden_family]) = 1%nat.
Proof. exact gathered_example_ok. Qed.
(* a refused family in the middle: error, nothing of it or after it is written *)
Example c13_refused_example :
  encode_to [255] [pb_of_family golden_family; mkPFamily None (Some [104]) (Some GAUGE) [mkPMetric [] None None None None None None];
                   pb_of_family golden_family]
  = PErr EMsg ([255] ++ golden_bytes).
Proof. exact refused_example_ok. Qed.

Check c13_roundtrip : forall fams bytes,
  Forall wf_Family fams -> encode_stream fams = Ok bytes -> decode_stream bytes = Some fams.
Check c13_nothing_else : forall fams bytes rest,
  Forall wf_Family fams -> encode_stream fams = Ok bytes -> decode_stream (bytes ++ rest) = Some fams -> rest = [].
Check c13_err_iff : forall fams,
  encode_stream fams = Err EMsg <-> exists pre f post, fams = pre ++ f :: post /\ Forall accepted pre /\ refused f.
Check c13_ok_iff : forall fams, (exists bytes, encode_stream fams = Ok bytes) <-> Forall accepted fams.
Check c13_lib_roundtrip : forall fams bytes,
  Forall wf_family fams -> encode_stream (map pb_of_family fams) = Ok bytes -> decode_stream bytes = Some (map pb_of_family fams).
Check c13_schema :
  (source_syntax, source_package, source_other, source_messages, source_enums, source_rows)
  = ("proto2"%string, "io.prometheus.client"%string, [], schema_messages, schema_enums, map schema_row pb_fields).
Print Assumptions c13_roundtrip.
Print Assumptions c13_stream_boundaries.
Print Assumptions c13_nothing_else.
Print Assumptions c13_written.
Print Assumptions c13_family_message.
Print Assumptions c13_refused_def.
Print Assumptions c13_err_iff.
Print Assumptions c13_ok_iff.
Print Assumptions c13_refused_is_error.
Print Assumptions c13_lib_roundtrip.
Print Assumptions c13_lib_faithful.
Print Assumptions c13_gathered.
Print Assumptions c13_schema.
Print Assumptions c13_decoder_reads_table.
Print Assumptions c13_spec_of_model.
Print Assumptions c13_spec_of_model_lib.
Print Assumptions c13_golden.
Print Assumptions c13_gathered_nonvacuous.
Print Assumptions c13_refused_example.
