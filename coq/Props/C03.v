(* C03  Histograms conserve observations across any sequence of collects and flushes.
   Only statements, closed by [exact] (or a few lines from lemmas of Proofs/Hist*.v), pinned by [Check], with their
   assumptions printed.  Same model as C02 (see the header of Props/C02.v): Model/HistConc.v (relational, any number
   of observer / flusher / collector threads, any interleaving), Model/HistExec.v (executable trace validator for the
   REAL histogram run under the sync shim; also covers get_sample_count and get_sample_sum), Proofs/HistLog.v
   (bookkeeping: per ticket the owning call and its values).

   MEMORY-MODEL CAVEAT: operational reordering model (one global memory; intra-call reordering constrained by the
   release of the publish and the acquire of the wait exit), not the axiomatic C++20 / Rust model; the relation
   between the two is assumed.  A relaxed get_sample_count that returns a stale value on hardware without
   multi-copy atomicity cannot be exhibited by the model.

   LIVENESS.  "Every collect call returns once the observations that were in flight when it started have
   completed; it never waits for anything else": proved is the safety core - in every reachable state the exit of
   the wait loop is enabled IFF every observation claimed before the flip has published ([c03_wait_exact]), and
   once enabled it stays enabled until taken ([c03_wait_exit_stable]); nothing else is waited for because the exit
   condition mentions nothing else.  That an enabled exit is eventually taken (the weak compare-exchange stops
   failing spuriously, the scheduler is fair) is runtime behaviour and is NOT claimed; the check runs every
   collection under a watchdog and reports a collector that does not return. *)
Require Import PV.Base.Prelude PV.Base.F64 PV.Model.Conc PV.Model.HistConc PV.Model.HistExec.
Require Import PV.Proofs.HistConcLemmas PV.Proofs.HistConcInv PV.Proofs.HistConcProof PV.Proofs.HistConcOwn.
Require Import PV.Proofs.HistExecSound PV.Proofs.HistExecInv PV.Proofs.HistConcThms.
Require Import PV.Proofs.HistValues PV.Proofs.HistLog PV.Proofs.HistReads PV.Proofs.HistWait PV.Proofs.HistMain PV.Proofs.HistC03.
Require Import PV.Spec.SpecC02 PV.Spec.SpecC03 PV.Proofs.HistSpec PV.Proofs.HistSpecC03.
Open Scope Z_scope.

(* ---------------------------------------------------------------- snapshots grow *)
(* two collections ordered in real time (the first returned before the second was invoked: l1 <= l0') return
   prefixes firstn k1, firstn k2 of the ticket list with k1 <= k2 *)
Theorem c03_snapshots_grow bounds es x c1 c2 :
  xrun bounds xinit es = Some x -> In c1 (cuts x) -> In c2 (cuts x) -> (cut_l1 c1 <= cut_l0 c2)%nat ->
  (cut_k c1 <= cut_k c2)%nat
  /\ firstn (cut_k c1) (recs (base x)) = firstn (cut_k c1) (firstn (cut_k c2) (recs (base x))).
Proof. exact (snapshots_grow bounds od_sc od_sc_ok es x c1 c2). Qed.

(* in terms of values: the later set extends the earlier one *)
Theorem c03_snapshots_grow_values bounds es o c1 c2 :
  orun bounds oinit es = Some o -> In c1 (cuts (ox o)) -> In c2 (cuts (ox o)) -> (cut_l1 c1 <= cut_l0 c2)%nat ->
  (cut_k c1 <= cut_k c2)%nat /\ exists more, prefix_values o (cut_k c2) = prefix_values o (cut_k c1) ++ more.
Proof. exact (snapshots_grow_values bounds es o c1 c2). Qed.

(* ---------------------------------------------------------------- a flushed batch: entirely or not at all *)
(* every accepted event adds no ticket or exactly one, and that one carries the complete value list of the
   claiming observe / flush call ([pend]: the values of the thread's latest invocation) *)
Theorem c03_one_ticket_per_claim bounds o e o' :
  ostep bounds o e = Some o' ->
  (vlog o' = vlog o /\ owners o' = owners o)
  \/ (exists vs, vlog o' = vlog o ++ [vs] /\ owners o' = owners o ++ [(ev_tid e, ncalls o' (ev_tid e))] /\ vs = pend o' (ev_tid e)).
Proof. exact (ostep_tickets bounds o e o'). Qed.

(* ticket i carries values vs: its record counts length vs observations, and the set described by the prefix of
   length k contains all of vs (i < k) or is built from tickets that do not include it (k <= i) *)
Theorem c03_batch_atomic bounds es o i vs k :
  orun bounds oinit es = Some o -> nth_error (vlog o) i = Some vs ->
  (exists r, nth_error (recs (base (ox o))) i = Some r /\ r_cnt r = Z.of_nat (length vs) /\ vs <> [])
  /\ ((i < k)%nat -> exists before after, prefix_values o k = before ++ vs ++ after)
  /\ ((k <= i)%nat -> prefix_values o k = concat (firstn k (firstn i (vlog o)))).
Proof. intros H. exact (batch_atomic bounds o i vs k (proj2 (orun_good bounds es o H))). Qed.

(* ---------------------------------------------------------------- quiescence *)
(* state level: when no observe / flush is in progress and no collector holds the lock, every record is published,
   the 63-bit total, the hot shard's count and every hot cell hold exactly the totals of ALL records, the cold
   shard is empty *)
Theorem c03_quiescent_exact (bounds : list Z) s :
  Inv (length bounds) s -> Own s -> (forall t i, thr s t <> OWork i) -> lock s = None ->
  (forall r, In r (recs s) -> r_pub r = true)
  /\ n s = sumf r_cnt (recs s)
  /\ cnt (sh s (hot s)) = sumf r_cnt (recs s)
  /\ (forall c, cells (sh s (hot s)) c = sumf (full c) (recs s))
  /\ cnt (sh s (negb (hot s))) = 0 /\ (forall c, cells (sh s (negb (hot s))) c = 0).
Proof. exact (quiescent_exact bounds s). Qed.

(* trace level: a collection during which no ticket was claimed describes exactly the tickets claimed before it;
   if none has been claimed since (the snapshot taken after all threads have finished), exactly all observations *)
Theorem c03_quiescent_snapshot_exact bounds es o c :
  orun bounds oinit es = Some o -> In c (cuts (ox o)) -> cut_l0 c = cut_l1 c ->
  prefix_values o (cut_k c) = prefix_values o (cut_l0 c)
  /\ (cut_l1 c = length (vlog o) -> prefix_values o (cut_k c) = concat (vlog o)).
Proof. exact (quiescent_collection_exact bounds es o c). Qed.

(* get_sample_count loads the number of observations claimed so far (all of them at quiescence) ... *)
Theorem c03_sample_count_exact bounds es x t cell k o o2 before after ok x' :
  xrun bounds xinit es = Some x -> ax x t = ASCount None -> hexec bounds x (EAt t cell k o o2 before after ok) = Some x' ->
  ax x' t = ASCount (Some (sumf r_cnt (recs (base x)))) /\ base x' = base x.
Proof.
  intros R. destruct (run_good bounds od_sc od_sc_ok es x R) as (I & _ & _).
  exact (sample_count_load_exact bounds x t cell k o o2 before after ok x' I).
Qed.
(* ... get_sample_sum loads, under the collect lock, the sum applied so far: when no observe / flush is in flight
   exactly the sum of all observations; the return markers carry the loaded values *)
Theorem c03_sample_sum_exact bounds es x t h cell k o o2 before after ok x' :
  xrun bounds xinit es = Some x -> ax x t = ASSum true (Some h) None false ->
  hexec bounds x (EAt t cell k o o2 before after ok) = Some x' ->
  exists v, ax x' t = ASSum true (Some h) (Some v) false /\ base x' = base x /\ before = zbits v
            /\ v = sumf (applied O) (recs (base x))
            /\ ((forall u i, thr (base x) u <> OWork i) -> v = sumf (full O) (recs (base x))).
Proof.
  intros R. destruct (run_good2 bounds od_sc od_sc_ok es xinit x (good2_init bounds) R) as ((I & _ & Ow) & S).
  exact (sample_sum_load_exact bounds x t h cell k o o2 before after ok x' I Ow S).
Qed.
Theorem c03_read_returns_loaded_value bounds x t b x' :
  hexec bounds x (ERet t (RVal b)) = Some x' ->
  (forall v, ax x t = ASCount (Some v) -> Z.of_N b = v)
  /\ (forall h v, ax x t = ASSum true (Some h) (Some v) true -> b = zbits v).
Proof.
  intros H. split; [intros v Ha; exact (sample_count_return bounds x t b x' v Ha H)|intros h v Ha; exact (sample_sum_return bounds x t b x' h v Ha H)].
Qed.

(* ---------------------------------------------------------------- the wait loop *)
(* in every state satisfying the invariant (every reachable state), the exit of the wait loop is enabled iff every
   observation claimed before the flip has published *)
Theorem c03_wait_exact B s t N :
  Inv B s -> thr s t = CIn (CWait N) ->
  (cnt (sh s (negb (hot s))) = N <-> forall r, In r (firstn (K s) (recs s)) -> r_pub r = true).
Proof. exact (wait_exact_B B s t N). Qed.

(* and once enabled it stays enabled until the collector takes it: nobody else writes the cold count *)
Theorem c03_wait_exit_stable B Od s s' t N :
  sufficient_orderings Od = true -> reach B Od s -> step B Od s s' ->
  thr s t = CIn (CWait N) -> thr s' t = CIn (CWait N) ->
  cnt (sh s (negb (hot s))) = N -> cnt (sh s' (negb (hot s'))) = N.
Proof.
  intros Hod R St. pose proof (reach_inv B Od Hod s R) as I. pose proof (step_inv B Od Hod s s' I St) as I'.
  exact (wait_exit_stable B Od s s' t N I I' St).
Qed.

(* ---------------------------------------------------------------- third and later collections *)
(* the invariant (cold / hot shard contents as sums over the ticket partition, residue of earlier collections
   included) holds after ANY number of flips, and every snapshot returned so far is a ticket-prefix summary *)
Theorem c03_inv_after_any_flips B Od n s :
  sufficient_orderings Od = true -> reach_flips B Od n s ->
  Inv B s /\ forall k res, In (k, res) (snaps s) -> res = summary B (firstn k (recs s)).
Proof. exact (inv_after_any_flips B Od n s). Qed.

(* non-vacuity at the model level: a path with three flips whose second and third snapshots carry the residue *)
Example c03_third_collect :
  exists s, reach_flips 0 od_sc 3 s /\ map snd (snaps s) = [(2, 12, []); (2, 12, []); (1, 5, [])].
Proof. exact three_flips_reachable. Qed.


(* ---------------------------------------------------------------- the validator implies the spec written from the text *)
(* For ALL traces: a trace accepted by the executable model (the [chk] of tools/p_C03.py), inside the spec's domain
   ([in_domain]: values +-2^k, pairwise distinct exponents k < 53, bounds non-decreasing) and all of whose calls have
   returned, satisfies Spec/SpecC03.spec_c03 (the [chk_spec] of tools/p_C03.py) = spec_hist (snapshots describe one set,
   grow, batches atomic, per-thread closure, the quiescent snapshot describes exactly everything) && the typed quiescent
   reads (get_sample_count = number of observations, get_sample_sum = their sum) && "every call returned".
   The validator accepts every prefix of an execution, so "no call is pending at the end of the trace" cannot follow from
   validation: it is the executable side condition [all_returned] (the spec's own pending list is empty); that calls
   terminate is runtime behaviour (see LIVENESS above). *)
Theorem c03_spec_of_validated bounds es x :
  xrun bounds xinit es = Some x -> in_domain bounds es = true -> all_returned es = true -> spec_c03 bounds es = true.
Proof. exact (spec_c03_of_validated bounds es x). Qed.

(* ---------------------------------------------------------------- non-vacuity: a trace of the real histogram *)
(* bound [4]; thread 0 flushes the batch [1; 2; 8] then observes 16; threads 1 and 2 collect (2 + 1 collections), thread 2
   then calls get_sample_count and get_sample_sum.  Thread 1 flips while the batch is between claim and publish and
   spins; thread 2 is blocked on the collect lock meanwhile; observe(16) is claimed after the first flip. *)
Definition c03_ex_bounds : list Z := [4].
Definition c03_ex_trace : list event := ([
   ECall 0 (CBatch [4607182418800017408;4611686018427387904;4620693217682128896]); EAt 0 1 KFetchAdd Acquire None 0 3 true; 
   EAt 0 2 KFetchAdd Relaxed None 0 2 true; ECall 1 CCollect; ELock 1 0 LMutex true; EAt 1 1 KFetchAdd AcqRel None 3 9223372036854775811 true; 
   EAt 1 4 KCasWeak Acquire (Some Acquire) 0 0 false; ECall 2 CCollect; ELock 2 0 LMutex false; EAt 0 3 KLoad Acquire None 0 0 true; 
   EAt 0 3 KCasWeak Release (Some Relaxed) 0 4622382067542392832 true; EAt 1 4 KCasWeak Acquire (Some Acquire) 0 0 false; 
   EAt 1 4 KCasWeak Acquire (Some Acquire) 0 0 false; EAt 0 4 KFetchAdd Release None 0 3 true; ERet 0 RUnit; ECall 0 (CObs 4625196817309499392); 
   EAt 1 4 KCasWeak Acquire (Some Acquire) 3 0 true; EAt 1 3 KSwap AcqRel None 4622382067542392832 0 true; EAt 1 2 KSwap AcqRel None 2 0 true; 
   EAt 1 5 KFetchAdd Relaxed None 0 2 true; EAt 1 7 KFetchAdd Relaxed None 0 3 true; EAt 1 6 KLoad Acquire None 0 0 true; 
   EAt 1 6 KCasWeak Release (Some Relaxed) 0 4622382067542392832 true; EUnlock 1 0 LMutex; ERet 1 (RSnap 3 4622382067542392832 [2]); 
   EAt 0 1 KFetchAdd Acquire None 9223372036854775811 9223372036854775812 true; EAt 0 6 KLoad Acquire None 4622382067542392832 4622382067542392832 true; 
   ECall 1 CCollect; ELock 1 0 LMutex true; EAt 0 6 KCasWeak Release (Some Relaxed) 4622382067542392832 4628293042053316608 true; 
   EAt 0 7 KFetchAdd Release None 3 4 true; ERet 0 RUnit; EAt 1 1 KFetchAdd AcqRel None 9223372036854775812 4 true; ELock 2 0 LMutex false; 
   EAt 1 7 KCasWeak Acquire (Some Acquire) 4 0 true; EAt 1 6 KSwap AcqRel None 4628293042053316608 0 true; EAt 1 5 KSwap AcqRel None 2 0 true; 
   EAt 1 2 KFetchAdd Relaxed None 0 2 true; EAt 1 4 KFetchAdd Relaxed None 0 4 true; EAt 1 3 KLoad Acquire None 0 0 true; 
   EAt 1 3 KCasWeak Release (Some Relaxed) 0 4628293042053316608 true; EUnlock 1 0 LMutex; ERet 1 (RSnap 4 4628293042053316608 [2]); 
   ELock 2 0 LMutex true; EAt 2 1 KFetchAdd AcqRel None 4 9223372036854775812 true; EAt 2 4 KCasWeak Acquire (Some Acquire) 4 0 true; 
   EAt 2 3 KSwap AcqRel None 4628293042053316608 0 true; EAt 2 2 KSwap AcqRel None 2 0 true; EAt 2 5 KFetchAdd Relaxed None 0 2 true; 
   EAt 2 7 KFetchAdd Relaxed None 0 4 true; EAt 2 6 KLoad Acquire None 0 0 true; EAt 2 6 KCasWeak Release (Some Relaxed) 0 4628293042053316608 true; 
   EUnlock 2 0 LMutex; ERet 2 (RSnap 4 4628293042053316608 [2]); ECall 2 CSCount; EAt 2 1 KLoad Relaxed None 9223372036854775812 9223372036854775812 true; 
   ERet 2 (RVal 4); ECall 2 CSSum; ELock 2 0 LMutex true; EAt 2 1 KLoad Relaxed None 9223372036854775812 9223372036854775812 true; 
   EAt 2 6 KLoad Relaxed None 4628293042053316608 4628293042053316608 true; EUnlock 2 0 LMutex; ERet 2 (RVal 4628293042053316608)])%N.
Example c03_ex_accepted :
  match orun c03_ex_bounds oinit c03_ex_trace with
  | Some o => Some (map (fun c => (cut_l0 c, cut_k c, cut_l1 c, cut_res c)) (cuts (ox o)), reads (ox o), owners o, vlog o)
  | None => None
  end = Some ([(1%nat, 2%nat, 2%nat, (4, 27, [2])); (2%nat, 2%nat, 2%nat, (4, 27, [2])); (1%nat, 1%nat, 1%nat, (3, 11, [2]))],
              [(2%nat, 27, true); (2%nat, 4, false)], [(0, 1); (0, 2)]%nat, [[1; 2; 8]; [16]]).
Proof. vm_compute. reflexivity. Qed.

Example c03_ex_in_domain :
  in_domain c03_ex_bounds c03_ex_trace = true /\ all_returned c03_ex_trace = true /\ spec_c03 c03_ex_bounds c03_ex_trace = true.
Proof. vm_compute. auto. Qed.

Check c03_spec_of_validated : forall bounds es x,
  xrun bounds xinit es = Some x -> in_domain bounds es = true -> all_returned es = true -> spec_c03 bounds es = true.
Check c03_snapshots_grow : forall bounds es x c1 c2,
  xrun bounds xinit es = Some x -> In c1 (cuts x) -> In c2 (cuts x) -> (cut_l1 c1 <= cut_l0 c2)%nat ->
  (cut_k c1 <= cut_k c2)%nat /\ firstn (cut_k c1) (recs (base x)) = firstn (cut_k c1) (firstn (cut_k c2) (recs (base x))).
Check c03_batch_atomic : forall bounds es o i vs k,
  orun bounds oinit es = Some o -> nth_error (vlog o) i = Some vs ->
  (exists r, nth_error (recs (base (ox o))) i = Some r /\ r_cnt r = Z.of_nat (length vs) /\ vs <> [])
  /\ ((i < k)%nat -> exists before after, prefix_values o k = before ++ vs ++ after)
  /\ ((k <= i)%nat -> prefix_values o k = concat (firstn k (firstn i (vlog o)))).
Check c03_quiescent_snapshot_exact : forall bounds es o c,
  orun bounds oinit es = Some o -> In c (cuts (ox o)) -> cut_l0 c = cut_l1 c ->
  prefix_values o (cut_k c) = prefix_values o (cut_l0 c) /\ (cut_l1 c = length (vlog o) -> prefix_values o (cut_k c) = concat (vlog o)).
Check c03_wait_exact : forall B s t N, Inv B s -> thr s t = CIn (CWait N) ->
  (cnt (sh s (negb (hot s))) = N <-> forall r, In r (firstn (K s) (recs s)) -> r_pub r = true).
Check c03_wait_exit_stable : forall B Od s s' t N, sufficient_orderings Od = true -> reach B Od s -> step B Od s s' ->
  thr s t = CIn (CWait N) -> thr s' t = CIn (CWait N) -> cnt (sh s (negb (hot s))) = N -> cnt (sh s' (negb (hot s'))) = N.
Check c03_inv_after_any_flips : forall B Od n s, sufficient_orderings Od = true -> reach_flips B Od n s ->
  Inv B s /\ forall k res, In (k, res) (snaps s) -> res = summary B (firstn k (recs s)).

Print Assumptions c03_snapshots_grow.
Print Assumptions c03_snapshots_grow_values.
Print Assumptions c03_one_ticket_per_claim.
Print Assumptions c03_batch_atomic.
Print Assumptions c03_quiescent_exact.
Print Assumptions c03_quiescent_snapshot_exact.
Print Assumptions c03_sample_count_exact.
Print Assumptions c03_sample_sum_exact.
Print Assumptions c03_read_returns_loaded_value.
Print Assumptions c03_wait_exact.
Print Assumptions c03_wait_exit_stable.
Print Assumptions c03_inv_after_any_flips.
Print Assumptions c03_third_collect.
Print Assumptions c03_spec_of_validated.
Print Assumptions c03_ex_in_domain.
Print Assumptions c03_ex_accepted.
