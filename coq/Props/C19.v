(* C19  static-metric accessors address exactly the declared label values.
   Only statements, closed by [exact] (or a few lines from lemmas), pinned by [Check], with
   their assumptions printed.  Model: Model/Static.v; lemmas: Proofs/C19Facts.v. *)
Require Import PV.Base.Prelude PV.Model.Proto PV.Model.Desc PV.Model.Value PV.Model.Vec PV.Model.Static.
Require Import PV.Spec.SpecC19 PV.Proofs.C05Facts PV.Proofs.C19Facts PV.Proofs.C19Spec.
From Coq Require Import Permutation.
Open Scope N_scope.

(* Every complete accessor path - fields, get(enum) and try_get(str) in any mixture - that names
   the declared values vs reaches the metric obtained by `vec.with(&map)` where map is exactly
   {label key i -> declared string of step i}.  For every backing vector whose label names are
   ANY permutation of the keys (desc), Model/Vec.v's hash_labels resolves that map to the child
   keyed like the positional tuple (C05), whose value for label i is the declared string of
   step i and whose (name, value) pairs are the declared ones. *)
Theorem c19_path d ls p vs desc :
  wf_decl d ls -> denote true ls p = Some vs -> Permutation (d_vars desc) (keys_of ls) ->
  exists sl h,
    walk (static_tree true ls) p = Some (TLeaf sl)
    /\ sl_map sl = declared_map ls vs
    /\ hash_labels desc (sl_map sl) = Ok (h, child_of (d_vars desc) ls vs)
    /\ hash_label_values desc (child_of (d_vars desc) ls vs) = Ok h
    /\ (forall i l v, nth_error ls i = Some l -> nth_error vs i = Some v ->
          value_of (sl_map sl) (rl_key l) = v_str v)
    /\ Permutation (combine (d_vars desc) (child_of (d_vars desc) ls vs)) (declared_map ls vs).
Proof. exact (static_path d ls p vs desc). Qed.

(* the three pure spellings of a tuple of declared values are such paths: the field path always,
   the get path when every label is a label_enum, the try_get path when the strings of each
   label are distinct (otherwise try_get picks the first value with that string, see
   c19_try_get) *)
Theorem c19_field_path tg ls vs : Forall rl_ok ls -> Forall2 (fun l v => In v (rl_vals l)) ls vs ->
  denote tg ls (map (fun v => SField (v_id v)) vs) = Some vs.
Proof. exact (denote_fields tg ls vs). Qed.
Theorem c19_get_path tg ls vs : Forall rl_ok ls -> Forall2 (fun l v => In v (rl_vals l)) ls vs ->
  Forall (fun l => rl_pats l <> None) ls -> denote tg ls (map (fun v => SGet (v_id v)) vs) = Some vs.
Proof. exact (denote_gets tg ls vs). Qed.
Theorem c19_try_get_path ls vs : Forall2 (fun l v => In v (rl_vals l)) ls vs ->
  Forall (fun l => NoDup (map v_str (rl_vals l))) ls -> denote true ls (map (fun v => STry (v_str v)) vs) = Some vs.
Proof. exact (denote_trys ls vs). Qed.
(* two spellings of the same values are the same object *)
Theorem c19_any_spelling ls p q vs : Forall rl_ok ls ->
  denote true ls p = Some vs -> denote true ls q = Some vs ->
  walk (static_tree true ls) p = walk (static_tree true ls) q.
Proof. exact (static_path_any_spelling ls p q vs). Qed.
(* and conversely a path that reaches a metric names declared values, one per label *)
Theorem c19_only_declared ls p sl : Forall rl_ok ls -> walk (static_tree true ls) p = Some (TLeaf sl) ->
  exists vs, denote true ls p = Some vs /\ Forall2 (fun l v => In v (rl_vals l)) ls vs
             /\ sl = static_leaf (keys_of ls) vs.
Proof.
  intros W H. unfold static_tree in H. apply walk_gen_leaf_inv in H as (vs & D & E); auto.
  exists vs. rewrite elems_id in E. split; auto. split; auto. apply denote_spec in D. tauto.
Qed.

(* The struct reached by any partial path (static form tg = true, delegators tg = false) belongs
   to the next label l: each declared value has its field; try_get(s) is None exactly for
   strings not declared at l, and for a declared string it is the field of the (first) value
   declared with it; get(variant) is the field of that variant, and exists only for
   label_enum labels and their variants. *)
Theorem c19_try_get_none {A L} (elem : nat -> vdef -> A) (leaf : list A -> L) tg ls p vs0 l rest :
  Forall rl_ok ls -> path_values tg ls p = Some vs0 -> skipn (length vs0) ls = l :: rest ->
  exists node, walk (gen elem leaf tg O [] ls) p = Some node
    /\ (forall v, In v (rl_vals l) -> exists sub, acc_field (v_id v) node = Some sub
                                            /\ walk (gen elem leaf tg O [] ls) (p ++ [SField (v_id v)]) = Some sub)
    /\ (forall s, tg = true -> (acc_try s node = None <-> ~ In s (map v_str (rl_vals l))))
    /\ (forall v, tg = true -> NoDup (map v_str (rl_vals l)) -> In v (rl_vals l) ->
                  acc_try (v_str v) node = acc_field (v_id v) node)
    /\ (forall s, tg = true -> In s (map v_str (rl_vals l)) ->
                  exists v, In v (rl_vals l) /\ v_str v = s /\ acc_try s node = acc_field (v_id v) node)
    /\ (forall v, rl_pats l <> None -> In v (rl_vals l) -> acc_get (v_id v) node = acc_field (v_id v) node)
    /\ (forall x, rl_pats l = None \/ ~ In x (ids_of l) -> acc_get x node = None).
Proof. exact (node_accessors elem leaf tg ls p vs0 l rest). Qed.

Theorem c19_get_enum {A L} (elem : nat -> vdef -> A) (leaf : list A -> L) tg l rest lvl prev v :
  rl_ok l -> rl_pats l <> None -> In v (rl_vals l) ->
  acc_get (v_id v) (gen elem leaf tg lvl prev (l :: rest)) = acc_field (v_id v) (gen elem leaf tg lvl prev (l :: rest))
  /\ acc_field (v_id v) (gen elem leaf tg lvl prev (l :: rest)) = Some (gen elem leaf tg (S lvl) (prev ++ [elem lvl v]) rest).
Proof.
  intros OK E H. split; [apply get_enum; auto|apply field_declared; auto].
Qed.

(* Auto-flush form: for ANY layout that puts distinct fields of one inner struct at distinct
   offsets, the delegator reached by a path holds the offsets of the fields along the path, and
   get_local, following them from the thread-local root, arrives at the local metric that the
   plain field path reaches in the inner struct - the one built from the declared values. *)
Theorem c19_offsets ls off p vs :
  wf_labels ls -> layout_inj ls off -> denote false ls p = Some vs ->
  walk (deleg_tree off ls) p = Some (TLeaf (offsets off O vs))
  /\ get_local off O (inner_tree ls) (offsets off O vs) = Some (TLeaf (static_leaf (keys_of ls) vs))
  /\ walk (inner_tree ls) (map (fun v => SField (v_id v)) vs) = Some (TLeaf (static_leaf (keys_of ls) vs)).
Proof. exact (offsets_follow_paths ls off p vs). Qed.
Theorem c19_default_layout ls : layout_inj ls (default_layout ls).
Proof. exact (default_layout_inj ls). Qed.

(* in both forms an accessor path denotes the metric of the values it names, and nothing else *)
Theorem c19_locate d ls names auto off p :
  wf_decl d ls -> layout_inj ls off ->
  locate (setup_with d ls names auto off) p
  = option_map (static_leaf (keys_of ls)) (denote (has_try (dc_form d)) ls p).
Proof. intros W I. exact (locate_eq d ls names auto off W I p). Qed.

(* Flush.  Local and auto-flush forms, any history of updates and flushes (of the whole struct,
   of sub-structs, automatic after each update): after a final flush of the struct every child
   c of the backing vector holds exactly the sum of the amounts of the calls whose path names
   c's label values ([delivered] is read off the declaration, not off the trees) - in particular
   children named by no call hold 0.  Non-local forms: the same without any flush. *)
Theorem c19_flush_delivers d ls names auto off c ops st' :
  wf_decl d ls -> Permutation names (keys_of ls) -> layout_inj ls off ->
  is_local_metric (dc_type d) = true ->
  run_ops (setup_with d ls names auto off) (mkRT (init_store (all_leaves names ls)) []) (ops ++ [OFlush []]) = Some st' ->
  kv_get c (rt_store st') = delivered (has_try (dc_form d)) ls names c ops.
Proof. intros W P I. exact (flush_delivers d ls names auto off W P I c ops st'). Qed.
Theorem c19_direct_delivers d ls names auto off c ops st' :
  wf_decl d ls -> Permutation names (keys_of ls) -> layout_inj ls off ->
  is_local_metric (dc_type d) = false ->
  run_ops (setup_with d ls names auto off) (mkRT (init_store (all_leaves names ls)) []) ops = Some st' ->
  kv_get c (rt_store st') = delivered (has_try (dc_form d)) ls names c ops.
Proof. intros W P I. exact (direct_delivers d ls names auto off W P I c ops st'). Qed.
(* at any moment: delivered so far + still buffered in the local metrics = addressed so far *)
Theorem c19_conservation d ls names auto off c ops st st' :
  wf_decl d ls -> Permutation names (keys_of ls) -> layout_inj ls off ->
  run_ops (setup_with d ls names auto off) st ops = Some st' ->
  phi c (all_leaves names ls) st' = phi c (all_leaves names ls) st + delivered (has_try (dc_form d)) ls names c ops.
Proof. intros W P I. exact (run_phi d ls names auto off W P I c ops st st'). Qed.
(* valid calls never get stuck, and building the struct creates every declared child *)
Theorem c19_run_total d ls names auto off ops st :
  wf_decl d ls -> Permutation names (keys_of ls) -> layout_inj ls off -> Forall (op_valid d ls) ops ->
  exists st', run_ops (setup_with d ls names auto off) st ops = Some st'.
Proof. intros W P I V. exact (run_total d ls names auto off W P I ops V st). Qed.
Theorem c19_from_creates d ls names auto off :
  wf_decl d ls -> Permutation names (keys_of ls) -> layout_inj ls off ->
  resolve_leaves names (tree_leaves (su_tree (setup_with d ls names auto off))) = Some (all_leaves names ls).
Proof. intros W P I. exact (leaves_all d ls names auto off W P). Qed.
(* the function that is evaluated against every compiled round (model_c19) is covered: whenever
   it yields children, they are the store of a run for which the delivery statement holds *)
Theorem c19_model_run c ls ops children answers :
  resolve (c_decl c) = Some ls -> Permutation (c_names c) (keys_of ls) ->
  c_ops c = (if is_local_metric (dc_type (c_decl c)) then ops ++ [OFlush []] else ops) ->
  model_c19 c = Some (children, answers) ->
  exists st, children = map (fun kvp => (combine (c_names c) (fst kvp), snd kvp)) (rt_store st)
    /\ forall ch, kv_get ch (rt_store st) = delivered (has_try (dc_form (c_decl c))) ls (c_names c) ch ops.
Proof. exact (model_c19_delivers c ls ops children answers). Qed.
(* the boolean well-formedness test run on every generated declaration is sound *)
Theorem c19_wf_sound d : wf_declb d = true -> exists ls, wf_decl d ls.
Proof. exact (wf_declb_sound d). Qed.

(* The executable spec (Spec/SpecC19.v, written from the property text and used as the oracle on
   the implementation's output) accepts the model's own output on every round of the domain:
   well-formed declaration; vector label names a permutation of the keys, flush calls only where
   the generated code has them, try_get probes on sub-structs of a static struct (round_allowedb);
   update paths naming declared values with distinct powers of two, and a final flush for the
   local / auto-flush forms (sp_applicable).  All forms: static non-local, static local,
   auto-flush.  [model_obs] is the model's output in the shape of an implementation report
   (sums, and for histograms the counts of the run with every amount replaced by 1); the
   correspondence check accepts exactly it (c19_model_obs_matches). *)
Theorem c19_spec_model c :
  wf_declb (c_decl c) = true -> round_allowedb c = true -> sp_applicable c = true ->
  spec_c19 c (model_obs c) = true.
Proof. exact (spec_accepts_model c). Qed.
Theorem c19_model_obs_matches c :
  wf_declb (c_decl c) = true -> round_allowedb c = true -> sp_applicable c = true ->
  c19_match c (model_obs c) = true.
Proof. exact (model_obs_matches c). Qed.
(* the spec reads a path exactly as the model does *)
Theorem c19_spec_path d ls p : resolve d = Some ls ->
  sp_path d (dc_labels d) p = option_map (declared_map ls) (denote (has_try (dc_form d)) ls p).
Proof. exact (sp_path_denote d ls p). Qed.

(* two rounds produced by tools/p_C19.py (seed 1, quick): an auto-flush declaration with an enum
   whose two variants carry the same string, and a static local declaration with sub-struct and
   metric flushes, try_get paths and probes; both lie in the domain of c19_spec_model *)
Definition gen_round_auto : c19case :=
  (mkCase (mkDecl FAuto [mkE [69;50;95;48] [(mkV [65;98;99] [65;98;99]);(mkV [114;50;100;50] [65;98;99])]] TLocalIntCounter [mkL [65;49] (LInline [(mkV [97] [97])]);mkL [118;101;114;115;105;111;110] (LInline [(mkV [103;101;116] [103;101;116])]);mkL [95;117] (LEnum [69;50;95;48])]) [[95;117];[118;101;114;115;105;111;110];[65;49]] true [OUpd [SField [97];SField [103;101;116];SField [65;98;99]] 1;OUpd [SField [97];SField [103;101;116];SGet [65;98;99]] 2;OUpd [SField [97];SField [103;101;116];SField [114;50;100;50]] 4;OUpd [SField [97];SField [103;101;116];SGet [114;50;100;50]] 8;OFlush []] []).
Definition gen_round_static : c19case :=
  (mkCase (mkDecl FStatic [mkE [69;53;95;48] [(mkV [118;50] [65;98;99])];mkE [69;53;95;49] [(mkV [99;111;108;108;101;99;116] [72;84;84;80;47;50]);(mkV [98;97;122] [48]);(mkV [119;105;116;104] [98;97;122]);(mkV [108;111;99;97;108] [98;97;99;107;92;115;108;97;115;104])];mkE [69;53;95;50] [(mkV [112;117;116] [112;117;116]);(mkV [98;97;114] [98;97;114]);(mkV [114;50;100;50] [114;50;100;50]);(mkV [102;111;111] [102;111;111])]] TLocalIntCounter [mkL [95;117] (LInline [(mkV [103;101;116] [252])]);mkL [109;101;116;104;111;100] (LInline [(mkV [83;111;109;101;57] [83;111;109;101;57]);(mkV [112;117;116] [102;111;111]);(mkV [102;108;117;115;104] [95;117])]);mkL [115;116;97;116;117;115] (LInline [(mkV [118;49] [95;117]);(mkV [95;117] [95;117]);(mkV [108;111;99;97;108] [108;111;99;97;108])])]) [[109;101;116;104;111;100];[115;116;97;116;117;115];[95;117]] false [OUpd [SField [103;101;116];SField [83;111;109;101;57];SField [118;49]] 1;OUpd [STry [252];STry [83;111;109;101;57];STry [95;117]] 2;OUpd [SField [103;101;116];STry [83;111;109;101;57];STry [95;117]] 4;OUpd [SField [103;101;116];SField [83;111;109;101;57];SField [95;117]] 8;OUpd [SField [103;101;116];SField [83;111;109;101;57];SField [108;111;99;97;108]] 16;OUpd [STry [252];STry [83;111;109;101;57];STry [108;111;99;97;108]] 32;OUpd [SField [103;101;116];STry [83;111;109;101;57];STry [108;111;99;97;108]] 64;OFlush [SField [103;101;116]];OUpd [SField [103;101;116];SField [112;117;116];SField [118;49]] 128;OUpd [STry [252];STry [102;111;111];STry [95;117]] 256;OUpd [STry [252];STry [102;111;111];SField [118;49]] 512;OFlush [STry [252];STry [102;111;111]];OUpd [SField [103;101;116];SField [112;117;116];SField [95;117]] 1024;OFlush [SField [103;101;116];SField [112;117;116];SField [95;117]];OUpd [STry [252];SField [112;117;116];STry [95;117]] 2048;OUpd [SField [103;101;116];SField [112;117;116];SField [108;111;99;97;108]] 4096;OUpd [STry [252];STry [102;111;111];STry [108;111;99;97;108]] 8192;OUpd [SField [103;101;116];SField [112;117;116];STry [108;111;99;97;108]] 16384;OUpd [SField [103;101;116];SField [102;108;117;115;104];SField [118;49]] 32768;OUpd [STry [252];STry [95;117];STry [95;117]] 65536;OUpd [SField [103;101;116];STry [95;117];SField [118;49]] 131072;OUpd [SField [103;101;116];SField [102;108;117;115;104];SField [95;117]] 262144;OUpd [SField [103;101;116];SField [102;108;117;115;104];SField [108;111;99;97;108]] 524288;OUpd [STry [252];STry [95;117];STry [108;111;99;97;108]] 1048576;OUpd [STry [252];SField [102;108;117;115;104];SField [108;111;99;97;108]] 2097152;OFlush []] [([],[110;101;119;10;108;105;110;101]);([SField [103;101;116]],[112;117;116]);([SField [103;101;116]],[120;34;121]);([],[252])]).
Definition in_domain (c : c19case) : bool := wf_declb (c_decl c) && round_allowedb c && sp_applicable c.
Example c19_example_generated :
  in_domain gen_round_auto = true /\ in_domain gen_round_static = true
  /\ spec_c19 gen_round_auto (model_obs gen_round_auto) = true
  /\ spec_c19 gen_round_static (model_obs gen_round_static) = true
  /\ model_obs gen_round_static <> None.
Proof.
  assert (A : in_domain gen_round_auto = true) by (vm_compute; reflexivity).
  assert (B : in_domain gen_round_static = true) by (vm_compute; reflexivity).
  split; [exact A|]. split; [exact B|].
  unfold in_domain in A, B. apply andb_prop in A as [A A3]. apply andb_prop in A as [A1 A2].
  apply andb_prop in B as [B B3]. apply andb_prop in B as [B1 B2].
  split; [apply c19_spec_model; assumption|]. split; [apply c19_spec_model; assumption|].
  vm_compute. discriminate.
Qed.

(* ---- non-vacuity: a 3-label declaration (label_enum with a renamed value used twice, inline
   values with a renamed value whose string is another value's identifier) ---- *)
Definition ex_enum : edef := mkE [69] [vshort [97]; mkV [98] [98;101;101]].          (* E { a, b: "bee" } *)
Definition ex_labels : list ldef :=
  [mkL [107;48] (LEnum [69]);                                                       (* "k0" => E *)
   mkL [107;49] (LInline [vshort [102]; mkV [103] [102;32;120]]);                   (* "k1" => { f, g: "f x" } *)
   mkL [107;50] (LEnum [69])].                                                      (* "k2" => E *)
Definition ex_static : decl := mkDecl FStatic [ex_enum] TLocalIntCounter ex_labels.
Definition ex_auto : decl := mkDecl FAuto [ex_enum] TLocalHistogram ex_labels.
Definition ex_ops : list sop :=
  [OUpd [SField [97]; SField [103]; SField [98]] 1;
   OUpd [SGet [97]; STry [102;32;120]; SGet [98]] 2;
   OFlush [SField [97]];
   OUpd [STry [98;101;101]; SField [102]; STry [97]] 4;
   OFlush []].
Example c19_example_wf : wf_declb ex_static = true /\ wf_declb ex_auto = true.
Proof. vm_compute. split; reflexivity. Qed.
(* vector label order k2, k0, k1: the child (k0=a, k1="f x", k2=bee) got 1 + 2, the child
   (k0=bee, k1=f, k2=a) got 4, the other six exist with 0; "b" and "g" are not try_get strings *)
Example c19_example_static :
  model_c19 (mkCase ex_static [[107;50]; [107;48]; [107;49]] false ex_ops
                    [([], [98]); ([SField [97]], [103]); ([SField [97]], [102;32;120])])
  = Some ([([([107;50], [97]); ([107;48], [97]); ([107;49], [102])], 0);
           ([([107;50], [98;101;101]); ([107;48], [97]); ([107;49], [102])], 0);
           ([([107;50], [97]); ([107;48], [97]); ([107;49], [102;32;120])], 0);
           ([([107;50], [98;101;101]); ([107;48], [97]); ([107;49], [102;32;120])], 3);
           ([([107;50], [97]); ([107;48], [98;101;101]); ([107;49], [102])], 4);
           ([([107;50], [98;101;101]); ([107;48], [98;101;101]); ([107;49], [102])], 0);
           ([([107;50], [97]); ([107;48], [98;101;101]); ([107;49], [102;32;120])], 0);
           ([([107;50], [98;101;101]); ([107;48], [98;101;101]); ([107;49], [102;32;120])], 0)],
          [true; true; false]).
Proof. vm_compute. reflexivity. Qed.
(* the auto-flush form (no try_get), with may_flush firing after every update *)
Example c19_example_auto :
  match model_c19 (mkCase ex_auto [[107;49]; [107;50]; [107;48]] true
                          [OUpd [SField [97]; SField [103]; SGet [98]] 8; OUpd [SGet [98]; SField [102]; SField [97]] 16; OFlush []] []) with
  | Some (children, _) =>
      child_value children [([107;48], [97]); ([107;49], [102;32;120]); ([107;50], [98;101;101])] = Some 8
      /\ child_value children [([107;48], [98;101;101]); ([107;49], [102]); ([107;50], [97])] = Some 16
      /\ length children = 8%nat
  | None => False
  end.
Proof. vm_compute. repeat split; reflexivity. Qed.
(* the hypotheses of the main theorems are satisfiable: the example is well formed, its label
   keys in another order are a permutation, the default layout is injective, the calls are valid *)
Example c19_example_hyps : exists ls,
  wf_decl ex_static ls /\ Permutation [[107;50]; [107;48]; [107;49]] (keys_of ls)
  /\ layout_inj ls (default_layout ls) /\ Forall (op_valid ex_static ls) ex_ops
  /\ denote true ls [SGet [97]; STry [102;32;120]; SGet [98]] = Some [vshort [97]; mkV [103] [102;32;120]; mkV [98] [98;101;101]].
Proof.
  destruct (wf_declb_sound ex_static) as [ls W]; [vm_compute; reflexivity|].
  exists ls. split; [exact W|]. destruct W as (R & _). vm_compute in R. inversion R; subst ls. clear R.
  split; [|split; [apply default_layout_inj|split]].
  - cbn. eapply perm_trans; [apply perm_swap|]. apply perm_skip. apply perm_swap.
  - repeat constructor; cbn; try discriminate; auto.
  - vm_compute. reflexivity.
Qed.

Check c19_path : forall d ls p vs desc,
  wf_decl d ls -> denote true ls p = Some vs -> Permutation (d_vars desc) (keys_of ls) ->
  exists sl h,
    walk (static_tree true ls) p = Some (TLeaf sl)
    /\ sl_map sl = declared_map ls vs
    /\ hash_labels desc (sl_map sl) = Ok (h, child_of (d_vars desc) ls vs)
    /\ hash_label_values desc (child_of (d_vars desc) ls vs) = Ok h
    /\ (forall i l v, nth_error ls i = Some l -> nth_error vs i = Some v ->
          value_of (sl_map sl) (rl_key l) = v_str v)
    /\ Permutation (combine (d_vars desc) (child_of (d_vars desc) ls vs)) (declared_map ls vs).
Check c19_offsets : forall ls off p vs,
  wf_labels ls -> layout_inj ls off -> denote false ls p = Some vs ->
  walk (deleg_tree off ls) p = Some (TLeaf (offsets off O vs))
  /\ get_local off O (inner_tree ls) (offsets off O vs) = Some (TLeaf (static_leaf (keys_of ls) vs))
  /\ walk (inner_tree ls) (map (fun v => SField (v_id v)) vs) = Some (TLeaf (static_leaf (keys_of ls) vs)).
Check c19_flush_delivers : forall d ls names auto off c ops st',
  wf_decl d ls -> Permutation names (keys_of ls) -> layout_inj ls off ->
  is_local_metric (dc_type d) = true ->
  run_ops (setup_with d ls names auto off) (mkRT (init_store (all_leaves names ls)) []) (ops ++ [OFlush []]) = Some st' ->
  kv_get c (rt_store st') = delivered (has_try (dc_form d)) ls names c ops.
Check c19_locate : forall d ls names auto off p,
  wf_decl d ls -> layout_inj ls off ->
  locate (setup_with d ls names auto off) p
  = option_map (static_leaf (keys_of ls)) (denote (has_try (dc_form d)) ls p).
Check c19_spec_model : forall c,
  wf_declb (c_decl c) = true -> round_allowedb c = true -> sp_applicable c = true ->
  spec_c19 c (model_obs c) = true.
Check c19_model_obs_matches : forall c,
  wf_declb (c_decl c) = true -> round_allowedb c = true -> sp_applicable c = true ->
  c19_match c (model_obs c) = true.
Print Assumptions c19_spec_model.
Print Assumptions c19_model_obs_matches.
Print Assumptions c19_spec_path.
Print Assumptions c19_example_generated.
Print Assumptions c19_path.
Print Assumptions c19_field_path.
Print Assumptions c19_get_path.
Print Assumptions c19_try_get_path.
Print Assumptions c19_any_spelling.
Print Assumptions c19_only_declared.
Print Assumptions c19_try_get_none.
Print Assumptions c19_get_enum.
Print Assumptions c19_offsets.
Print Assumptions c19_default_layout.
Print Assumptions c19_locate.
Print Assumptions c19_flush_delivers.
Print Assumptions c19_direct_delivers.
Print Assumptions c19_conservation.
Print Assumptions c19_run_total.
Print Assumptions c19_from_creates.
Print Assumptions c19_model_run.
Print Assumptions c19_wf_sound.
Print Assumptions c19_example_wf.
Print Assumptions c19_example_static.
Print Assumptions c19_example_auto.
Print Assumptions c19_example_hyps.
