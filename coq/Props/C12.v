(* C12  Local (unsync) metrics hand over exactly what they accumulated.
   Only statements, closed by [exact], pinned by [Check], with their assumptions printed.
   Model: Model/World.v (the slot-table interpreter [step]/[run_world]: shared value and histogram
   cores, local counters / histograms, their vector forms with a cache keyed by the label hash,
   clone, drop, removal).  Lemmas: Proofs/LocalFacts.v (one step, all operations),
   Proofs/C12More.v (histories, the world invariant), Proofs/HistFacts.v, Proofs/F64Facts.v.

   Vocabulary (definitions in LocalFacts.v / C12More.v, all executable):
     veffects w o c       what operation [o], run in world [w], applies to the shared value core [c]:
                          a direct update (inc / inc_by / reset of a handle of that core) or the
                          amounts handed over by a flush (one [VAddE val] per flushed local holding a
                          non-zero [val]); every other operation: nothing.
     veffects_hist w ops c  the concatenation along a history.
     heffects / heffects_hist  the same for a shared histogram core: [HObs v] for a direct
                          observation, [HBatch l] for a local histogram state [l] handed over by
                          flush, by drop, by remove_label_values of a local histogram vector, or by a
                          local timer.
     apply_veff / apply_heff   how one effect changes the core (num_add / hc_observe / hc_flush).
     heq a b              the two histogram cores agree on descriptor, labels, bounds, total count,
                          the shard observers write to and the other shard - i.e. they are equal up to
                          which of the two shards is currently the hot one (a collection flips that).
     wok w                the world invariant (holds of [world0], kept by every operation).
     lc_next / lh_next    how one operation changes the content of a local counter / histogram handle. *)
Require Import PV.Base.Prelude PV.Base.F64.
Require Import PV.Model.Proto PV.Model.Desc PV.Model.Value PV.Model.Hist PV.Model.Vec PV.Model.Registry PV.Model.World.
Require Import PV.Proofs.F64Facts PV.Proofs.HistFacts PV.Proofs.LocalFacts PV.Proofs.C12More.
Require Import PV.Spec.SpecC12 PV.Proofs.C12Spec.
Open Scope N_scope.

(* ---- the shared metric = its direct updates + the flushed batches, for every history ---------- *)

(* Counters.  For ANY world and ANY finite history of operations (of any kind, over any number of
   handles), a shared value core keeps its descriptor, type and label pairs and its value is the
   fold, in the order applied, of the direct updates and the flushed amounts - nothing else. *)
Theorem c12_counter w ops c vc :
  nth_error (w_v w) c = Some vc ->
  nth_error (w_v (run_world w ops)) c
  = Some (vc_with vc (fold_left apply_veff (veffects_hist w ops c) (vc_val vc))).
Proof. exact (counter_history w ops c vc). Qed.

(* Histograms.  In every well-formed world, after ANY history, the shared histogram core equals
   (up to which shard is hot) the fold of the direct observations and the flushed batches in the
   order applied; collections interleaved anywhere change nothing. *)
Theorem c12_histogram w ops c h :
  wok w -> nth_error (w_h w) c = Some h ->
  exists h', nth_error (w_h (run_world w ops)) c = Some h'
             /\ heq h' (fold_left apply_heff (heffects_hist w ops c) h).
Proof. exact (world_hist_history w ops c h). Qed.

(* ... so the count is the sum of the batch counts and direct observations, the sum is the
   bit-exact float fold of the addends (a direct observation adds its value, a non-empty batch adds
   its locally accumulated sum as ONE addend), and a collection returns exactly what it would
   return on that fold. *)
Theorem c12_histogram_observables w ops c h :
  wok w -> nth_error (w_h w) c = Some h ->
  exists h', nth_error (w_h (run_world w ops)) c = Some h'
    /\ hc_sample_count h' = hc_sample_count h + effs_count (heffects_hist w ops c)
    /\ hc_sample_sum h' = fold_left PrimFloat.add (effs_addends (heffects_hist w ops c)) (hc_sample_sum h)
    /\ option_map fst (hist_metric h') = option_map fst (hist_metric (fold_left apply_heff (heffects_hist w ops c) h)).
Proof. exact (world_hist_observables w ops c h). Qed.

(* equal-up-to-the-flip cores are indistinguishable through the API *)
Theorem c12_heq_observables a b :
  heq a b -> hc_sample_count a = hc_sample_count b /\ hc_sample_sum a = hc_sample_sum b
             /\ option_map fst (hist_metric a) = option_map fst (hist_metric b).
Proof. intros H. exact (conj (heq_count a b H) (conj (heq_sum a b H) (heq_collect_view a b H))). Qed.

(* the invariant: every world reachable from the empty one is well formed *)
Theorem c12_reachable_ok ops : wok (run_world world0 ops).
Proof. exact (run_wok world0 ops wok0). Qed.
Theorem c12_invariant_step w o : wok w -> wok (fst (step w o)).
Proof. exact (step_wok w o). Qed.

(* ---- what a flush hands over: exactly what the local holds, and what that is ------------------ *)

Theorem c12_flush_counter_amount w s c val c' :
  slot w s = HLocalCounter c val ->
  veffects w (OpFlush s) c' = if Nat.eqb c c' then (if num_is_zero val then [] else [VAddE val]) else [].
Proof. exact (flush_counter_amount w s c val c'). Qed.

Theorem c12_flush_hist_batch w s c l c' :
  slot w s = HLocalHist c l -> heffects w (OpFlush s) c' = if Nat.eqb c c' then [HBatch l] else [].
Proof. exact (flush_hist_batch w s c l c'). Qed.

(* the content of a local counter handle after any history: [lc_next] adds an inc / inc_by aimed at
   the handle, zeroes it on flush and on reset, ends it on drop, and ignores every other operation
   (including all operations on other handles of the same counter) *)
Theorem c12_local_counter w ops s c val :
  slot w s = HLocalCounter c val -> slot (run_world w ops) s = lc_handle c (lc_run ops s val).
Proof. exact (local_counter_history w ops s c val). Qed.

Theorem c12_local_counter_accumulates s ds val :
  lc_run (map (OpIncBy s) ds) s val = Some (fold_left num_add ds val).
Proof. exact (lc_run_incs s ds val). Qed.

(* the same for a local histogram handle: observe / observe_closure_duration aimed at it add one
   observation, flush and clear empty it, drop ends it, nothing else touches it *)
Theorem c12_local_histogram w ops s c l :
  slot w s = HLocalHist c l -> slot (run_world w ops) s = lh_handle c (lh_run w ops s c l).
Proof. exact (local_hist_history w ops s c l). Qed.

Theorem c12_local_histogram_accumulates vs w s c l :
  slot w s = HLocalHist c l ->
  lh_run w (map (OpObserve s) vs) s c l = Some (fold_left (lh_observe (bounds_of w c)) vs l).
Proof. exact (lh_run_observes vs w s c l). Qed.

(* local updates, reset / clear, clone and reads never reach a shared core *)
Theorem c12_local_updates_invisible w s c :
  (exists c' val, slot w s = HLocalCounter c' val) \/ (exists c' l, slot w s = HLocalHist c' l) ->
  (forall d, veffects w (OpIncBy s d) c = [] /\ veffects w (OpInc s) c = [])
  /\ (forall v, heffects w (OpObserve s v) c = []) /\ (forall a b, heffects w (OpClosure s a b) c = []).
Proof. exact (local_update_no_effect w s c). Qed.

(* ---- a second flush adds nothing ----------------------------------------------------------------- *)
(* for every kind of handle (local counter, local histogram, both vector forms; anything else is
   refused both times): the second flush leaves the WHOLE world unchanged *)
Theorem c12_flush_idempotent w s :
  let w1 := fst (step w (OpFlush s)) in step w1 (OpFlush s) = (w1, snd (step w (OpFlush s))).
Proof. exact (flush_twice w s). Qed.

(* ---- reset / clear discards only unflushed local data ------------------------------------------- *)
Theorem c12_clear_local_only w s :
  let w' := fst (step w (OpClear s)) in
  w_v w' = w_v w /\ w_h w' = w_h w /\ w_vec w' = w_vec w /\ w_reg w' = w_reg w
  /\ length (w_slots w') = length (w_slots w)
  /\ (forall s', s' <> s -> slot w' s' = slot w s')
  /\ slot w' s = cleared_handle (slot w s).
Proof. exact (clear_local_only w s). Qed.

(* ---- a clone starts empty ------------------------------------------------------------------------- *)
(* [cloned_handle] of a local counter / histogram is the same target with zero content, of a local
   vector the same vector with an empty cache; nothing shared and no existing slot changes *)
Theorem c12_clone_empty w s :
  let w' := fst (step w (OpClone s)) in
  w_v w' = w_v w /\ w_h w' = w_h w /\ w_vec w' = w_vec w /\ w_reg w' = w_reg w
  /\ w_slots w' = w_slots w ++ [cloned_handle (slot w s)].
Proof. exact (clone_empty w s). Qed.

(* ---- drop -------------------------------------------------------------------------------------------- *)
(* dropping a local histogram, or a local histogram vector (every cache entry), leaves every shared
   core exactly as a flush does *)
Theorem c12_drop_hist_flushes w s :
  is_local_hist (slot w s) ->
  let wd := fst (step w (OpDrop s)) in let wf := fst (step w (OpFlush s)) in
  w_h wd = w_h wf /\ w_v wd = w_v wf /\ w_vec wd = w_vec wf /\ w_reg wd = w_reg wf /\ slot wd s = HDead.
Proof. exact (drop_hist_flushes w s). Qed.

(* dropping a local counter (vector) discards what it holds (the code has no Drop for it and the
   property does not ask for one) *)
Theorem c12_drop_counter_discards w s :
  is_local_counter (slot w s) ->
  let wd := fst (step w (OpDrop s)) in
  w_v wd = w_v w /\ w_h wd = w_h w /\ w_vec wd = w_vec w /\ w_reg wd = w_reg w /\ slot wd s = HDead.
Proof. exact (drop_counter_discards w s). Qed.

(* a dropped handle stays dead and every later operation aimed at it is refused without effect *)
Theorem c12_dropped_is_dead w ops s :
  (s < length (w_slots w))%nat -> slot w s = HDead -> slot (run_world w ops) s = HDead.
Proof. exact (run_slot_dead w ops s). Qed.
Theorem c12_dead_refused w o s : slot w s = HDead -> op_target o = Some s -> step w o = (w, OBad).
Proof. exact (step_dead_target w o s). Qed.

(* ---- the vector forms -------------------------------------------------------------------------------- *)
(* a vector flush hands over the amount / batch of EVERY cache entry of that child and nothing else
   (c12_counter / c12_histogram then say what that does to the children) *)
Theorem c12_vec_flush_counter w s vi cache c :
  slot w s = HLocalCounterVec vi cache ->
  veffects w (OpFlush s) c = cache_amounts c cache
  /\ (forall h val, In (h, (c, val)) cache -> num_is_zero val = false -> In (VAddE val) (cache_amounts c cache))
  /\ (forall e, In e (cache_amounts c cache) -> exists h val, In (h, (c, val)) cache /\ e = VAddE val).
Proof.
  intros H. split; [exact (flush_counter_vec_amounts w s vi cache c H)|].
  split; [exact (cache_amounts_complete c cache)|exact (cache_amounts_sound c cache)].
Qed.

Theorem c12_vec_flush_hist w s vi cache c :
  slot w s = HLocalHistVec vi cache ->
  heffects w (OpFlush s) c = cache_batches c cache /\ heffects w (OpDrop s) c = cache_batches c cache
  /\ (forall h l, In (h, (c, l)) cache -> In (HBatch l) (cache_batches c cache))
  /\ (forall e, In e (cache_batches c cache) -> exists h l, In (h, (c, l)) cache /\ e = HBatch l).
Proof.
  intros H. destruct (flush_hist_vec_batches w s vi cache c H) as [A B]. split; [exact A|]. split; [exact B|].
  split; [exact (cache_batches_complete c cache)|exact (cache_batches_sound c cache)].
Qed.

(* an update through a local vector touches only the addressed cache entry (existing key) or looks
   the child up / creates it in the shared vector and caches a fresh, empty local for it (new key) *)
Theorem c12_vec_inc_existing w s vi cache v vals d h c val :
  slot w s = HLocalCounterVec vi cache -> nth_error (w_vec w) vi = Some v ->
  hash_label_values (v_desc v) vals = Ok h -> nlookup h cache = Some (c, val) ->
  step w (OpLvInc s vals d)
  = (put_slot w s (HLocalCounterVec vi (map (fun e => if fst e =? h then (h, (c, num_add val d)) else e) cache)), OUnit).
Proof. exact (lv_inc_existing w s vi cache v vals d h c val). Qed.

Theorem c12_vec_inc_new w s vi cache v vals d h w1 c :
  slot w s = HLocalCounterVec vi cache -> nth_error (w_vec w) vi = Some v ->
  hash_label_values (v_desc v) vals = Ok h -> nlookup h cache = None ->
  vec_get_or_create w vi h vals = Ok (w1, HValue c) ->
  step w (OpLvInc s vals d)
  = (put_slot w1 s (HLocalCounterVec vi (cache ++ [(h, (c, num_add (zero_like d) d))])), OUnit).
Proof. exact (lv_inc_new w s vi cache v vals d h w1 c). Qed.

Theorem c12_vec_observe_existing w s vi cache v vals x h c l :
  slot w s = HLocalHistVec vi cache -> nth_error (w_vec w) vi = Some v ->
  hash_label_values (v_desc v) vals = Ok h -> nlookup h cache = Some (c, l) ->
  step w (OpLvObserve s vals x)
  = (put_slot w s (HLocalHistVec vi (map (fun e => if fst e =? h then (h, (c, lh_observe (bounds_of w c) l x)) else e) cache)), OUnit).
Proof. exact (lv_observe_existing w s vi cache v vals x h c l). Qed.

Theorem c12_vec_observe_new w s vi cache v vals x h w1 c :
  slot w s = HLocalHistVec vi cache -> nth_error (w_vec w) vi = Some v ->
  hash_label_values (v_desc v) vals = Ok h -> nlookup h cache = None ->
  vec_get_or_create w vi h vals = Ok (w1, HHist c) ->
  step w (OpLvObserve s vals x)
  = (put_slot w1 s (HLocalHistVec vi (cache ++ [(h, (c, lh_observe (bounds_of w1 c) (lh_new (length (bounds_of w1 c))) x))])), OUnit).
Proof. exact (lv_observe_new w s vi cache v vals x h w1 c). Qed.

(* remove_label_values on a local histogram vector hands the cached batch over to the child (the
   cached local histogram is dropped) before the child leaves the vector *)
Theorem c12_vec_remove_flushes w s vi cache v vals h c l :
  slot w s = HLocalHistVec vi cache -> nth_error (w_vec w) vi = Some v ->
  hash_label_values (v_desc v) vals = Ok h -> nlookup h cache = Some (c, l) ->
  heffects w (OpLvRemove s vals) c = [HBatch l].
Proof. exact (lv_remove_flushes w s vi cache v vals h c l). Qed.


(* ---- the property as written from the text holds of the model ------------------------------------- *)
(* [spec_c12] (Spec/SpecC12.v) is the executable statement of C12 written from the property text: it
   keeps books of direct updates + flushed batches per shared metric, of the pending data per local
   handle, of vectors and local-vector caches by label tuple, from the operations alone, and judges
   every value shown.  It accepts the model's own observations for EVERY history in the domain - so
   the oracle can never raise an alarm while the implementation agrees with the model.
   Domain ([ops_in_domain], executable, see Proofs/C12Spec.v):
     - every operation is one the C12 / C18 generators emit: OpCounter / OpCounterVec (f64, u64),
       OpHistogram, OpHistVec, OpWith, OpRemove, OpReset, OpInc, OpIncBy, OpGet, OpObserve, OpSampleCount,
       OpSampleSum, OpLocal, OpFlush, OpClear, OpClone, OpDrop, OpLvInc, OpLvObserve, OpLvRemove, OpTimer,
       OpTimerStop, OpClosure, OpCollect (any slot arguments, dead and ill-typed ones included; wrong
       label cardinalities; increments of any sign, NaN; wrapping u64);
     - the label-value tuples mentioned do not collide under the 64-bit label hash ([no_collision]);
     - updates through a local vector have the vector's numeric flavour ([lv_ok]);
     - along the run no histogram and no local histogram reaches 2^63 observations.
   Not in the language: the map forms OpWithMap / OpRemoveMap, gauges, registries (no generator of
   C12 / C18 emits them). *)
Theorem c12_spec_model ops : ops_in_domain ops = true -> spec_c12 ops (run world0 ops) = true.
Proof. exact (C12Spec.c12_spec_model ops). Qed.

(* the simulation behind it: books and world stay related (sim), every judgement of the engine on
   the model's observation is true, for one step of any operation of the language; [KT] is any set of
   label tuples on which the label hash is injective and which contains the operation's tuple *)
Theorem c12_spec_step KT (Hinj : forall a b, In a KT -> In b KT -> H a = H b -> a = b) b ks w o :
  sim KT b ks w -> books_small b = true -> op_in_lang o = true -> lv_ok b ks o = true ->
  (forall t, op_tuple o = Some t -> In t KT) -> step_ok KT (b, ks) w o.
Proof. exact (sim_step KT Hinj b ks w o). Qed.

(* ---- non-vacuity ------------------------------------------------------------------------------------- *)
Set Warnings "-inexact-float".
Definition ex_o : Opts := mkOpts [] [] [99] [104] [] [].

(* one shared counter (slot 0), two locals (1, 2), a clone of 1 (slot 3): a direct inc, a flush, a
   second flush, a reset followed by a flush, a dropped local counter *)
Definition ex_counter_ops : list op :=
  [OpCounter NF ex_o; OpLocal 0; OpLocal 0; OpIncBy 1 (VF 1.5%float); OpInc 2; OpInc 0; OpClone 1; OpFlush 1; OpFlush 1; OpGet 0;
   OpClear 2; OpFlush 2; OpGet 0; OpIncBy 3 (VF 2%float); OpDrop 3; OpGet 0; OpGet 1; OpGet 2].
Example c12_ex_counter :
  run world0 ex_counter_ops
  = [ORes (Ok tt); OUnit; OUnit; OUnit; OUnit; OUnit; OUnit; OUnit; OUnit; ONum (VF 2.5%float); OUnit; OUnit; ONum (VF 2.5%float);
     OUnit; OUnit; ONum (VF 2.5%float); ONum (VF 0%float); ONum (VF 0%float)]
  /\ veffects_hist world0 ex_counter_ops 0 = [VInc; VAddE (VF 1.5%float)].
Proof. vm_compute. split; reflexivity. Qed.

(* one shared histogram with bounds [1; 2], a local and its clone, a collection in the middle, a
   flush and a second flush, a dropped clone (flushes), a cleared then dropped local (nothing) *)
Definition ex_hist_ops : list op :=
  [OpHistogram (mkHOpts ex_o [1; 2]%float); OpLocal 0; OpObserve 1 0.5%float; OpObserve 1 3%float; OpObserve 0 1%float; OpClone 1; OpCollect 0;
   OpFlush 1; OpFlush 1; OpSampleCount 0; OpSampleSum 0; OpObserve 2 1.5%float; OpDrop 2; OpSampleCount 0; OpObserve 1 7%float; OpClear 1;
   OpDrop 1; OpSampleCount 0].
Example c12_ex_hist :
  run world0 ex_hist_ops
  = [ORes (Ok tt); OUnit; OUnit; OUnit; OUnit; OUnit;
     OFamsU [mkMF [99] [104] HISTOGRAM [mkMetric [] None None None None (Some (mkHist 1 1%float [mkBucket 1 1%float; mkBucket 1 2%float])) None]];
     OUnit; OUnit; ON 3; OF64 4.5%float; OUnit; OUnit; ON 4; OUnit; OUnit; OUnit; ON 4]
  /\ heffects_hist world0 ex_hist_ops 0
     = [HObs 1%float; HBatch (mkLHist [1; 0] 2 3.5%float); HBatch (mkLHist [0; 0] 0 0%float); HBatch (mkLHist [0; 1] 1 1.5%float);
        HBatch (mkLHist [0; 0] 0 0%float)].
Proof. vm_compute. split; reflexivity. Qed.

(* the hypotheses of c12_histogram are satisfiable: after the first operation the world is well
   formed and has a core at index 0 *)
Example c12_ex_hyp :
  wok (run_world world0 [OpHistogram (mkHOpts ex_o [1; 2]%float)])
  /\ exists h, nth_error (w_h (run_world world0 [OpHistogram (mkHOpts ex_o [1; 2]%float)])) 0 = Some h.
Proof. split; [apply c12_reachable_ok|]. vm_compute. eexists; reflexivity. Qed.

(* a local histogram vector over a vector with children "a" and "b": flush reaches both children,
   remove_label_values hands the pending batch over, drop flushes the rest, a clone starts empty *)
Definition ex_vec_ops : list op :=
  [OpHistVec (mkHOpts ex_o [1]%float) [[108]]; OpLocal 0; OpLvObserve 1 [[97]] 0.5%float; OpLvObserve 1 [[98]] 2%float; OpLvObserve 1 [[97]] 0.25%float;
   OpWith 0 [[97]]; OpWith 0 [[98]]; OpSampleCount 2; OpClone 1; OpFlush 1; OpSampleCount 2; OpSampleSum 2; OpSampleCount 3;
   OpLvObserve 1 [[98]] 4%float; OpLvRemove 1 [[98]]; OpSampleCount 3; OpLvObserve 1 [[97]] 1%float; OpDrop 1; OpSampleCount 2;
   OpLvObserve 4 [[97]] 9%float; OpSampleCount 2].
Example c12_ex_vec :
  run world0 ex_vec_ops
  = [ORes (Ok tt); OUnit; OUnit; OUnit; OUnit; ORes (Ok tt); ORes (Ok tt); ON 0; OUnit; OUnit; ON 2; OF64 0.75%float; ON 1; OUnit;
     ORes (Ok tt); ON 2; OUnit; OUnit; ON 3; OUnit; ON 3].
Proof. vm_compute. reflexivity. Qed.

(* the corpus scenarios above (counter, histogram, local histogram vector) are inside the domain of
   c12_spec_model, and the spec indeed accepts them *)
Example c12_ex_domain :
  ops_in_domain ex_counter_ops = true /\ ops_in_domain ex_hist_ops = true /\ ops_in_domain ex_vec_ops = true.
Proof. vm_compute. repeat split; reflexivity. Qed.

Check c12_counter : forall w ops c vc,
  nth_error (w_v w) c = Some vc ->
  nth_error (w_v (run_world w ops)) c = Some (vc_with vc (fold_left apply_veff (veffects_hist w ops c) (vc_val vc))).
Check c12_histogram : forall w ops c h,
  wok w -> nth_error (w_h w) c = Some h ->
  exists h', nth_error (w_h (run_world w ops)) c = Some h' /\ heq h' (fold_left apply_heff (heffects_hist w ops c) h).
Check c12_reachable_ok : forall ops, wok (run_world world0 ops).
Check c12_flush_idempotent : forall w s,
  let w1 := fst (step w (OpFlush s)) in step w1 (OpFlush s) = (w1, snd (step w (OpFlush s))).
Check c12_clear_local_only : forall w s,
  let w' := fst (step w (OpClear s)) in
  w_v w' = w_v w /\ w_h w' = w_h w /\ w_vec w' = w_vec w /\ w_reg w' = w_reg w
  /\ length (w_slots w') = length (w_slots w)
  /\ (forall s', s' <> s -> slot w' s' = slot w s')
  /\ slot w' s = cleared_handle (slot w s).
Check c12_clone_empty : forall w s,
  let w' := fst (step w (OpClone s)) in
  w_v w' = w_v w /\ w_h w' = w_h w /\ w_vec w' = w_vec w /\ w_reg w' = w_reg w
  /\ w_slots w' = w_slots w ++ [cloned_handle (slot w s)].
Check c12_drop_hist_flushes : forall w s,
  is_local_hist (slot w s) ->
  let wd := fst (step w (OpDrop s)) in let wf := fst (step w (OpFlush s)) in
  w_h wd = w_h wf /\ w_v wd = w_v wf /\ w_vec wd = w_vec wf /\ w_reg wd = w_reg wf /\ slot wd s = HDead.
Check c12_drop_counter_discards : forall w s,
  is_local_counter (slot w s) ->
  let wd := fst (step w (OpDrop s)) in
  w_v wd = w_v w /\ w_h wd = w_h w /\ w_vec wd = w_vec w /\ w_reg wd = w_reg w /\ slot wd s = HDead.

Check c12_spec_model : forall ops, ops_in_domain ops = true -> spec_c12 ops (run world0 ops) = true.

Print Assumptions c12_spec_model.
Print Assumptions c12_spec_step.
Print Assumptions c12_counter.
Print Assumptions c12_histogram.
Print Assumptions c12_histogram_observables.
Print Assumptions c12_heq_observables.
Print Assumptions c12_reachable_ok.
Print Assumptions c12_invariant_step.
Print Assumptions c12_flush_counter_amount.
Print Assumptions c12_flush_hist_batch.
Print Assumptions c12_local_counter.
Print Assumptions c12_local_counter_accumulates.
Print Assumptions c12_local_histogram.
Print Assumptions c12_local_histogram_accumulates.
Print Assumptions c12_local_updates_invisible.
Print Assumptions c12_flush_idempotent.
Print Assumptions c12_clear_local_only.
Print Assumptions c12_clone_empty.
Print Assumptions c12_drop_hist_flushes.
Print Assumptions c12_drop_counter_discards.
Print Assumptions c12_dropped_is_dead.
Print Assumptions c12_dead_refused.
Print Assumptions c12_vec_flush_counter.
Print Assumptions c12_vec_flush_hist.
Print Assumptions c12_vec_inc_existing.
Print Assumptions c12_vec_inc_new.
Print Assumptions c12_vec_observe_existing.
Print Assumptions c12_vec_observe_new.
Print Assumptions c12_vec_remove_flushes.
