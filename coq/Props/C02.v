(* C02  Every histogram snapshot is one consistent cut of the observations.
   Only statements, closed by [exact] (or a few lines from lemmas of Proofs/Hist*.v), pinned by [Check], with their
   assumptions printed.

   WHAT IS MODELLED.  Model/HistConc.v: an interleaving semantics of HistogramCore::observe,
   LocalHistogramCore::flush and HistogramCore::proto over ANY number of threads, one rule per atomic operation
   (claim on shard_and_count, bucket adds, sum add, publish on the shard count; lock, flip, wait, swaps, adds to
   the hot shard, unlock), with ghost state: the list of observation records in ticket (= claim) order, K = number
   of tickets at the latest flip, the snapshots returned.  Model/HistExec.v is its executable, event-driven form
   (hexec / xrun): it accepts or rejects, event by event, the trace of the REAL histogram run one atomic step at a
   time under the sync shim; Proofs/HistExecSound.v: every accepted event is a stutter or one step of the relation.
   Proofs/HistLog.v adds pure bookkeeping (orun): per ticket, the calling thread, the number of that thread's call
   and the values the call carried.

   MEMORY-MODEL CAVEAT.  "Every execution the Rust memory model allows as far as the count hand-off ordering is
   concerned" is covered by an OPERATIONAL reordering model, not by the axiomatic C++20 / Rust model: there is one
   global memory; a call's atomic steps may be performed out of program order except where a release (publish)
   or an acquire (exit of the wait loop) forbids it.  The two facts the algorithm needs are parameters ([ords]):
   with [pub_release = false] the publish may overtake the bucket / sum updates, with [wait_acquire = false] the
   collector's drain may be performed before the counts match.  The theorems hold for EVERY assignment with
   [sufficient_orderings]; [c02_release_needed] / [c02_acquire_needed] show that each of the two is necessary in
   this model; [c02_source_orderings_ok] is re-proved on every run against the orderings re-read from the source.
   The orderings of the claim and of the flip are recorded and compared at run time but any value is sufficient in
   this model.  The relation between this operational model and the axiomatic model is ASSUMED (trusted base);
   stale relaxed loads (get_sample_count) and load buffering across calls cannot be exhibited by it.
   Values are integers (Z): with several threads the order of float additions is schedule dependent; the
   bit-exact, order-sensitive statement about binary64 sums is C08's. *)
Require Import PV.Base.Prelude PV.Base.F64 PV.Model.Conc PV.Model.HistConc PV.Model.HistExec.
Require Import PV.Proofs.HistConcLemmas PV.Proofs.HistConcInv PV.Proofs.HistConcProof PV.Proofs.HistConcOwn.
Require Import PV.Proofs.HistExecSound PV.Proofs.HistExecInv PV.Proofs.HistConcThms.
Require Import PV.Proofs.HistValues PV.Proofs.HistLog PV.Proofs.HistReads PV.Proofs.HistWait PV.Proofs.HistMain.
Require Import PV.Spec.SpecC02 PV.Proofs.HistSpecArith PV.Proofs.HistSpecSnap PV.Proofs.HistSpec.
Require Import PV.gen.HistOrderings.
Open Scope Z_scope.

(* ---------------------------------------------------------------- the relational model: all paths *)
(* every snapshot ever returned, by any collector thread, in any reachable state of the model - any number of
   threads, any interleaving, any ordering assignment that is sufficient - is the summary of a ticket prefix *)
Theorem c02_snapshot_is_prefix_model B Od s k res :
  sufficient_orderings Od = true -> reach B Od s -> In (k, res) (snaps s) ->
  (k <= length (recs s))%nat /\ res = summary B (firstn k (recs s)).
Proof. intros H. exact (HistConcProof.snapshot_is_prefix B Od H s k res). Qed.

(* every trace of the implementation that the executable model accepts is a path of the relational model
   (for every ordering assignment: the executable model itself demands release / acquire on the events) *)
Theorem c02_validated_trace_is_model_path bounds Od es x :
  xrun bounds xinit es = Some x -> reach (length bounds) Od (base x).
Proof. exact (validated_trace_is_model_path bounds Od es x). Qed.

(* ---------------------------------------------------------------- validated traces *)
(* [cuts x]: one entry per returned collection: l0 / k / l1 = number of tickets when the collection was invoked /
   at its flip / when it returned, and the (count, sum, per-bucket counts) it returned *)
Theorem c02_snapshot_is_prefix bounds es x c :
  xrun bounds xinit es = Some x -> In c (cuts x) ->
  cut_res c = summary (length bounds) (firstn (cut_k c) (recs (base x))).
Proof. intros R H. exact (proj1 (snapshot_is_prefix bounds od_sc od_sc_ok es x c R H)). Qed.

Theorem c02_cut_bounds bounds es x c :
  xrun bounds xinit es = Some x -> In c (cuts x) ->
  (cut_l0 c <= cut_k c)%nat /\ (cut_k c <= cut_l1 c)%nat /\ (cut_l1 c <= length (recs (base x)))%nat.
Proof. intros R H. exact (proj2 (snapshot_is_prefix bounds od_sc od_sc_ok es x c R H)). Qed.

(* l0 and l1 really are the ticket counts at the call marker and at the return marker of that collection: tickets
   are appended at claim time, so the prefix [firstn k] holds every observation that had claimed (a fortiori every
   one that had returned) before the collection was invoked, and none that was invoked after it returned *)
Theorem c02_collect_window bounds x0 x1 es x2 x3 t cnt sum bks :
  hexec bounds x0 (ECall t CCollect) = Some x1 -> xrun bounds x1 es = Some x2 -> (forall r, ~ In (ERet t r) es) ->
  hexec bounds x2 (ERet t (RSnap cnt sum bks)) = Some x3 ->
  exists c, cuts x3 = c :: cuts x2 /\ cut_l0 c = length (recs (base x0)) /\ cut_l1 c = length (recs (base x2)).
Proof. exact (collect_window bounds x0 x1 es x2 x3 t cnt sum bks). Qed.

(* the values on a validated return marker are those of the recorded cut (buckets cumulated) *)
Theorem c02_returned_snapshot_is_cut bounds x t cnt sum bks x' :
  hexec bounds x (ERet t (RSnap cnt sum bks)) = Some x' ->
  exists c, cuts x' = c :: cuts x /\ cut_l1 c = length (recs (base x))
    /\ Z.of_N cnt = fst (fst (cut_res c)) /\ sum = zbits (snd (fst (cut_res c)))
    /\ map Z.of_N bks = cumulz 0 (snd (cut_res c)).
Proof. exact (returned_snapshot_is_cut bounds x t cnt sum bks x'). Qed.

(* ---------------------------------------------------------------- the set S, in the words of the property *)
(* the bookkeeping run accepts exactly what the plain run accepts *)
Theorem c02_log_is_conservative bounds es :
  (forall o, orun bounds oinit es = Some o -> xrun bounds xinit es = Some (ox o))
  /\ (forall x, xrun bounds xinit es = Some x -> exists o, orun bounds oinit es = Some o /\ ox o = x).
Proof. split; [intros o; exact (orun_xrun bounds es oinit o)|intros x; exact (xrun_orun bounds es oinit x)]. Qed.

(* what the caller of collect receives: with S = the values of the calls holding the first k tickets,
   sample count = |S|, sample sum = sum of S, and (for non-decreasing bounds, which the constructor enforces)
   every bucket's cumulative count = number of values of S not greater than that bucket's bound;
   l0 <= k <= l1 *)
Theorem c02_returned_snapshot_describes_set bounds es o t cnt sum bks o' :
  orun bounds oinit es = Some o -> ostep bounds o (ERet t (RSnap cnt sum bks)) = Some o' ->
  exists c, cuts (ox o') = c :: cuts (ox o)
    /\ (cut_l0 c <= cut_k c)%nat /\ (cut_k c <= cut_l1 c)%nat /\ cut_l1 c = length (vlog o)
    /\ let vsS := prefix_values o' (cut_k c) in
       Z.of_N cnt = Z.of_nat (length vsS) /\ sum = zbits (zsum vsS)
       /\ (nondecr bounds -> map Z.of_N bks = map (fun b => zcount (fun v => v <=? b) vsS) bounds).
Proof. exact (returned_snapshot_describes_set bounds es o t cnt sum bks o'). Qed.

(* prefix closure under program order: [owners o] lists, per ticket, (thread, number of that thread's observe /
   flush call).  If the prefix of length k holds the q-th call of thread t, it holds its p-th call for every p < q *)
Theorem c02_prefix_closed_program_order bounds es o k j t q p :
  orun bounds oinit es = Some o -> (j < k)%nat -> nth_error (owners o) j = Some (t, q) -> (1 <= p < q)%nat ->
  exists i, (i < k)%nat /\ nth_error (owners o) i = Some (t, p).
Proof. intros H. exact (prefix_closed_program_order bounds o k j t q p (proj2 (orun_good bounds es o H))). Qed.

(* every call owns at most one ticket (and every ticket carries the complete values of its call: C03's batch clause) *)
Theorem c02_one_ticket_per_call bounds es o i j t q :
  orun bounds oinit es = Some o -> nth_error (owners o) i = Some (t, q) -> nth_error (owners o) j = Some (t, q) -> i = j.
Proof. intros H. exact (O_inj bounds o (proj2 (orun_good bounds es o H)) i j t q). Qed.

(* ---------------------------------------------------------------- orderings *)
(* regenerated obligation: the orderings written in today's source are sufficient *)
Theorem c02_source_orderings_ok : sufficient_orderings source_orderings = true.
Proof. vm_compute. reflexivity. Qed.

(* and they are what the implementation uses at run time: trace validation accepts the publishing fetch_add of an
   observe / flush only with the release ordering reported by the sync shim, and the successful compare-exchange of
   the wait loop only with an acquire ordering (tools/p_C02.py additionally compares the reported orderings with
   gen/HistOrderings.v, which cross-checks the extractor) *)
Theorem c02_runtime_publish_is_release bounds x t i cell k o o2 before after ok x' :
  thr (base x) t = OWork i -> hexec bounds x (EAt t cell k o o2 before after ok) = Some x' -> thr (base x') t = Idle ->
  is_release o = true.
Proof. exact (publish_event_is_release bounds x t i cell k o o2 before after ok x'). Qed.
Theorem c02_runtime_wait_exit_is_acquire bounds x t N cell k o o2 before after ok x' :
  thr (base x) t = CIn (CWait N) -> hexec bounds x (EAt t cell k o o2 before after ok) = Some x' ->
  thr (base x') t = CIn (CSwapSum N) -> is_acquire o = true.
Proof. exact (wait_exit_is_acquire bounds x t N cell k o o2 before after ok x'). Qed.

(* both are needed in this model: without either, some path returns a snapshot that is no ticket prefix's summary
   (count 1, sum 0 for one observation of 5) *)
Theorem c02_release_needed :
  exists s k res, reach 0 {| pub_release := false; wait_acquire := true |} s /\ In (k, res) (snaps s)
                  /\ res <> summary 0 (firstn k (recs s)).
Proof. exact release_needed. Qed.
Theorem c02_acquire_needed :
  exists s k res, reach 0 {| pub_release := true; wait_acquire := false |} s /\ In (k, res) (snaps s)
                  /\ res <> summary 0 (firstn k (recs s)).
Proof. exact acquire_needed. Qed.


(* ---------------------------------------------------------------- the validator implies the spec written from the text *)
(* For ALL traces: a trace accepted by the executable model (the [chk] of tools/p_C02.py) that lies in the domain of the
   executable spec satisfies the executable spec Spec/SpecC02.spec_hist (the [chk_spec] of tools/p_C02.py: every returned
   snapshot decodes to ONE set S of invoked observations with count = |S|, buckets = #{v in S | v <= bound}, S contains every
   observation that had returned when the collection was invoked, is closed under every thread's program order with
   batches atomic, grows over earlier snapshots, is exactly everything for a collection that ran alone; quiescent
   get_sample_count / get_sample_sum agree).  So the oracle can never raise an alarm on a trace the model accepts.
   [in_domain] is the spec's own executable side condition: the values carried by the observe / flush call markers are
   +-2^k with pairwise distinct exponents k < 53 (S is decodable from its sum; every sum is an exact binary64), and the
   bucket bounds are non-decreasing.  Proofs/HistSpec*.v: decoding (subset sums of such values are unique), binary64
   round trip (Flocq), and a simulation between the spec's marker bookkeeping and the ghost ticket log. *)
Theorem c02_spec_of_validated bounds es x :
  xrun bounds xinit es = Some x -> in_domain bounds es = true -> spec_hist bounds es = true.
Proof. exact (spec_of_validated bounds es x). Qed.
Theorem c02_spec_of_chk bounds es :
  (match xrun bounds xinit es with Some _ => true | None => false end) = true -> in_domain bounds es = true -> spec_hist bounds es = true.
Proof. destruct (xrun bounds xinit es) as [x|] eqn:E; [intros _; exact (spec_of_validated bounds es x E)|discriminate]. Qed.
(* the decoding fact on its own: for values in the domain, the spec's decoder recovers exactly the member set from the sum *)
Theorem c02_decode_unique obs l : Dom (all_vals obs) -> incl l (all_vals obs) -> NoDup l -> decode obs (zsum l) = Some (mask_of l).
Proof. exact (decode_correct obs l). Qed.

(* ---------------------------------------------------------------- non-vacuity: a trace of the real histogram *)
(* bounds [2; 4]; thread 0: observe 1, then flush the batch [2; 8]; thread 1: collect three times, get_sample_count,
   get_sample_sum.  The first collection flips while observe(1) is between claim and publish, spins, and the batch
   is claimed after its flip (k = 1 < l1 = 2). *)
Definition c02_ex_bounds : list Z := [2; 4].
Definition c02_ex_trace : list event := ([
   ECall 0 (CObs 4607182418800017408); EAt 0 1 KFetchAdd Acquire None 0 1 true; EAt 0 2 KFetchAdd Relaxed None 0 1 true; ECall 1 CCollect; 
   ELock 1 0 LMutex true; EAt 1 1 KFetchAdd AcqRel None 1 9223372036854775809 true; EAt 1 5 KCasWeak Acquire (Some Acquire) 0 0 false; 
   EAt 1 5 KCasWeak Acquire (Some Acquire) 0 0 false; EAt 0 4 KLoad Acquire None 0 0 true; 
   EAt 0 4 KCasWeak Release (Some Relaxed) 0 4607182418800017408 true; EAt 1 5 KCasWeak Acquire (Some Acquire) 0 0 false; 
   EAt 1 5 KCasWeak Acquire (Some Acquire) 0 0 false; EAt 1 5 KCasWeak Acquire (Some Acquire) 0 0 false; EAt 0 5 KFetchAdd Release None 0 1 true; 
   ERet 0 RUnit; ECall 0 (CBatch [4611686018427387904;4620693217682128896]); EAt 0 1 KFetchAdd Acquire None 9223372036854775809 9223372036854775811 true; 
   EAt 1 5 KCasWeak Acquire (Some Acquire) 1 0 true; EAt 0 6 KFetchAdd Relaxed None 0 1 true; EAt 1 4 KSwap AcqRel None 4607182418800017408 0 true; 
   EAt 0 8 KLoad Acquire None 0 0 true; EAt 1 2 KSwap AcqRel None 1 0 true; EAt 0 8 KCasWeak Release (Some Relaxed) 0 4621819117588971520 true; 
   EAt 1 6 KFetchAdd Relaxed None 1 2 true; EAt 0 9 KFetchAdd Release None 0 2 true; EAt 1 3 KSwap AcqRel None 0 0 true; ERet 0 RUnit; 
   EAt 1 7 KFetchAdd Relaxed None 0 0 true; EAt 1 9 KFetchAdd Relaxed None 2 3 true; 
   EAt 1 8 KLoad Acquire None 4621819117588971520 4621819117588971520 true; 
   EAt 1 8 KCasWeak Release (Some Relaxed) 4621819117588971520 4622382067542392832 true; EUnlock 1 0 LMutex; ERet 1 (RSnap 1 4607182418800017408 [1;1]); 
   ECall 1 CCollect; ELock 1 0 LMutex true; EAt 1 1 KFetchAdd AcqRel None 9223372036854775811 3 true; EAt 1 9 KCasWeak Acquire (Some Acquire) 3 0 true; 
   EAt 1 8 KSwap AcqRel None 4622382067542392832 0 true; EAt 1 6 KSwap AcqRel None 2 0 true; EAt 1 2 KFetchAdd Relaxed None 0 2 true; 
   EAt 1 7 KSwap AcqRel None 0 0 true; EAt 1 3 KFetchAdd Relaxed None 0 0 true; EAt 1 5 KFetchAdd Relaxed None 0 3 true; 
   EAt 1 4 KLoad Acquire None 0 0 true; EAt 1 4 KCasWeak Release (Some Relaxed) 0 4622382067542392832 true; EUnlock 1 0 LMutex; 
   ERet 1 (RSnap 3 4622382067542392832 [2;2]); ECall 1 CCollect; ELock 1 0 LMutex true; EAt 1 1 KFetchAdd AcqRel None 3 9223372036854775811 true; 
   EAt 1 5 KCasWeak Acquire (Some Acquire) 3 0 true; EAt 1 4 KSwap AcqRel None 4622382067542392832 0 true; EAt 1 2 KSwap AcqRel None 2 0 true; 
   EAt 1 6 KFetchAdd Relaxed None 0 2 true; EAt 1 3 KSwap AcqRel None 0 0 true; EAt 1 7 KFetchAdd Relaxed None 0 0 true; 
   EAt 1 9 KFetchAdd Relaxed None 0 3 true; EAt 1 8 KLoad Acquire None 0 0 true; EAt 1 8 KCasWeak Release (Some Relaxed) 0 4622382067542392832 true; 
   EUnlock 1 0 LMutex; ERet 1 (RSnap 3 4622382067542392832 [2;2]); ECall 1 CSCount; 
   EAt 1 1 KLoad Relaxed None 9223372036854775811 9223372036854775811 true; ERet 1 (RVal 3); ECall 1 CSSum; ELock 1 0 LMutex true; 
   EAt 1 1 KLoad Relaxed None 9223372036854775811 9223372036854775811 true; EAt 1 8 KLoad Relaxed None 4622382067542392832 4622382067542392832 true; 
   EUnlock 1 0 LMutex; ERet 1 (RVal 4622382067542392832)])%N.
Example c02_ex_accepted :
  match orun c02_ex_bounds oinit c02_ex_trace with
  | Some o => Some (map (fun c => (cut_l0 c, cut_k c, cut_l1 c, cut_res c)) (cuts (ox o)), owners o, vlog o)
  | None => None
  end = Some ([(2%nat, 2%nat, 2%nat, (3, 11, [2; 0])); (2%nat, 2%nat, 2%nat, (3, 11, [2; 0])); (1%nat, 1%nat, 2%nat, (1, 1, [1; 0]))],
              [(0, 1); (0, 2)]%nat, [[1]; [2; 8]]).
Proof. vm_compute. reflexivity. Qed.
Example c02_ex_hypotheses_satisfiable :
  exists o, orun c02_ex_bounds oinit c02_ex_trace = Some o /\ length (cuts (ox o)) = 3%nat /\ nondecr c02_ex_bounds.
Proof.
  destruct (orun c02_ex_bounds oinit c02_ex_trace) as [o|] eqn:E; [|vm_compute in E; discriminate].
  exists o. split; [reflexivity|]. split; [|cbn; lia].
  assert (H : option_map (fun o => length (cuts (ox o))) (orun c02_ex_bounds oinit c02_ex_trace) = Some 3%nat) by (vm_compute; reflexivity).
  rewrite E in H. inversion H. reflexivity.
Qed.

(* the real trace above is inside the domain of the spec theorem (and the spec holds of it) *)
Example c02_ex_in_domain : in_domain c02_ex_bounds c02_ex_trace = true /\ spec_hist c02_ex_bounds c02_ex_trace = true.
Proof. vm_compute. auto. Qed.

Check c02_spec_of_validated : forall bounds es x, xrun bounds xinit es = Some x -> in_domain bounds es = true -> spec_hist bounds es = true.
Check c02_snapshot_is_prefix_model : forall B Od s k res, sufficient_orderings Od = true -> reach B Od s -> In (k, res) (snaps s) ->
  (k <= length (recs s))%nat /\ res = summary B (firstn k (recs s)).
Check c02_snapshot_is_prefix : forall bounds es x c, xrun bounds xinit es = Some x -> In c (cuts x) ->
  cut_res c = summary (length bounds) (firstn (cut_k c) (recs (base x))).
Check c02_cut_bounds : forall bounds es x c, xrun bounds xinit es = Some x -> In c (cuts x) ->
  (cut_l0 c <= cut_k c)%nat /\ (cut_k c <= cut_l1 c)%nat /\ (cut_l1 c <= length (recs (base x)))%nat.
Check c02_returned_snapshot_describes_set : forall bounds es o t cnt sum bks o',
  orun bounds oinit es = Some o -> ostep bounds o (ERet t (RSnap cnt sum bks)) = Some o' ->
  exists c, cuts (ox o') = c :: cuts (ox o)
    /\ (cut_l0 c <= cut_k c)%nat /\ (cut_k c <= cut_l1 c)%nat /\ cut_l1 c = length (vlog o)
    /\ let vsS := prefix_values o' (cut_k c) in
       Z.of_N cnt = Z.of_nat (length vsS) /\ sum = zbits (zsum vsS)
       /\ (nondecr bounds -> map Z.of_N bks = map (fun b => zcount (fun v => v <=? b) vsS) bounds).
Check c02_prefix_closed_program_order : forall bounds es o k j t q p,
  orun bounds oinit es = Some o -> (j < k)%nat -> nth_error (owners o) j = Some (t, q) -> (1 <= p < q)%nat ->
  exists i, (i < k)%nat /\ nth_error (owners o) i = Some (t, p).
Check c02_source_orderings_ok : sufficient_orderings source_orderings = true.

Print Assumptions c02_snapshot_is_prefix_model.
Print Assumptions c02_validated_trace_is_model_path.
Print Assumptions c02_snapshot_is_prefix.
Print Assumptions c02_cut_bounds.
Print Assumptions c02_collect_window.
Print Assumptions c02_returned_snapshot_is_cut.
Print Assumptions c02_log_is_conservative.
Print Assumptions c02_returned_snapshot_describes_set.
Print Assumptions c02_prefix_closed_program_order.
Print Assumptions c02_one_ticket_per_call.
Print Assumptions c02_source_orderings_ok.
Print Assumptions c02_runtime_publish_is_release.
Print Assumptions c02_runtime_wait_exit_is_acquire.
Print Assumptions c02_release_needed.
Print Assumptions c02_acquire_needed.
Print Assumptions c02_spec_of_validated.
Print Assumptions c02_spec_of_chk.
Print Assumptions c02_decode_unique.
Print Assumptions c02_ex_in_domain.
Print Assumptions c02_ex_accepted.
Print Assumptions c02_ex_hypotheses_satisfiable.
