(* C20  Registration macros are faithful shorthands for the explicit calls.
   Only statements, closed by [exact], pinned by [Check], with their assumptions printed.

   Vocabulary
     macro_arms       gen/MacroArms.v: the arms of every macro_rules! of src/macros.rs as token strings,
                      REGENERATED from the source on every run (tools/macro_arms.py)
     source_table     those arms parsed into matchers / transcribers (Model/MacroRules.v)
     expand_call      full recursive expansion of `name!(args)` to a normal form, arguments being opaque atoms
     all_cases        one invocation case per arm: labels! with 0..4 pairs, opts! with 0..4 label maps, the
                      three histogram_opts! arms, the 44 register_*! / register_*_with_registry! arms, and the
                      internal @of_type arms and exported __register_* helpers
     nfx / render     the explicit-call term a case stands for, and its Rust spelling:
                      { let m = $crate::Type::ctor(<opts>[, labels]).unwrap();
                        <$crate::register | REG.register>(Box::new(m.clone())).map(|()| m) }
     eval_call        the meaning of such a term in the sequential world model (Model/World.v) for a valuation
                      of the atoms: constructor op; panic if refused; else OpRegister on the named/default
                      registry; the handle is the constructor's slot (dead when the invocation is not Ok)

   The repetition lengths 0..4 bound only the EXPANSION statements (c20_arm_expansion); every statement about
   values (names, helps, label maps, label-name lists, bucket lists, registries, worlds) is for all values.
   What ties `expand_call` to rustc's real expander is the compiled harness (harness/src/mac.rs), not a proof. *)
From Coq Require Import String.
Require Import PV.Base.Prelude PV.Base.F64.
Require Import PV.Model.Proto PV.Model.Desc PV.Model.Value PV.Model.Hist PV.Model.Vec PV.Model.Registry PV.Model.World.
Require Import PV.Model.MacroRules PV.Model.Macros PV.Model.MacroCases PV.Model.MacroArmsPinned PV.gen.MacroArms.
Require Import PV.Proofs.C20Facts PV.Spec.SpecC20 PV.Proofs.C20Spec.
Open Scope string_scope.
Open Scope list_scope.

(* ---------------------------------------------------------------------------------------------- *)
(* 1. the source's arms are the arms the model was written against; all of them are covered       *)
(* ---------------------------------------------------------------------------------------------- *)
Theorem c20_inventory : macro_arms = pinned_arms.
Proof. exact inventory_eq. Qed.
Check c20_inventory : macro_arms = pinned_arms.
Print Assumptions c20_inventory.

Theorem c20_all_arms_covered : covered source_table = true /\ length source_table = 26%nat.
Proof. exact all_arms_covered. Qed.
Print Assumptions c20_all_arms_covered.

(* ---------------------------------------------------------------------------------------------- *)
(* 2. every arm, with and without trailing comma, expands to the explicit-call normal form         *)
(* ---------------------------------------------------------------------------------------------- *)
Theorem c20_arm_expansion c comma :
  In c all_cases -> (comma = true -> i_comma c = true) ->
  selected_arm FUEL source_table (i_macro c) (args_of c comma) = Some (i_arm c)
  /\ expand_call source_table (i_macro c) (args_of c comma) = Some (render (i_nf c)).
Proof. exact (all_cases_expand c comma). Qed.
Check c20_arm_expansion : forall c comma, In c all_cases -> (comma = true -> i_comma c = true) ->
  selected_arm FUEL source_table (i_macro c) (args_of c comma) = Some (i_arm c)
  /\ expand_call source_table (i_macro c) (args_of c comma) = Some (render (i_nf c)).
Print Assumptions c20_arm_expansion.

Theorem c20_case_counts : length public_cases = 57%nat /\ length all_cases = 73%nat.
Proof. exact public_cases_count. Qed.

(* two of the cases written out *)
Example c20_arm_register_histogram_vec_with_registry_5 :
  expand_call source_table "register_histogram_vec_with_registry"
    [A "NAME"; T ","; A "HELP"; T ","; A "LABELS"; T ","; A "BUCKETS"; T ","; A "REG"; T ","]
  = Some (render (NCall (mkCall "histogram_vec" KHistogramVec (OH (HBuckets (HNew "NAME" "HELP") "BUCKETS")) (Some "LABELS") (RVar "REG")))).
Proof. vm_compute. reflexivity. Qed.
Example c20_arm_register_int_counter_2 :
  expand_call source_table "register_int_counter" [A "NAME"; T ","; A "HELP"]
  = Some (render (NCall (mkCall "counter" KIntCounter (OO (ONew "NAME" "HELP" [])) None RDefault))).
Proof. vm_compute. reflexivity. Qed.
(* arguments that are themselves macro invocations expand in place *)
Example c20_nested_arguments :
  expand_call source_table "register_int_gauge_vec_with_registry"
    [T "opts"; T "!"; G "(" [A "NAME"; T ","; A "HELP"; T ","; T "labels"; T "!"; G "{" [A "K1"; T "=>"; A "V1"; T ","]]; T ",";
     A "LABELS"; T ","; A "REG"; T ","]
  = Some (render (NCall (mkCall "gauge_vec" KIntGaugeVec (OO (ONew "NAME" "HELP" [LLit [("K1", "V1")]])) (Some "LABELS") (RVar "REG")))).
Proof. exact nested_argument_example. Qed.

(* ---------------------------------------------------------------------------------------------- *)
(* 3. labels!, opts!, histogram_opts! build the options value of the explicit builder calls         *)
(* ---------------------------------------------------------------------------------------------- *)
Theorem c20_labels_value rho kvs k :
  alookup k (ev_lbl rho (LLit kvs))
  = alookup k (rev (map (fun kv : string * string => (v_str rho (fst kv), v_str rho (snd kv))) kvs)).
Proof. exact (labels_macro_lookup rho kvs k). Qed.

Theorem c20_opts_value rho n h ls :
  let o := ev_opts rho (ONew n h ls) in
  o_namespace o = [] /\ o_subsystem o = [] /\ o_name o = v_str rho n /\ o_help o = v_str rho h /\ o_vars o = []
  /\ opts_fq_name o = v_str rho n
  /\ forall k, alookup k (o_consts o) = lookup_maps k (map (ev_lbl rho) ls) None.
Proof. exact (opts_macro_value rho n h ls). Qed.
Print Assumptions c20_opts_value.

Theorem c20_histogram_opts_value rho n h b cl :
  ev_hopts rho (HNew n h) = mkHOpts (mkOpts [] [] (v_str rho n) (v_str rho h) [] []) DEFAULT_BUCKETS
  /\ ev_hopts rho (HBuckets (HNew n h) b) = mkHOpts (mkOpts [] [] (v_str rho n) (v_str rho h) [] []) (v_f64s rho b)
  /\ ev_hopts rho (HConsts (HBuckets (HNew n h) b) (LVar cl))
     = mkHOpts (mkOpts [] [] (v_str rho n) (v_str rho h) (v_map rho cl) []) (v_f64s rho b).
Proof. exact (hopts_macro_value rho n h b cl). Qed.
Print Assumptions c20_histogram_opts_value.

(* ---------------------------------------------------------------------------------------------- *)
(* 4. a register_* invocation = explicit constructor, then register on the named / default registry *)
(* ---------------------------------------------------------------------------------------------- *)
(* the metric created by the explicit constructor has the fully-qualified name, help, constant
   labels, variable label names and buckets of the options value *)
Theorem c20_created_metric cop x o bs :
  ctor_result cop = Some (Ok x) -> ctor_opts cop = Some (o, bs) ->
  d_fq_name (created_desc x) = opts_fq_name o
  /\ d_help (created_desc x) = o_help o
  /\ d_const_pairs (created_desc x) = pairs_obs (o_consts o)
  /\ d_vars (created_desc x) = o_vars o
  /\ match bs, cop with
     | None, _ => created_buckets x = None
     | Some b, OpHistogram _ => exists b', check_and_adjust_buckets b = Some b' /\ created_buckets x = Some b'
     | Some b, _ => created_buckets x = Some b
     end.
Proof. exact (created_metric cop x o bs). Qed.
Print Assumptions c20_created_metric.

(* constructor refused: the invocation panics (the macros unwrap), nothing else changes *)
Theorem c20_ctor_refused_panics rho dflt c w cop e :
  ctor_op rho c = Some cop -> ctor_result cop = Some (Err e) ->
  eval_call rho dflt c w = (push_slot w HDead, OPanic).
Proof. intros H1 H2. exact (eval_call_ctor_err rho dflt c w cop H1 e H2). Qed.

(* constructor accepted: the invocation is `register` of that very metric on the registry named in
   the call (the default registry when none is named) *)
Theorem c20_call_is_ctor_then_register rho dflt c w cop x ri rc :
  ctor_op rho c = Some cop -> ctor_result cop = Some (Ok x) ->
  slot w (reg_slot rho dflt (c_reg c)) = HRegistry ri -> (reg_slot rho dflt (c_reg c) < length (w_slots w))%nat ->
  nth_error (w_reg w) ri = Some rc ->
  eval_call rho dflt c w =
  match reg_register rc [created_desc x] (created_collector w x) with
  | Ok rc' => (set_reg (push_slot (fst (install w x)) (snd (install w x))) (list_set (w_reg w) ri rc'), ORes (Ok Datatypes.tt))
  | Err e => (put_slot (push_slot (fst (install w x)) (snd (install w x))) (length (w_slots w)) HDead, ORes (Err e))
  end.
Proof. intros H1 H2 H3 H4 H5. exact (eval_call_unfold rho dflt c w cop H1 x H2 ri rc H3 H4 H5). Qed.
Check c20_call_is_ctor_then_register.
Print Assumptions c20_call_is_ctor_then_register.

(* accepted registration: Ok; only the targeted registry changes, by one collector; the returned
   handle (slot s) and that collector are the same metric; earlier handles are untouched *)
Theorem c20_registers_in_named_registry rho dflt c w cop x ri rc rc' :
  ctor_op rho c = Some cop -> ctor_result cop = Some (Ok x) ->
  slot w (reg_slot rho dflt (c_reg c)) = HRegistry ri -> (reg_slot rho dflt (c_reg c) < length (w_slots w))%nat ->
  nth_error (w_reg w) ri = Some rc ->
  reg_register rc [created_desc x] (created_collector w x) = Ok rc' ->
  let w2 := fst (eval_call rho dflt c w) in let s := length (w_slots w) in
  snd (eval_call rho dflt c w) = ORes (Ok Datatypes.tt)
  /\ w_reg w2 = list_set (w_reg w) ri rc'
  /\ (forall j, j <> ri -> nth_error (w_reg w2) j = nth_error (w_reg w) j)
  /\ nth_error (w_reg w2) ri = Some rc'
  /\ (exists cid, r_collectors rc' = r_collectors rc ++ [(cid, created_collector w x)])
  /\ r_prefix rc' = r_prefix rc /\ r_labels rc' = r_labels rc
  /\ slot w2 s = snd (install w x)
  /\ collector_of w2 (slot w2 s) = Some (created_collector w x, [created_desc x])
  /\ forall i, (i < s)%nat -> slot w2 i = slot w i.
Proof. intros H1 H2 H3 H4 H5 H6. exact (eval_call_accepted rho dflt c w cop H1 x H2 ri rc H3 H4 H5 rc' H6). Qed.
Check c20_registers_in_named_registry.
Print Assumptions c20_registers_in_named_registry.

(* refused registration: the invocation evaluates to that Err, leaves no handle and changes no registry *)
Theorem c20_refused_is_err rho dflt c w cop x ri rc e :
  ctor_op rho c = Some cop -> ctor_result cop = Some (Ok x) ->
  slot w (reg_slot rho dflt (c_reg c)) = HRegistry ri -> (reg_slot rho dflt (c_reg c) < length (w_slots w))%nat ->
  nth_error (w_reg w) ri = Some rc ->
  reg_register rc [created_desc x] (created_collector w x) = Err e ->
  snd (eval_call rho dflt c w) = ORes (Err e)
  /\ w_reg (fst (eval_call rho dflt c w)) = w_reg w
  /\ slot (fst (eval_call rho dflt c w)) (length (w_slots w)) = HDead
  /\ forall i, (i < length (w_slots w))%nat -> slot (fst (eval_call rho dflt c w)) i = slot w i.
Proof. intros H1 H2 H3 H4 H5 H6. exact (eval_call_refused rho dflt c w cop H1 x H2 ri rc H3 H4 H5 e H6). Qed.
Check c20_refused_is_err.
Print Assumptions c20_refused_is_err.

(* the returned handle is the registered metric: an increment through it is what the targeted
   registry's next gather collects (scalar counters and gauges; for histograms and vectors the
   identity is the structural one of c20_registers_in_named_registry) *)
Theorem c20_update_through_handle_is_gathered rho dflt c w cop vc ri rc rc' :
  ctor_op rho c = Some cop -> ctor_result cop = Some (Ok (CrV vc)) ->
  let rs := reg_slot rho dflt (c_reg c) in let s := length (w_slots w) in
  slot w rs = HRegistry ri -> (rs < length (w_slots w))%nat -> nth_error (w_reg w) ri = Some rc ->
  reg_register rc [vc_desc vc] (CValue (length (w_v w))) = Ok rc' ->
  let w2 := fst (eval_call rho dflt c w) in
  let w3 := fst (step w2 (OpInc s)) in
  let one := match vc_val vc with VF _ => VF f_one | VU _ => VU 1%N | VI _ => VI 1%Z end in
  snd (step w2 (OpInc s)) = OUnit
  /\ match step w3 (OpGather rs) with
     | (_, OFams g) => exists fs, g = gather_families (r_prefix rc) (r_labels rc) fs
                                  /\ In (value_collect (mkVCore (vc_desc vc) (vc_type vc) (num_add (vc_val vc) one) (vc_labels vc))) fs
     | (_, o) => o = OHung
     end.
Proof. exact (call_inc_gather rho dflt c w cop vc ri rc rc'). Qed.
Print Assumptions c20_update_through_handle_is_gathered.

(* ---------------------------------------------------------------------------------------------- *)
(* 4b. the executable spec (written from the property text, Spec/SpecC20.v) holds of the model         *)
(* ---------------------------------------------------------------------------------------------- *)
(* For EVERY arm of the harness table (all 44 register arms and the labels! / opts! / histogram_opts! arms, whatever
   the trailing comma) and EVERY value set - all names, help texts, label maps, label-name and label-value lists,
   bucket lists, observed values, arm ids - whose custom registry Registry::new_custom accepts (valid prefix and
   common label names, no common label le): the spec that the per-run check evaluates on the implementation's
   observations is true of the model's own macro-side and twin-side observations.  Clause by clause: same result
   kind (Ok / the register's Err / not Ok when the constructor refuses), same descriptor, same reaction to the
   update, the targeted registry gathers as for the explicit call and is non-empty after a successful update,
   the other registry stays empty, the duplicate is refused, nothing is registered when the invocation is not Ok. *)
Theorem c20_spec_model (c : armrun) :
  arm_in_table c = true -> vs_in_domain (ar_vs c) = true ->
  spec_c20 (ar_shape c) (model_mac c) (model_twin c) = true.
Proof. exact (spec_model c). Qed.
Check c20_spec_model : forall c : armrun, arm_in_table c = true -> vs_in_domain (ar_vs c) = true ->
  spec_c20 (ar_shape c) (model_mac c) (model_twin c) = true.
Print Assumptions c20_spec_model.

(* non-vacuity: a value set of the generator (prefix "my_prefix", a common label, label names, buckets) is in the
   domain, its arm is in the table, and the model's macro side really reports an accepted registration *)
Definition c20_ex_vs : vset :=
  mkVS [98;98;48;95;115;48]%N [104]%N [] [] [([122;111;110;101], [97;98])]%N [] [] [] [[97]]%N [[120;32;121]]%N
       [bits2f 0x3fb999999999999a%N; bits2f 0x3ff0000000000000%N] (bits2f 0x3fe0000000000000%N)
       (Some [109;121;95;112;114;101;102;105;120]%N) (Some [([101;110;118], [112])]%N).
Definition c20_ex_run : armrun :=
  mkRun c20_ex_vs 86 "register_histogram_vec_with_registry" 2 5 (ShReg true true) (AReg KHistogramVec FHB) [] [].
Example c20_spec_model_nonvacuous :
  arm_in_table c20_ex_run = true /\ vs_in_domain c20_ex_vs = true
  /\ nth_error (model_mac c20_ex_run) 2 = Some (ORes (Ok Datatypes.tt))
  /\ (exists f, nth_error (model_mac c20_ex_run) 7 = Some (OFams [f])).
Proof. vm_compute. repeat split; eauto. Qed.

(* ---------------------------------------------------------------------------------------------- *)
(* 5. non-vacuity: the three outcomes occur in a concrete world                                     *)
(* ---------------------------------------------------------------------------------------------- *)
(* registry 0 = default, registry 1 has prefix "p"; register_counter_with_registry!("x", "h", reg1):
   Ok, the increment is gathered from reg1 under "p_x", the default registry stays empty, the same
   invocation again is Err(AlreadyReg) *)
Example c20_example_ok_then_duplicate :
  mrun ex_rho 0 ex_world [MCall ex_call; MOp (OpInc 2); MOp (OpGather 1); MOp (OpGather 0); MCall ex_call]
  = [ORes (Ok Datatypes.tt); OUnit;
     OFams [mkMF [112; 95; 120]%N [104%N] COUNTER [mkMetric [] None (Some (bits2f 0x3ff0000000000000%N)) None None None None]];
     OFams []; ORes (Err EAlreadyReg)].
Proof. exact ex_ok_then_duplicate_err. Qed.
(* an options value with an empty name: the constructor refuses, the invocation panics *)
Example c20_example_ctor_refused :
  mrun ex_rho 0 ex_world [MCall (mkCall "counter" KCounter (OO (OVar "OPTS")) None RDefault); MOp (OpGather 0)] = [OPanic; OFams []].
Proof. exact ex_ctor_refused_panics. Qed.
