(* C07  gather() is complete, canonically ordered and deterministic.
   Only statements, closed by [exact], pinned by [Check], with their assumptions printed.

   Vocabulary (Proofs/GatherFacts.v; [collected] = the families returned by the collect() calls
   of the registered collectors, in the order the registry's HashMap happens to iterate them):
     fams_of n collected     the non-empty collected families named n, in iteration order
     metrics_of n collected  all their samples
     pname p n               n with the registry prefix:  p ++ "_" ++ n
     common_pairs l          the common labels as pairs sorted by name
     with_common l ms        every sample of ms with the common pairs appended to its labels
     gathered_family p l collected n   what gather must return under the name (pname p n)
   Hash seeds / HashMap iteration orders are modelled by quantifying over all permutations of
   the collected list (collectors), of each family's sample list (a vector's children) and of
   the common-label list. *)
Require Import PV.Base.Prelude PV.Base.F64 PV.Base.SortFacts.
Require Import PV.Model.Proto PV.Model.Desc PV.Model.Value PV.Model.Registry PV.Proofs.GatherFacts.
From Coq Require Import Permutation Sorting.Sorted.

(* the comparator of gather's sort_by is a total preorder (so that "sorted" is meaningful and the
   stable sort is well defined) *)
Theorem c07_comparator_total_preorder :
  (forall x y, metric_leb x y = true \/ metric_leb y x = true)
  /\ (forall x y z, metric_leb x y = true -> metric_leb y z = true -> metric_leb x z = true).
Proof. split; [exact metric_leb_total|exact metric_leb_trans]. Qed.

(* family names strictly increase (byte order), with or without a prefix *)
Theorem c07_sorted_names p l collected :
  StronglySorted (fun a b => str_cmp a b = Lt) (map mf_name (gather_families p l collected)).
Proof. exact (gather_sorted_names p l collected). Qed.

(* one family per name: the exact content of the result under every name ... *)
Theorem c07_one_family_per_name p l collected n :
  fam_lookup (pname p n) (gather_families p l collected) =
  match fams_of n collected with
  | [] => None
  | f :: _ => Some (mkMF (pname p n) (mf_help f) (mf_type f)
                         (with_common l (sort_by metric_leb (metrics_of n collected))))
  end.
Proof. exact (gather_lookup p l collected n). Qed.
(* ... and nothing else appears *)
Theorem c07_nothing_else p l collected g :
  In g (gather_families p l collected) ->
  exists n, mf_name g = pname p n /\ gathered_family p l collected n = Some g.
Proof. exact (gather_In p l collected g). Qed.

(* completeness: a name is present iff some collected family of that name has a sample, and then
   the family holds every sample of every such family exactly once (a permutation) *)
Theorem c07_complete p l collected n :
  match fam_lookup (pname p n) (gather_families p l collected) with
  | Some g => fams_of n collected <> [] /\ Permutation (mf_metric g) (with_common l (metrics_of n collected))
  | None => fams_of n collected = []
  end.
Proof. exact (gather_complete p l collected n). Qed.
Theorem c07_no_empty_family p l collected g : In g (gather_families p l collected) -> mf_metric g <> [].
Proof. exact (gather_no_empty_family p l collected g). Qed.

(* the samples of every family are sorted by the comparator: label count, then label values
   position-wise, then timestamp *)
Theorem c07_sorted_samples p l collected g :
  In g (gather_families p l collected) -> StronglySorted (fun a b => metric_leb a b = true) (mf_metric g).
Proof. exact (gather_sorted_samples p l collected g). Qed.
(* what the comparator means for samples with equally many labels and different value tuples:
   plain lexicographic order of the tuples *)
Theorem c07_comparator_lexicographic m1 m2 :
  length (m_label m1) = length (m_label m2) -> label_values m1 <> label_values m2 ->
  metric_cmp m1 m2 = lcmp str_cmp (label_values m1) (label_values m2).
Proof. exact (metric_cmp_values m1 m2). Qed.

(* help and type are those declared by a collected family of that name; by every one of them
   when same-name families agree *)
Theorem c07_help_type p l collected g :
  In g (gather_families p l collected) ->
  exists f, In f collected /\ mf_metric f <> [] /\ mf_name g = pname p (mf_name f)
            /\ mf_help g = mf_help f /\ mf_type g = mf_type f.
Proof. exact (gather_help_type p l collected g). Qed.
Theorem c07_help_type_unique p l collected g f :
  agree_help_type collected ->
  In g (gather_families p l collected) -> In f collected -> mf_metric f <> [] -> mf_name g = pname p (mf_name f) ->
  mf_help g = mf_help f /\ mf_type g = mf_type f.
Proof. exact (gather_help_type_unique p l collected g f). Qed.

(* prefix and common labels are applied to every family and every sample, after merging and sorting *)
Theorem c07_prefix_labels_applied p l collected :
  Forall2 (fun g g0 =>
             mf_name g = pname p (mf_name g0) /\ mf_help g = mf_help g0 /\ mf_type g = mf_type g0
             /\ Forall2 (fun m m0 => m_label m = m_label m0 ++ match l with Some l => common_pairs l | None => [] end
                                     /\ m_gauge m = m_gauge m0 /\ m_counter m = m_counter m0 /\ m_summary m = m_summary m0
                                     /\ m_untyped m = m_untyped m0 /\ m_histogram m = m_histogram m0 /\ m_ts m = m_ts m0)
                        (mf_metric g) (mf_metric g0))
          (gather_families p l collected) (gather_families None None collected).
Proof. exact (gather_prefix_labels_pointwise p l collected). Qed.
Theorem c07_common_labels_sorted l :
  StronglySorted (fun a b => str_leb (lp_name a) (lp_name b) = true) (common_pairs l)
  /\ Permutation (common_pairs l) (map (fun kv => mkLP (fst kv) (snd kv)) l).
Proof. split; [exact (common_pairs_sorted l)|exact (common_pairs_Perm l)]. Qed.

(* ---- determinism: the result does not depend on any iteration order ----
   (H1) agree_help_type: non-empty families of one name declare the same help and type (the help
        part is enforced by registration through the dimension hash; the type part is C14's
        hypothesis and C14 owns its failure);
   (H2) cmp_separates: samples that meet in one family and compare Equal are the same sample
        (for the library's collectors: distinct samples of one name differ in a label value). *)
Theorem c07_perm_invariant p l collected collected' :
  Permutation collected collected' ->
  agree_help_type collected -> cmp_separates collected ->
  gather_families p l collected = gather_families p l collected'.
Proof. exact (gather_perm_invariant p l collected collected'). Qed.

(* the same with, in addition, every vector iterating its children in another order *)
Theorem c07_order_invariant p l collected mid collected' :
  Permutation collected mid -> Forall2 fam_perm mid collected' ->
  agree_help_type collected -> cmp_separates collected ->
  gather_families p l collected = gather_families p l collected'.
Proof. exact (gather_order_invariant p l collected mid collected'). Qed.

(* the common-label map in any iteration order (its keys are distinct: it is a map) *)
Theorem c07_labels_perm_invariant p l l' mf :
  Permutation l l' -> NoDup (map fst l) -> apply_prefix_labels p (Some l) mf = apply_prefix_labels p (Some l') mf.
Proof. exact (apply_prefix_labels_perm p l l' mf). Qed.
Theorem c07_gather_labels_perm_invariant p l l' collected :
  Permutation l l' -> NoDup (map fst l) -> gather_families p (Some l) collected = gather_families p (Some l') collected.
Proof. exact (gather_labels_perm_invariant p l l' collected). Qed.

(* (H2) for the library's collectors: it holds as soon as the label-value tuples of the samples
   of one name are pairwise distinct *)
Theorem c07_h2_for_library collected :
  (forall n, NoDup (map label_values (metrics_of n collected))) -> cmp_separates collected.
Proof. exact (cmp_separates_if_values_distinct collected). Qed.

Check c07_sorted_names : forall p l collected,
  StronglySorted (fun a b => str_cmp a b = Lt) (map mf_name (gather_families p l collected)).
Check c07_complete : forall p l collected n,
  match fam_lookup (pname p n) (gather_families p l collected) with
  | Some g => fams_of n collected <> [] /\ Permutation (mf_metric g) (with_common l (metrics_of n collected))
  | None => fams_of n collected = []
  end.
Check c07_sorted_samples : forall p l collected g,
  In g (gather_families p l collected) -> StronglySorted (fun a b => metric_leb a b = true) (mf_metric g).
Check c07_perm_invariant : forall p l collected collected',
  Permutation collected collected' -> agree_help_type collected -> cmp_separates collected ->
  gather_families p l collected = gather_families p l collected'.
Check c07_labels_perm_invariant : forall p l l' mf,
  Permutation l l' -> NoDup (map fst l) -> apply_prefix_labels p (Some l) mf = apply_prefix_labels p (Some l') mf.

Print Assumptions c07_comparator_total_preorder.
Print Assumptions c07_sorted_names.
Print Assumptions c07_one_family_per_name.
Print Assumptions c07_nothing_else.
Print Assumptions c07_complete.
Print Assumptions c07_no_empty_family.
Print Assumptions c07_sorted_samples.
Print Assumptions c07_comparator_lexicographic.
Print Assumptions c07_help_type.
Print Assumptions c07_help_type_unique.
Print Assumptions c07_prefix_labels_applied.
Print Assumptions c07_common_labels_sorted.
Print Assumptions c07_perm_invariant.
Print Assumptions c07_order_invariant.
Print Assumptions c07_labels_perm_invariant.
Print Assumptions c07_gather_labels_perm_invariant.
Print Assumptions c07_h2_for_library.

(* ---- the executable spec written from the property text holds of the model (Proofs/C07Spec*.v), for all histories of
   all operations except OpCustom outside the recorded mixed-kinds
   class; inside that class everything but the family type holds *)
Require Import PV.Model.World PV.Spec.SpecC07 PV.Proofs.C07SpecRegs.
Require Export PV.Proofs.C07SpecPinned.
Check c07_spec_of_model : forall ops, dom07 ops = true ->
  spec_c07 ops (run world0 ops) = true \/ known_mixed_kinds ops (run world0 ops) = true.
Check c07_spec_of_model_strict : forall ops, dom07 ops = true ->
  mixed_kinds_registered ops (run world0 ops) = false -> spec_c07 ops (run world0 ops) = true.
Check c07_known_class_delimited : forall ops, dom07 ops = true ->
  mixed_kinds_registered ops (run world0 ops) = true -> known_mixed_kinds ops (run world0 ops) = true.
Check c07_spec_of_model_custom : forall ops, PV.Proofs.C07SpecCustomRegs.dom07c ops = true ->
  spec_c07 ops (run world0 ops) = true \/ known_mixed_kinds ops (run world0 ops) = true.
Check c07_spec_of_model_strict_custom : forall ops, PV.Proofs.C07SpecCustomRegs.dom07c ops = true ->
  mixed_kinds_registered ops (run world0 ops) = false -> spec_c07 ops (run world0 ops) = true.
