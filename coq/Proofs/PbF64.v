(* The 64-bit pattern of a float determines the float: bits2f (f2bits x) = x.
   (f2bits is what rust-protobuf writes for a double, up to the NaN payload, which Coq's floats do
   not have; the wire-level model of Model/Pb.v therefore works on patterns, and this lemma lets the
   executable spec read decoded patterns back as the library-level values.) *)
Require Import PV.Base.Prelude PV.Base.F64.
From Coq Require Import ZArith Lia.
Open Scope Z_scope.

Lemma digits2_pos_upper m : Zpos m < 2 ^ Zpos (digits2_pos m).
Proof.
  induction m as [m IH|m IH|]; cbn [digits2_pos].
  - rewrite Pos2Z.inj_succ, Z.pow_succ_r by lia. rewrite (Pos2Z.inj_xI m). lia.
  - rewrite Pos2Z.inj_succ, Z.pow_succ_r by lia. rewrite (Pos2Z.inj_xO m). lia.
  - reflexivity.
Qed.
Lemma digits2_pos_lower m : 2 ^ (Zpos (digits2_pos m) - 1) <= Zpos m.
Proof.
  induction m as [m IH|m IH|]; cbn [digits2_pos].
  - rewrite Pos2Z.inj_succ. replace (Z.succ (Zpos (digits2_pos m)) - 1) with (Z.succ (Zpos (digits2_pos m) - 1)) by lia.
    rewrite Z.pow_succ_r by lia. rewrite (Pos2Z.inj_xI m). set (p := 2 ^ _) in *. lia.
  - rewrite Pos2Z.inj_succ. replace (Z.succ (Zpos (digits2_pos m)) - 1) with (Z.succ (Zpos (digits2_pos m) - 1)) by lia.
    rewrite Z.pow_succ_r by lia. rewrite (Pos2Z.inj_xO m). set (p := 2 ^ _) in *. lia.
  - cbn. lia.
Qed.

Definition P52 : Z := 4503599627370496.
Definition P63 : Z := 9223372036854775808.

(* sign, exponent field and mantissa field of a pattern assembled from them *)
Lemma fields (s : bool) E mm :
  0 <= E < 2048 -> 0 <= mm < P52 ->
  let b := (if s then P63 else 0) + E * P52 + mm in
  Z.testbit b 63 = s /\ Z.land (Z.shiftr b 52) 2047 = E /\ Z.land b (Z.ones 52) = mm.
Proof.
  intros HE Hm b. unfold P52, P63 in *.
  set (S := if s then 1 else 0).
  assert (HS : 0 <= S <= 1) by (destruct s; cbn; lia).
  assert (Eb : b = S * 9223372036854775808 + E * 4503599627370496 + mm) by (unfold b, S; destruct s; lia).
  split; [|split].
  - assert (Q : b / 2 ^ 63 = S).
    { symmetry. apply (Z.div_unique b (2 ^ 63) S (E * 4503599627370496 + mm)).
      - left. change (2 ^ 63) with 9223372036854775808. lia.
      - change (2 ^ 63) with 9223372036854775808. lia. }
    destruct s; cbn in S.
    + apply Z.testbit_true; [lia|]. rewrite Q. reflexivity.
    + apply Z.testbit_false; [lia|]. rewrite Q. reflexivity.
  - rewrite Z.shiftr_div_pow2 by lia. change 2047 with (Z.ones 11). rewrite Z.land_ones by lia.
    assert (Q : b / 2 ^ 52 = S * 2048 + E).
    { symmetry. apply (Z.div_unique b (2 ^ 52) (S * 2048 + E) mm).
      - left. change (2 ^ 52) with 4503599627370496. lia.
      - change (2 ^ 52) with 4503599627370496. lia. }
    rewrite Q. symmetry. apply (Z.mod_unique (S * 2048 + E) (2 ^ 11) S E).
    + left. change (2 ^ 11) with 2048. lia.
    + change (2 ^ 11) with 2048. lia.
  - rewrite Z.land_ones by lia. symmetry.
    apply (Z.mod_unique b (2 ^ 52) (S * 2048 + E) mm).
    + left. change (2 ^ 52) with 4503599627370496. lia.
    + change (2 ^ 52) with 4503599627370496. lia.
Qed.

Lemma lor_implicit_bit mm : 0 <= mm < P52 -> Z.lor mm P52 = mm + P52.
Proof.
  intros H. unfold P52 in *.
  assert (L : Z.land mm 4503599627370496 = 0).
  { assert (E : mm = Z.land mm (Z.ones 52)).
    { rewrite Z.land_ones by lia. symmetry. apply Z.mod_small. change (2 ^ 52) with 4503599627370496. lia. }
    rewrite E, <- Z.land_assoc. change (Z.land (Z.ones 52) 4503599627370496) with 0. apply Z.land_0_r. }
  rewrite <- Z.lxor_lor by exact L. symmetry. apply Z.add_nocarry_lxor. exact L.
Qed.

Lemma bits2sf_sf2bits x : valid_binary x = true -> bits2sf (sf2bits x) = x.
Proof.
  destruct x as [s|s| |s m e]; intros V.
  - destruct s; reflexivity.
  - destruct s; reflexivity.
  - reflexivity.
  - unfold valid_binary, SpecFloat.valid_binary, bounded, canonical_mantissa in V.
    apply andb_prop in V. destruct V as [V1 V2]. apply Zeq_bool_eq in V1. apply Z.leb_le in V2.
    unfold fexp, emin, emax, prec in V1, V2.
    pose proof (digits2_pos_upper m) as DU. pose proof (digits2_pos_lower m) as DL.
    set (d := Zpos (digits2_pos m)) in *.
    assert (Hd1 : 1 <= d) by (unfold d; lia).
    unfold sf2bits. change (Z.shiftl 1 52) with P52. change (Z.shiftl 1 63) with P63.
    destruct (Z.ltb_spec (Zpos m) P52) as [Hsub|Hnorm].
    + (* subnormal *)
      assert (Hd : d <= 52).
      { destruct (Z_le_gt_dec d 52) as [|G]; [assumption|exfalso].
        assert (2 ^ 52 <= 2 ^ (d - 1)) by (apply Z.pow_le_mono_r; lia).
        change (2 ^ 52) with P52 in *. lia. }
      assert (He : e = -1074) by lia. subst e.
      pose proof (fields s 0 (Zpos m) ltac:(lia) ltac:(lia)) as F. cbv zeta in F.
      replace ((if s then P63 else 0) + 0 * P52 + Zpos m) with ((if s then P63 else 0) + Zpos m) in F by lia.
      destruct F as (F1 & F2 & F3). unfold bits2sf. rewrite F1, F2, F3. reflexivity.
    + (* normal *)
      assert (Hd : d = 53).
      { assert (d <= 53) by lia.
        destruct (Z_le_gt_dec d 52) as [L|G]; [exfalso|lia].
        assert (2 ^ d <= 2 ^ 52) by (apply Z.pow_le_mono_r; lia).
        change (2 ^ 52) with P52 in *. lia. }
      rewrite Hd in DU. change (2 ^ 53) with (2 * P52) in DU.
      assert (He : -1074 <= e <= 971) by lia.
      rewrite Z.shiftl_mul_pow2 by lia. change (2 ^ 52) with P52.
      pose proof (fields s (e + 1075) (Zpos m - P52) ltac:(lia) ltac:(lia)) as F. cbv zeta in F.
      destruct F as (F1 & F2 & F3). unfold bits2sf. rewrite F1, F2, F3.
      destruct (Z.eqb_spec (e + 1075) 2047) as [X|_]; [lia|].
      destruct (Z.eqb_spec (e + 1075) 0) as [X|_]; [lia|].
      change (Z.shiftl 1 52) with P52. rewrite lor_implicit_bit by lia.
      replace (Zpos m - P52 + P52) with (Zpos m) by lia.
      replace (e + 1075 - 1075) with e by lia. reflexivity.
Qed.

Lemma sf2bits_nonneg x : valid_binary x = true -> 0 <= sf2bits x.
Proof.
  destruct x as [s|s| |s m e]; intros V.
  - destruct s; vm_compute; congruence.
  - destruct s; vm_compute; congruence.
  - vm_compute; congruence.
  - unfold valid_binary, SpecFloat.valid_binary, bounded, canonical_mantissa in V.
    apply andb_prop in V. destruct V as [V1 V2]. apply Zeq_bool_eq in V1. apply Z.leb_le in V2.
    unfold fexp, emin, emax, prec in V1, V2.
    unfold sf2bits. change (Z.shiftl 1 52) with P52. change (Z.shiftl 1 63) with P63.
    assert (He : -1074 <= e) by lia.
    destruct (Z.ltb_spec (Zpos m) P52).
    + destruct s; unfold P63; lia.
    + rewrite Z.shiftl_mul_pow2 by lia. change (2 ^ 52) with P52. unfold P52, P63 in *. destruct s; nia.
Qed.

Theorem bits2f_f2bits x : bits2f (f2bits x) = x.
Proof.
  unfold bits2f, f2bits. rewrite Z2N.id by (apply sf2bits_nonneg, Prim2SF_valid).
  rewrite bits2sf_sf2bits by apply Prim2SF_valid. apply SF2Prim_Prim2SF.
Qed.
