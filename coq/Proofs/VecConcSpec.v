(* C10: the executable (relaxed) spec of Spec/SpecC10.v on validated traces - the clauses that are proved.
   Bridge: the call records the spec extracts from the visible events of a model path are exactly the model's ghost
   call records, with event indices = number of visible labels before the recorded time. *)
Require Import PV.Base.Prelude PV.Base.StrFacts PV.Model.Conc PV.Model.VecConc PV.Spec.SpecC10.
Require Import PV.Proofs.VecConcBase PV.Proofs.VecConcLin PV.Proofs.VecConcFacts PV.Proofs.VecConcRT.
From Coq Require Import Arith Lia Permutation Sorted.
Open Scope nat_scope.

(* ------------------------------------------------------------------ event index of a trace position *)
Fixpoint evpos (tr : list label) (i : nat) : nat :=
  match i, tr with
  | O, _ => 0
  | S _, [] => 0
  | S i', l :: r => (match l with LE _ => 1 | LTau _ => 0 end) + evpos r i'
  end.
Lemma evpos_snoc tr l i : i <= length tr -> evpos (tr ++ [l]) i = evpos tr i.
Proof.
  revert i; induction tr as [|x tr IH]; intros [|i] H; cbn in *; auto; try lia. rewrite IH by lia. auto.
Qed.
Lemma evpos_full tr : evpos tr (length tr) = length (visible tr).
Proof.
  induction tr as [|x tr IH]; cbn; auto. unfold visible in *. cbn. rewrite app_length, IH. destruct x; auto.
Qed.
Lemma evpos_mono tr i j : i <= j -> evpos tr i <= evpos tr j.
Proof.
  revert i j; induction tr as [|x tr IH]; intros [|i] [|j] H; cbn; try lia. specialize (IH i j). lia.
Qed.
Lemma evpos_strict tr i j e : nth_error tr i = Some (LE e) -> i < j -> evpos tr i < evpos tr j.
Proof.
  revert i j; induction tr as [|x tr IH]; intros [|i] [|j] Hn H; cbn in *; try discriminate; try lia.
  - inversion Hn; subst. lia.
  - specialize (IH i j Hn). lia.
Qed.
Lemma evpos_lt_inv tr i j e : nth_error tr j = Some (LE e) -> evpos tr i <= evpos tr j -> i <= j.
Proof.
  intros Hn H. destruct (Nat.le_gt_cases i j); auto. pose proof (evpos_strict tr j i e Hn ltac:(lia)). lia.
Qed.

(* ------------------------------------------------------------------ what a step does to the call records *)
Definition quiet (l : label) : Prop :=
  match l with LTau _ | LE (EAt _ _ _ _ _ _ _ _) | LE (ELock _ _ _ _) | LE (EUnlock _ _ _) => True | _ => False end.

Lemma step0_calls s l s' : step0 s l = Some s' ->
  (exists t c, l = LE (ECall t c) /\ v_pc s t = PIdle /\ g_open s' = updf (g_open s) t (Some (c, g_now s)) /\ g_done s' = g_done s)
  \/ (exists t r c ti, l = LE (ERet t r) /\ g_open s t = Some (c, ti) /\ g_open s' = updf (g_open s) t None
                       /\ g_done s' = (t, c, r, ti, g_now s) :: g_done s)
  \/ (quiet l /\ g_open s' = g_open s /\ g_done s' = g_done s).
Proof.
  intros H. inv_step H.
  all: try solve [right; right; repeat split; reflexivity].
  all: try solve [left; eexists _, _; repeat split; eauto].
  right; left. match goal with Hr : retv_eqb _ _ = true |- _ => apply retv_eqb_eq in Hr; subst end. eexists _, _, _, _; repeat split; eauto.
Qed.

Lemma step0_tid s l s' : step0 s l = Some s' ->
  exists t, lab_tid l = Some t /\ (forall u, u <> t -> v_pc s' u = v_pc s u) /\ (l = LTau t -> v_pc s t <> PIdle).
Proof.
  intros H. inv_step H; exists t; cbn.
  all: (split; [reflexivity|]; split; [intros u Hu; sproj; rewrite ?updf_other by auto; reflexivity|]).
  all: try discriminate.
  all: intros _; match goal with E : v_pc _ _ = _ |- _ => rewrite E; discriminate end.
Qed.

(* a thread that is not idle has an event in the trace *)
Lemma busy_has_event nl tr s t : reach nl tr s -> v_pc s t <> PIdle -> exists e, In e (visible tr) /\ ev_tid e = Some t.
Proof.
  intros R; induction R as [|tr s l s' R IH Hs]; intros Hb; [cbn in Hb; tauto|].
  unfold step in Hs. destruct (step0 s l) as [s0|] eqn:E; [|discriminate]. inversion Hs; subst s'. cbn [v_pc tick] in Hb.
  destruct (step0_tid s l s0 E) as (t' & Ht & Hother & Htau). rewrite visible_app.
  assert (Hold : v_pc s t <> PIdle -> exists e, In e (visible tr ++ visible [l]) /\ ev_tid e = Some t).
  { intros H. destruct (IH H) as (e & A & B). exists e. split; auto. apply in_app_iff; auto. }
  destruct (Nat.eq_dec t t') as [->|Hn]; [|apply Hold; rewrite <- Hother; auto].
  destruct l as [e|u]; cbn in Ht.
  - exists e. split; auto. apply in_app_iff. right. cbn. auto.
  - inversion Ht; subst. apply Hold. apply Htau; auto.
Qed.

(* ------------------------------------------------------------------ the spec's extraction = the model's call records *)
Definition conv (tr : list label) (d : drec) : crec :=
  match d with (t, c, r, ti, trr) => {| c_t := t; c_call := c; c_ret := r; c_ci := N.of_nat (evpos tr ti); c_ri := N.of_nat (evpos tr trr) |} end.

Record XInv (tr : list label) (s : vstate) (X : xst) : Prop := {
  X_ok : x_ok X = true;
  X_done : x_done X = map (conv tr) (rev (g_done s));
  X_open : forall t, open_get t (x_open X) = option_map (fun ct => (fst ct, N.of_nat (evpos tr (snd ct)))) (g_open s t);
  X_nd : NoDup (map fst (x_open X)) }.

Lemma open_get_None t l : open_get t l = None <-> ~ In t (map fst l).
Proof.
  induction l as [|[u x] l IH]; cbn; [tauto|]. destruct (Nat.eqb u t) eqn:E.
  - apply Nat.eqb_eq in E. split; [discriminate | intros H; exfalso; auto].
  - apply Nat.eqb_neq in E. rewrite IH. tauto.
Qed.
Lemma open_del_In t l u x : In (u, x) (open_del t l) -> In (u, x) l.
Proof. induction l as [|[v y] l IH]; cbn; auto. destruct (Nat.eqb v t); cbn; [auto | intros [H|H]; auto]. Qed.
Lemma open_del_NoDup t l : NoDup (map fst l) -> NoDup (map fst (open_del t l)).
Proof.
  induction l as [|[v y] l IH]; cbn; auto. intros H; inversion H; subst. destruct (Nat.eqb v t); cbn; auto.
  constructor; auto. intros Hin. apply H2. apply in_map_iff in Hin as ([u x] & E & Hin). cbn in E; subst.
  apply in_map_iff. exists (v, x). split; auto. eapply open_del_In; eauto.
Qed.
Lemma open_get_del_same t l : NoDup (map fst l) -> open_get t (open_del t l) = None.
Proof.
  induction l as [|[v y] l IH]; cbn; auto. intros H; inversion H; subst. destruct (Nat.eqb v t) eqn:E; cbn.
  - apply Nat.eqb_eq in E; subst. apply open_get_None; auto.
  - rewrite E; auto.
Qed.
Lemma open_get_del_other t u l : u <> t -> open_get u (open_del t l) = open_get u l.
Proof.
  intros Hn. induction l as [|[v y] l IH]; cbn; auto. destruct (Nat.eqb v t) eqn:E; cbn.
  - apply Nat.eqb_eq in E; subst. destruct (Nat.eqb t u) eqn:E2; auto. apply Nat.eqb_eq in E2. congruence.
  - destruct (Nat.eqb v u); auto.
Qed.

Definition x0 : xst := {| x_open := []; x_done := []; x_ok := true |}.
Lemma xfold_idx es x i : snd (fold_left xstep es (x, i)) = (i + N.of_nat (length es))%N.
Proof.
  revert x i; induction es as [|e es IH]; intros x i; cbn [fold_left length]; [cbn; lia|].
  unfold xstep at 2. rewrite IH. lia.
Qed.

Lemma conv_snoc tr l s : GInv tr s -> map (conv (tr ++ [l])) (rev (g_done s)) = map (conv tr) (rev (g_done s)).
Proof.
  intros G. apply map_ext_in. intros [[[[t c] r] ti] trr] Hin. rewrite <- in_rev in Hin.
  destruct (G_done tr s G _ _ _ _ _ Hin) as (A & B & _). rewrite (G_now tr s G) in B. cbn. rewrite !evpos_snoc by lia. auto.
Qed.

Lemma reach_xinv nl tr s : reach nl tr s -> XInv tr s (fst (fold_left xstep (visible tr) (x0, 0%N))).
Proof.
  intros R; induction R as [|tr s l s' R IH Hs].
  - constructor; cbn; auto. constructor.
  - pose proof (reach_ginv nl tr s R) as G. pose proof (G_now tr s G) as Hnow.
    unfold step in Hs. destruct (step0 s l) as [s0|] eqn:E; [|discriminate]. inversion Hs; subst s'. clear Hs.
    rewrite visible_app, fold_left_app.
    destruct (fold_left xstep (visible tr) (x0, 0%N)) as [X n] eqn:EX. cbn [fst] in IH.
    assert (Hn : n = N.of_nat (evpos tr (length tr))).
    { pose proof (xfold_idx (visible tr) x0 0%N) as Hi. rewrite EX in Hi. cbn in Hi. rewrite evpos_full. lia. }
    destruct IH as [I1 I2 I3 I4].
    assert (Hopen_old : forall u c ti, g_open s u = Some (c, ti) -> evpos (tr ++ [l]) ti = evpos tr ti).
    { intros u c ti Ho. pose proof (G_open tr s G u) as Gu. rewrite Ho in Gu. destruct Gu as (A & _). apply evpos_snoc. lia. }
    destruct (step0_calls s l s0 E) as [(t & c & -> & Hidle & Eo & Ed)|[(t & r & c & ti & -> & Ho & Eo & Ed)|(Hq & Eo & Ed)]].
    + (* call marker *)
      cbn [visible flat_map app fold_left]. unfold xstep at 1.
      pose proof (idle_no_open tr s t G Hidle) as Hno.
      assert (Hg : open_get t (x_open X) = None) by (rewrite I3, Hno; reflexivity). rewrite Hg. cbn [fst].
      constructor; cbn [x_ok x_done x_open g_done g_open tick]; rewrite ?Eo, ?Ed; auto.
      * rewrite conv_snoc; auto.
      * intros u. cbn [open_get]. unfold updf. rewrite Nat.eqb_sym. destruct (Nat.eqb u t) eqn:Eu.
        -- cbn. rewrite Hnow, evpos_snoc, Hn by lia. reflexivity.
        -- rewrite I3. destruct (g_open s u) as [[c' ti']|] eqn:Hu; cbn; auto. erewrite Hopen_old; eauto.
      * cbn. constructor; auto. apply open_get_None; auto.
    + (* return marker *)
      cbn [visible flat_map app fold_left]. unfold xstep at 1.
      assert (Hg : open_get t (x_open X) = Some (c, N.of_nat (evpos tr ti))) by (rewrite I3, Ho; reflexivity). rewrite Hg. cbn [fst].
      constructor; cbn [x_ok x_done x_open g_done g_open tick]; rewrite ?Eo, ?Ed; auto.
      * cbn [rev]. rewrite map_app, conv_snoc, I2 by auto. f_equal. cbn. rewrite Hnow, (Hopen_old t c ti Ho), evpos_snoc, Hn by lia. reflexivity.
      * intros u. unfold updf. destruct (Nat.eqb u t) eqn:Eu.
        -- apply Nat.eqb_eq in Eu; subst. rewrite open_get_del_same; auto.
        -- apply Nat.eqb_neq in Eu. rewrite open_get_del_other, I3 by auto.
           destruct (g_open s u) as [[c' ti']|] eqn:Hu; cbn; auto. erewrite Hopen_old; eauto.
      * apply open_del_NoDup; auto.
    + (* anything else leaves the records alone *)
      assert (Hx : fst (fold_left xstep (visible [l]) (X, n)) = X).
      { destruct l as [e|u]; cbn; auto. destruct e; cbn in Hq; try tauto; reflexivity. }
      rewrite Hx. constructor; cbn [g_done g_open tick]; rewrite ?Eo, ?Ed; auto.
      * rewrite conv_snoc; auto.
      * intros u. rewrite I3. destruct (g_open s u) as [[c' ti']|] eqn:Hu; cbn; auto. erewrite Hopen_old; eauto.
Qed.

(* ------------------------------------------------------------------ all keys have the declared number of label values *)
Definition klen (nl : nat) (l : list (key * N)) : Prop := Forall (fun kv => length (fst kv) = nl) l.
Definition pc_kl (nl : nat) (p : pc) : Prop :=
  match p with
  | PC2 _ vis => klen nl (vis_keys vis)
  | PR (RColl l) => klen nl l
  | _ => True
  end.
Definition ret_kl (nl : nat) (d : drec) : Prop := match d with (_, _, RColl l, _, _) => klen nl l | _ => True end.
Record KLInv (s : vstate) : Prop := {
  K_map : klen (v_nl s) (v_map s);
  K_pc : forall t, pc_kl (v_nl s) (v_pc s t);
  K_done : Forall (ret_kl (v_nl s)) (g_done s) }.

Lemma kl_frame s s' t p : KLInv s -> v_map s' = v_map s -> v_nl s' = v_nl s -> g_done s' = g_done s ->
  v_pc s' = updf (v_pc s) t p -> pc_kl (v_nl s) p -> KLInv s'.
Proof.
  intros [] E1 E2 E3 E4 Hp. constructor; rewrite ?E1, ?E2, ?E3, ?E4; auto. apply pc_upd_cases; auto.
Qed.
Lemma klen_kinsert nl k c m : length k = nl -> klen nl m -> klen nl (kinsert k c m).
Proof.
  intros Hk. unfold klen. induction m as [|[k1 c1] m IH]; cbn [kinsert]; intros H.
  - constructor; [exact Hk | constructor].
  - inversion H as [|? ? H1 H2]; subst. cbn in H1. destruct (key_eqb k k1).
    + constructor; [exact H1 | exact H2].
    + constructor; [exact H1 | apply IH; exact H2].
Qed.
Lemma klen_kremove nl k m : klen nl m -> klen nl (kremove k m).
Proof.
  unfold klen. induction m as [|[k1 c1] m IH]; cbn [kremove]; intros H; [constructor|].
  pose proof (Forall_inv H) as H1. pose proof (Forall_inv_tail H) as H2. destruct (key_eqb k k1); [apply IH; exact H2 | constructor; [exact H1 | apply IH; exact H2]].
Qed.
Lemma klen_vis nl vis : klen nl (vis_keys vis) -> klen nl (vis_result vis).
Proof. unfold klen, vis_keys, vis_result. rewrite !Forall_map. cbn. auto. Qed.

Lemma kl_step0 tr s l s' : GInv tr s -> KLInv s -> step0 s l = Some s' -> KLInv s'.
Proof.
  intros G KI H. inv_step H; boolp.
  all: try solve [exact KI].
  all: repeat match goal with |- context [if ?b then _ else _] => destruct b end.
  all: try solve [eapply kl_frame; [exact KI | reflexivity | reflexivity | reflexivity | reflexivity | exact I]].
  all: try (match goal with E : v_pc ?s ?t = _ |- _ => pose proof (K_pc s KI t) as Hpc; rewrite E in Hpc; cbn [pc_kl] in Hpc end).
  - (* return marker *)
    destruct KI as [K1 K2 K3]. constructor; sproj; auto.
    all: try (apply pc_upd_cases; [exact I | auto]).
    all: try (constructor; auto; cbn; destruct r0; auto).
  - (* load *)
    eapply kl_frame; [exact KI | reflexivity | reflexivity | reflexivity | reflexivity |]. cbn. unfold vis_keys in *. rewrite map_app. cbn.
    apply Forall_app; split; auto. constructor; auto. apply key_of_cell_In in E5. pose proof (K_map s KI) as Hm.
    unfold klen in Hm. rewrite Forall_forall in Hm. apply (Hm _ E5).
  - (* read-lock acquisition of collect *)
    eapply kl_frame; [exact KI | reflexivity | reflexivity | reflexivity | reflexivity |]. cbn. constructor.
  - (* read-unlock of collect *)
    eapply kl_frame; [exact KI | reflexivity | reflexivity | reflexivity | reflexivity |]. cbn. apply klen_vis; auto.
  - (* insert *)
    destruct KI as [K1 K2 K3]. pose proof (G_open tr s G t) as Go.
    destruct (busy_open tr s t G ltac:(rewrite E0; discriminate)) as (c & ti & Ho). rewrite Ho, E0 in Go. destruct Go as (_ & (_ & Hl & _) & _).
    constructor; sproj; auto; [apply klen_kinsert; auto | apply pc_upd_cases; [exact I | auto]].
  - (* remove *)
    destruct KI as [K1 K2 K3]. constructor; sproj; auto; [apply klen_kremove; auto | apply pc_upd_cases; [exact I | auto]].
  - (* clear *)
    destruct KI as [K1 K2 K3]. constructor; sproj; auto; [constructor | apply pc_upd_cases; [exact I | auto]].
Qed.

Lemma reach_kl nl tr s : reach nl tr s -> KLInv s.
Proof.
  intros R; induction R as [|tr s l s' R IH Hs]; [constructor; cbn; auto; constructor|].
  unfold step in Hs. destruct (step0 s l) as [s0|] eqn:E; [|discriminate]. inversion Hs; subst s'.
  pose proof (kl_step0 tr s l s0 (reach_ginv nl tr s R) IH E) as [K1 K2 K3]. constructor; auto.
Qed.

(* ------------------------------------------------------------------ validated traces: what the spec extracts *)
Definition in_domain (nth : nat) (es : list event) : bool :=
  forallb (fun e => match ev_tid e with Some t => Nat.ltb t nth | None => false end) es.

Lemma all_idle_spec n s t : all_idle n s = true -> t < n -> v_pc s t = PIdle.
Proof.
  induction n as [|n IH]; cbn; [lia|]. intros H Ht. apply andb_true_iff in H as [H1 H2].
  destruct (Nat.eq_dec t n) as [->|Hn]; [destruct (v_pc s n); try discriminate; auto | apply IH; auto; lia].
Qed.

Theorem extract_of_validated nl nth es : vcheck nl nth es = true -> in_domain nth es = true ->
  exists tr s, reach nl tr s /\ visible tr = es /\ (forall t, g_open s t = None)
               /\ extract es = (map (conv tr) (rev (g_done s)), true).
Proof.
  intros Hv Hd. destruct (validated_is_reachable nl nth es Hv) as (tr & s & R & Hvis & Hf). exists tr, s.
  pose proof (reach_ginv nl tr s R) as G.
  assert (Hidle : forall t, v_pc s t = PIdle).
  { intros t. destruct (Nat.lt_ge_cases t nth) as [Hl|Hl].
    - unfold vfinal in Hf. apply andb_true_iff in Hf as [Hf _]. apply andb_true_iff in Hf as [Hf _]. eapply all_idle_spec; eauto.
    - destruct (v_pc s t) eqn:Ep; auto.
      all: destruct (busy_has_event nl tr s t R ltac:(rewrite Ep; discriminate)) as (e & He & Ht); rewrite Hvis in He;
        unfold in_domain in Hd; rewrite forallb_forall in Hd; apply Hd in He; rewrite Ht in He; apply Nat.ltb_lt in He; lia. }
  assert (Hopen : forall t, g_open s t = None) by (intros t; eapply idle_no_open; eauto).
  repeat split; auto.
  pose proof (reach_xinv nl tr s R) as [X1 X2 X3 X4]. rewrite Hvis in *. unfold extract.
  destruct (fold_left xstep es ({| x_open := []; x_done := []; x_ok := true |}, 0%N)) as [X n] eqn:EX.
  change (fold_left xstep es (x0, 0%N)) with (fold_left xstep es ({| x_open := []; x_done := []; x_ok := true |}, 0%N)) in *.
  rewrite EX in *. cbn [fst] in *. rewrite X1, X2. f_equal.
  destruct (x_open X) as [|[u x] r] eqn:Eo; auto. specialize (X3 u). rewrite ?Eo, Hopen in X3. cbn in X3. rewrite Nat.eqb_refl in X3. discriminate.
Qed.

(* ------------------------------------------------------------------ the clauses *)
Lemma skey_eqb_key a b : skey_eqb a b = key_eqb a b.
Proof. revert b; induction a as [|x a IH]; destruct b; cbn; auto; try (rewrite IH; auto). Qed.
Lemma mem_key_In k l : mem_key k l = true <-> In k l.
Proof.
  induction l as [|x l IH]; cbn; [split; [discriminate | tauto]|]. rewrite orb_true_iff, IH, skey_eqb_key, key_eqb_eq. split; intros [H|H]; auto.
Qed.
Lemma nodup_keys_NoDup l : NoDup l -> nodup_keys l = true.
Proof.
  induction 1 as [|x l Hn _ IH]; cbn; auto. rewrite IH, andb_true_r. apply negb_true_iff. destruct (mem_key x l) eqn:E; auto.
  apply mem_key_In in E. tauto.
Qed.

Lemma existsb_false {A} (f : A -> bool) l : existsb f l = false -> forall x, In x l -> f x = false.
Proof.
  induction l as [|y l IH]; cbn; [tauto|]. intros H x [->|Hx]; apply orb_false_iff in H as [H1 H2]; auto.
Qed.

(* removed / reset keys are not collected unless requested again: this conjunct of the spec's [coll_ok] *)
Definition removed_clause (nl : nat) (cs : list crec) (C : crec) (l : list (skey * N)) : bool :=
  forallb (fun kv =>
     forallb (fun r => if is_kill nl (fst kv) r && (c_ri r <? c_ci C)%N
                       then existsb (fun w => is_get nl (fst kv) w && SpecC10.between r w C) cs else true) cs) l.
Lemma coll_ok_conjuncts nl cs C l : coll_ok nl cs C l = true -> nodup_keys (map fst l) = true /\ removed_clause nl cs C l = true.
Proof.
  unfold coll_ok, removed_clause. intros H. repeat (apply andb_true_iff in H as [H ?]). auto.
Qed.

Section Clauses.
Variables (nl : nat) (tr : list label) (s : vstate).
Hypothesis R : reach nl tr s.
Hypothesis Hopen : forall t, g_open s t = None.
Let cs := map (conv tr) (rev (g_done s)).

Lemma in_cs c : In c cs <-> exists d, In d (g_done s) /\ c = conv tr d.
Proof.
  unfold cs. rewrite in_map_iff. split; intros (d & A & B).
  - exists d. rewrite <- in_rev in B. auto.
  - exists d. rewrite <- in_rev. auto.
Qed.

Lemma kinds_ok : forallb (kind_ok nl) cs = true.
Proof.
  apply forallb_forall. intros c Hc. apply in_cs in Hc as ([[[[t ca] r] ti] trr] & Hd & ->).
  pose proof (reach_ginv nl tr s R) as G. pose proof (reach_nl nl tr s R) as Hnl.
  destruct (G_done tr s G _ _ _ _ _ Hd) as (_ & _ & Hm & _). rewrite Hnl in Hm.
  pose proof (K_done s (reach_kl nl tr s R)) as Hk. rewrite Forall_forall in Hk. specialize (Hk _ Hd). rewrite Hnl in Hk.
  unfold kind_ok; cbn [conv c_call c_ret]. destruct ca; cbn in Hm; try tauto.
  - destruct (Nat.eqb (length k) nl) eqn:E; [destruct Hm as (-> & _) | destruct Hm as (-> & _)]; auto.
  - destruct (Nat.eqb (length k) nl) eqn:E; [destruct Hm as [(-> & _)|(-> & _)] | destruct Hm as (-> & _)]; auto.
  - destruct Hm as (-> & _); auto.
  - destruct Hm as (snap & vis & -> & _). cbn in Hk. apply forallb_forall. intros kv Hkv.
    unfold klen in Hk. rewrite Forall_forall in Hk. apply Nat.eqb_eq. auto.
Qed.

Lemma collections_nodup : forallb (fun c => match c_ret c with RColl l => nodup_keys (map fst l) | _ => true end) cs = true.
Proof.
  apply forallb_forall. intros c Hc. apply in_cs in Hc as ([[[[t ca] r] ti] trr] & Hd & ->). cbn [conv c_ret].
  destruct r; auto. apply nodup_keys_NoDup.
  pose proof (reach_ginv nl tr s R) as G. destruct (G_done tr s G _ _ _ _ _ Hd) as (_ & _ & _ & _ & Hr).
  eapply returned_collection_nodup; eauto.
Qed.

Lemma removed_clause_holds C l : In C cs -> c_call C = CVCollect -> c_ret C = RColl l -> removed_clause nl cs C l = true.
Proof.
  intros HC Hcall Hret. pose proof (reach_ginv nl tr s R) as G. pose proof (reach_nl nl tr s R) as Hnl.
  apply in_cs in HC as ([[[[t2 c2] r2] ti2] tr2] & HdC & ->). cbn [conv c_call c_ret c_ci c_ri] in *. subst c2 r2.
  pose proof (K_done s (reach_kl nl tr s R)) as Hk. rewrite Forall_forall in Hk. specialize (Hk _ HdC). cbn in Hk. rewrite Hnl in Hk.
  unfold klen in Hk. rewrite Forall_forall in Hk.
  unfold removed_clause. apply forallb_forall. intros kv Hkv. apply forallb_forall. intros r Hr.
  cbn beta. match goal with |- (if ?c then _ else _) = true => destruct c eqn:Econd; auto end.
  match goal with |- ?e = true => destruct e eqn:Ex; auto end.
  exfalso. apply andb_true_iff in Econd as [Hkill Hbefore].
  apply in_cs in Hr as ([[[[t1 c1] r1] ti1] tr1] & HdR & ->). cbn [conv c_call c_ret c_ci c_ri] in *.
  destruct (G_done tr s G _ _ _ _ _ HdR) as (_ & _ & _ & HcallR & _).
  destruct (G_done tr s G _ _ _ _ _ HdC) as (HtiC & _ & _ & HcallC & HretC).
  assert (Hlen : length (fst kv) = nl) by (apply (Hk kv Hkv)).
  assert (Hlt : tr1 < ti2).
  { apply N.ltb_lt in Hbefore. destruct (Nat.lt_ge_cases tr1 ti2); auto. pose proof (evpos_mono tr ti2 tr1 ltac:(lia)). lia. }
  assert (Hrc : removal_call nl (fst kv) c1).
  { unfold is_kill in Hkill; cbn in Hkill. destruct c1; try discriminate; [|left; auto].
    apply andb_true_iff in Hkill as [A B]. rewrite skey_eqb_key in A. apply key_eqb_eq in A. subst k. apply Nat.eqb_eq in B. right; auto. }
  eapply (removed_not_collected_rt nl tr s R (fst kv) t1 c1 r1 ti1 tr1 t2 l ti2 tr2); eauto.
  - intros i t d Hi Hilt.
    destruct (G_calls tr s G _ _ _ Hi) as [Ho|(rW & trW & HdW)]; [rewrite Hopen in Ho; discriminate|].
    destruct (G_done tr s G _ _ _ _ _ HdW) as (HiW & _ & _ & _ & HretW).
    exists trW, rW. split; auto. split; auto.
    apply existsb_false with (x := conv tr (t, CWithInc (fst kv) d, rW, i, trW)) in Ex;
      [|apply in_cs; eexists; split; [exact HdW | reflexivity]].
    unfold is_get, SpecC10.between in Ex; cbn in Ex. rewrite skey_eqb_key, key_eqb_refl, Hlen, Nat.eqb_refl in Ex. cbn in Ex.
    assert (Hsnd : (N.of_nat (evpos tr i) <? N.of_nat (evpos tr tr2))%N = true).
    { apply N.ltb_lt. pose proof (evpos_strict tr i tr2 _ Hi Hilt). lia. }
    rewrite Hsnd, andb_true_r in Ex. apply N.ltb_ge in Ex.
    assert (Hle : trW <= ti1) by (eapply evpos_lt_inv; [exact HcallR | lia]).
    destruct (Nat.eq_dec trW ti1) as [->|]; [rewrite HcallR in HretW; discriminate | lia].
  - apply in_map. exact Hkv.
Qed.
End Clauses.

(* ------------------------------------------------------------------ the assembled (partial) statement *)
(* On every validated trace whose threads are the harness threads, these parts of spec_c10_relaxed are true:
   every call returned and nothing went wrong; the result kinds; no collection shows a key twice; removed / reset keys are not
   collected unless requested again (relative to real time).  NOT covered: the clauses that decode values (shown bits are updates
   for that key, no lost update, recreated-is-fresh), the remove-Ok/Err clause, and the linearisation search. *)
Definition proved_clauses (nl : nat) (es : list event) : bool :=
  let (cs, wf) := extract es in
  wf && forallb (kind_ok nl) cs
  && forallb (fun c => match c_ret c with RColl l => nodup_keys (map fst l) | _ => true end) cs
  && forallb (fun C => match c_call C, c_ret C with CVCollect, RColl l => removed_clause nl cs C l | _, _ => true end) cs.

Theorem relaxed_spec_of_validated_partial nl nth es :
  vcheck nl nth es = true -> in_domain nth es = true -> proved_clauses nl es = true.
Proof.
  intros Hv Hd. destruct (extract_of_validated nl nth es Hv Hd) as (tr & s & R & Hvis & Hopen & Hex).
  unfold proved_clauses. rewrite Hex. cbn [andb].
  rewrite (kinds_ok nl tr s R), (collections_nodup nl tr s R). cbn [andb].
  apply forallb_forall. intros C HC. destruct (c_call C) eqn:E1; auto. destruct (c_ret C) eqn:E2; auto.
  eapply removed_clause_holds; eauto.
Qed.

(* when the increments of a scenario are not distinct powers of two the spec has no value-decoding part and no search:
   then the whole relaxed spec is proved *)
Theorem relaxed_spec_of_validated_undecodable nl nth es :
  vcheck nl nth es = true -> in_domain nth es = true -> incs_ok (fst (extract es)) = false -> spec_c10_relaxed nl es = true.
Proof.
  intros Hv Hd Hi. pose proof (relaxed_spec_of_validated_partial nl nth es Hv Hd) as H.
  unfold proved_clauses in H. unfold spec_c10_relaxed, base_ok, search_ok. destruct (extract es) as [cs wf]. cbn [fst] in Hi. rewrite Hi.
  apply andb_true_iff in H as [H Hrem]. apply andb_true_iff in H as [H Hnd]. apply andb_true_iff in H as [Hwf Hk].
  rewrite Hwf, Hk, Hnd. reflexivity.
Qed.

(* the proved clauses are conjuncts of the spec *)
Lemma relaxed_spec_implies_proved_clauses nl es : spec_c10_relaxed nl es = true -> incs_ok (fst (extract es)) = true -> proved_clauses nl es = true.
Proof.
  unfold spec_c10_relaxed, proved_clauses, base_ok, pointwise. destruct (extract es) as [cs wf]. cbn [fst]. intros H Hi. rewrite Hi in H.
  apply andb_true_iff in H as [H _]. apply andb_true_iff in H as [H Hp]. apply andb_true_iff in H as [Hwf H3].
  apply andb_true_iff in Hp as [Hp _]. apply andb_true_iff in Hp as [_ H2]. rewrite Hwf, H3. cbn [andb].
  assert (Hc : forall C l, In C cs -> c_call C = CVCollect -> c_ret C = RColl l -> coll_ok nl cs C l = true).
  { intros C l HC E1 E2. rewrite forallb_forall in H2. specialize (H2 C HC). rewrite E1, E2 in H2. auto. }
  apply andb_true_iff; split; apply forallb_forall; intros C HC.
  - destruct (c_ret C) eqn:E2; auto. destruct (c_call C) eqn:E1.
    all: try (rewrite forallb_forall in H3; specialize (H3 C HC); unfold kind_ok in H3; rewrite E1 in H3; try rewrite E2 in H3; cbn in H3; discriminate).
    apply (coll_ok_conjuncts nl cs C l); auto.
  - destruct (c_call C) eqn:E1; auto. destruct (c_ret C) eqn:E2; auto. apply (coll_ok_conjuncts nl cs C l); auto.
Qed.
