(* C06, concurrent part, 5: from a linearisation witness to the order the search of Spec/SpecC06Conc.v looks for.
   [order_from_lin]: if the completed calls [done] (in return order) are a rearrangement of a list L such that
     - nobody later in L returned before an earlier member of L was invoked (real time),
     - the calls of one thread do not overlap,
     - applying the calls in the order of L to the sequential object succeeds,
   then [order_exists] holds of the thread-indexed rows [all_calls done] the search starts from.  Generic in the sequential
   object; pure list combinatorics over the records' call / return indices. *)
Require Import PV.Base.Prelude PV.Model.Conc PV.Model.RegConc PV.Spec.SpecC06Conc.
From Coq Require Import Arith Lia Sorted.
Open Scope N_scope.

Definition ri_lt (a b : qcrec) : Prop := qc_ri a < qc_ri b.
Definition ci_lt (a b : qcrec) : Prop := qc_ci a < qc_ci b.
Definition of_tid (t : nat) (c : qcrec) : bool := Nat.eqb (qc_t c) t.
Definition rows (maxt : nat) (R : list qcrec) : list (list qcrec) := map (fun t => filter (of_tid t) R) (seq 0 (S maxt)).

Lemma filter_filter_comm_aux {A} (f g : A -> bool) l : filter f (filter g l) = filter g (filter f l).
Proof. induction l as [|a l IH]; cbn; auto. destruct (g a) eqn:G, (f a) eqn:F; cbn; rewrite ?G, ?F, IH; reflexivity. Qed.
Lemma filter_all_true {A} (f : A -> bool) l : (forall x, In x l -> f x = true) -> filter f l = l.
Proof. induction l as [|a l IH]; cbn; auto. intros H. rewrite (H a (or_introl eq_refl)). f_equal. apply IH. intros; apply H; auto. Qed.

(* ------------------------------------------------------------------ sorted lists *)
Lemma ssorted_filter {A} (P : A -> A -> Prop) (f : A -> bool) l : StronglySorted P l -> StronglySorted P (filter f l).
Proof.
  induction 1 as [|a l S IH F]; cbn; [constructor|]. destruct (f a); auto. constructor; auto.
  rewrite Forall_forall in *. intros x Hx. apply filter_In in Hx as [Hx _]. auto.
Qed.
Lemma ssorted_key_inj l a b : StronglySorted ri_lt l -> In a l -> In b l -> qc_ri a = qc_ri b -> a = b.
Proof.
  induction 1 as [|x l S IH F]; [intros []|]. rewrite Forall_forall in F. unfold ri_lt in F.
  intros [->|Ha] [->|Hb] E; auto.
  - apply F in Hb. lia.
  - apply F in Ha. lia.
Qed.
(* the member with the least key of a strictly sorted list is its head *)
Lemma ssorted_min_head l a : StronglySorted ri_lt l -> In a l -> (forall b, In b l -> qc_ri a <= qc_ri b) -> exists r, l = a :: r.
Proof.
  intros S Ha Hmin. destruct l as [|x r]; [destruct Ha|]. destruct Ha as [->|Ha]; [eauto|].
  apply StronglySorted_inv in S as [_ F]. rewrite Forall_forall in F. apply F in Ha. unfold ri_lt in Ha.
  specialize (Hmin x (or_introl eq_refl)). lia.
Qed.
Lemma isort_id l : StronglySorted ci_lt l -> fold_right qinsert_ci [] l = l.
Proof.
  induction 1 as [|a l S IH F]; cbn [fold_right]; auto. rewrite IH. destruct l as [|x r]; cbn; auto.
  apply Forall_inv in F. unfold ci_lt in F. apply N.ltb_lt in F. rewrite F. reflexivity.
Qed.

(* ------------------------------------------------------------------ popping the head of a row *)
Lemma qpop_map_seq (f g : nat -> list qcrec) n : forall s k a rest,
  (k < n)%nat -> f (s + k)%nat = a :: rest -> g (s + k)%nat = rest -> (forall u, u <> (s + k)%nat -> g u = f u) ->
  qpop k (map f (seq s n)) = Some (a, map g (seq s n)).
Proof.
  induction n as [|n IH]; intros s k a rest Hk Hf Hg Ho; [lia|]. cbn [seq map]. destruct k as [|k]; cbn [qpop].
  - rewrite Nat.add_0_r in *. rewrite Hf, Hg. f_equal. f_equal. f_equal. apply map_ext_in. intros u Hu. apply in_seq in Hu. symmetry. apply Ho. lia.
  - rewrite (IH (S s) k a rest); try lia.
    + rewrite (Ho s) by lia. reflexivity.
    + rewrite <- Hf. f_equal. lia.
    + rewrite <- Hg. f_equal. lia.
    + intros u Hu. apply Ho. lia.
Qed.
Lemma qheads_ok_all a rem :
  (forall row b, In row rem -> In b row -> (qc_ri b <? qc_ci a) = false) -> qheads_ok a rem = true.
Proof.
  induction rem as [|row rem IH]; intros H; cbn [qheads_ok]; auto. destruct row as [|b r].
  - apply IH. intros row' b' Hr. apply H. right; auto.
  - rewrite (H (b :: r) b (or_introl eq_refl) (or_introl eq_refl)). cbn. apply IH. intros row' b' Hr. apply H. right; auto.
Qed.
Lemma qall_done_rows maxt : qall_done (rows maxt []) = true.
Proof. unfold qall_done, rows. apply forallb_forall. intros x Hx. apply in_map_iff in Hx as (t & <- & _). reflexivity. Qed.

Section Order.
Variable St : Type.
Variable app : St -> qcrec -> option St.
Variable done : list qcrec.
Variable maxt : nat.

Fixpoint replay_ok (x : St) (L : list qcrec) : Prop :=
  match L with [] => True | a :: L' => exists x', app x a = Some x' /\ replay_ok x' L' end.
(* real time along L: nobody later in L returned before an earlier member was invoked *)
Fixpoint lin_ok (L : list qcrec) : Prop :=
  match L with [] => True | a :: L' => (forall b, In b L' -> ~ qc_ri b < qc_ci a) /\ lin_ok L' end.

Hypothesis D_win : forall c, In c done -> qc_ci c < qc_ri c.
Hypothesis D_tid : forall c, In c done -> (qc_t c <= maxt)%nat.
Hypothesis D_disj : forall a b, In a done -> In b done -> qc_t a = qc_t b -> qc_ri a <> qc_ri b -> qc_ri a < qc_ci b \/ qc_ri b < qc_ci a.

Lemma order_from_lin_gen : forall L R x,
  StronglySorted ri_lt R -> (forall c, In c R <-> In c L) -> NoDup (map qc_ri L) -> (forall c, In c L -> In c done) ->
  lin_ok L -> replay_ok x L -> order_exists St app x (rows maxt R).
Proof.
  induction L as [|a L IH]; intros R x SR HR ND HD HL HP.
  - assert (R = []) by (destruct R as [|c R]; auto; exfalso; apply (HR c); left; auto). subst R.
    apply ord_done. apply qall_done_rows.
  - cbn [lin_ok replay_ok] in HL, HP. destruct HL as [HLa HL]. destruct HP as (x' & Ha & HP).
    cbn [map] in ND. apply NoDup_cons_iff in ND as [Hna ND].
    assert (HaR : In a R) by (apply HR; left; auto).
    assert (HaD : In a done) by (apply HD; left; auto).
    set (t := qc_t a).
    set (R' := filter (fun c => negb (qc_ri c =? qc_ri a)) R).
    assert (HR' : forall c, In c R' <-> In c L).
    { intros c. unfold R'. rewrite filter_In, negb_true_iff, N.eqb_neq, HR. split.
      - intros [[<-|Hc] Hn]; [congruence | auto].
      - intros Hc. split; [right; auto|]. intros E. apply Hna. rewrite <- E. apply in_map. exact Hc. }
    (* a heads the row of its thread *)
    assert (Hhead : exists rest, filter (of_tid t) R = a :: rest).
    { apply ssorted_min_head.
      - apply ssorted_filter. exact SR.
      - apply filter_In. split; auto. unfold of_tid, t. apply Nat.eqb_refl.
      - intros b Hb. apply filter_In in Hb as [Hb Ht]. unfold of_tid in Ht. apply Nat.eqb_eq in Ht.
        apply HR in Hb as [<-|Hb]; [lia|].
        destruct (N.eq_dec (qc_ri a) (qc_ri b)) as [E|E]; [lia|].
        destruct (D_disj a b HaD (HD b (or_intror Hb)) (eq_sym Ht) E) as [H|H].
        + pose proof (D_win b (HD b (or_intror Hb))). lia.
        + exfalso. exact (HLa b Hb H). }
    destruct Hhead as (rest & Hrow).
    assert (Hrest : filter (of_tid t) R' = rest).
    { unfold R'. rewrite filter_filter_comm_aux. rewrite Hrow. cbn [filter]. rewrite N.eqb_refl. cbn [negb].
      apply filter_all_true. intros c Hc. apply negb_true_iff, N.eqb_neq. intros E.
      assert (Sr : StronglySorted ri_lt (a :: rest)) by (rewrite <- Hrow; apply ssorted_filter; exact SR).
      apply StronglySorted_inv in Sr as [_ F]. rewrite Forall_forall in F. apply F in Hc. unfold ri_lt in Hc. lia. }
    assert (Hother : forall u, u <> t -> filter (of_tid u) R' = filter (of_tid u) R).
    { intros u Hu. unfold R'. rewrite filter_filter_comm_aux. apply filter_all_true. intros c Hc.
      apply filter_In in Hc as [Hc Hcu]. apply negb_true_iff, N.eqb_neq. intros E.
      assert (c = a) by (eapply ssorted_key_inj; eauto). subst c. unfold of_tid in Hcu. apply Nat.eqb_eq in Hcu. fold t in Hcu. congruence. }
    eapply ord_step with (i := t) (a := a) (rem' := rows maxt R') (x' := x').
    + unfold rows. apply (qpop_map_seq _ (fun u => filter (of_tid u) R') (S maxt) 0%nat t a rest).
      * unfold t. pose proof (D_tid a HaD). lia.
      * exact Hrow.
      * exact Hrest.
      * intros u Hu. apply Hother. exact Hu.
    + apply qheads_ok_all. intros row b Hrow' Hb. unfold rows in Hrow'. apply in_map_iff in Hrow' as (u & <- & _).
      apply filter_In in Hb as [Hb _]. apply N.ltb_ge. apply HR in Hb as [<-|Hb].
      * pose proof (D_win a HaD). lia.
      * specialize (HLa b Hb). lia.
    + exact Ha.
    + apply IH; auto.
      * apply ssorted_filter. exact SR.
      * intros c Hc. apply HD. right; auto.
Qed.
End Order.
